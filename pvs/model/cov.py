"""Functional-coverage specifications: plain-data specs, rendering to literal pyvsc source, an independent
reference model of bins (written from the property text, not from the library's partition code), and helpers
that observe hit counts through the model getters the properties name.

covergroup spec:
  {"name": "CG", "params": [{"name": "a", "type": T}...],          # with_sample parameters
   "options": {"auto_bin_max": n, "at_least": k, "weight": w} (optional),
   "cps": [ {"name": "cp0", "target": "a", "iff": None|{"field": "en"}|{"callable": "en"},
             "bins": None | [bin...], "ignore": [ {"name","items"} ], "illegal": [...],
             "options": {...}} ],
   "crosses": [ {"name": "x0", "cps": ["cp0","cp1"], "iff": ...} ]}
  T = {"kind": "bit"|"int", "w": n} | {"kind": "enum", "enum": "E"}
  bin = {"name", "kind": "bin", "items": [...]} | {"name", "kind": "arr", "n": None|int, "nstyle": "int"|"list", "items"}
        | {"name", "kind": "wild", "pats": [...]} | {"name", "kind": "wildarr", "n": None|int, "pats": [...]}
  item = int | [lo, hi] | {"t": [lo, hi]} (tuple form)
  pat = "0b1x0" (string) | {"vm": [value, mask]}
"""
from ..core.util import import_vsc


# ------------------------------------------------------------------------------------------------
# rendering
def type_src(t):
    if t["kind"] == "obj":
        return "%s()" % t["cls"]
    if t["kind"] == "enum":
        return "vsc.enum_t(%s)" % t["enum"]
    return "vsc.%s_t(%d)" % ("int" if t["kind"] == "int" else "bit", t["w"])


def item_src(it):
    if isinstance(it, dict):
        return "(%d, %d)" % (it["t"][0], it["t"][1])
    if isinstance(it, list):
        return "[%d, %d]" % (it[0], it[1])
    return "%d" % it


def pat_src(p):
    if isinstance(p, dict):
        return "(0x%x, 0x%x)" % (p["vm"][0], p["vm"][1])
    return repr(p)


def bin_src(b):
    k = b["kind"]
    if k == "bin":
        return "vsc.bin(%s)" % ", ".join(item_src(i) for i in b["items"])
    if k == "arr":
        n = b.get("n")
        ns = "[]" if n is None else ("[%d]" % n if b.get("nstyle", "list") == "list" else "%d" % n)
        return "vsc.bin_array(%s, %s)" % (ns, ", ".join(item_src(i) for i in b["items"]))
    if k == "wild":
        return "vsc.wildcard_bin(%s)" % ", ".join(pat_src(p) for p in b["pats"])
    if k == "wildarr":
        n = b.get("n")
        ns = "[]" if n is None else "[%d]" % n
        return "vsc.wildcard_bin_array(%s, %s)" % (ns, ", ".join(pat_src(p) for p in b["pats"]))
    raise ValueError(k)


def dict_src(bins):
    return "{%s}" % ", ".join("%r: %s" % (b["name"], bin_src(b)) for b in bins)


def opts_src(prefix, o, out, ind):
    for k in ("auto_bin_max", "at_least", "weight"):
        if o and k in o:
            out.append("%s%s.%s = %d" % (ind, prefix, k, o[k]))


IFF_EXPR = {   # compound conditions that all mean "en is 1": evaluated by the library's expression evaluator at sample time
    "not": "~(self.%(f)s == 0)",
    "or": "((self.%(f)s == 1) | (self.%(f)s > 1))",
    "and": "((self.%(f)s != 0) & (self.%(f)s <= 1))",
    "inside": "self.%(f)s.inside(vsc.rangelist(1, [3, 4]))",
    "not_inside": "self.%(f)s.not_inside(vsc.rangelist(0))",
}


def iff_src(iff):
    if "field" in iff:
        return "iff=self.%s" % iff["field"]
    if "expr" in iff:
        return "iff=" + IFF_EXPR[iff["expr"]] % {"f": iff["of"]}
    return "iff=lambda: self.%s" % iff["callable"]


def cg_source(cg):
    out = []
    out.append("@vsc.covergroup")
    out.append("class %s(object):" % cg["name"])
    ctor_args = "".join(", %s" % a for a in cg.get("ctor_args", []))
    out.append("    def __init__(self%s):" % ctor_args)
    out.append("        self.with_sample(dict(%s))" % ", ".join("%s=%s" % (p["name"], type_src(p["type"])) for p in cg["params"]))
    opts_src("self.options", cg.get("options"), out, "        ")
    for line in cg.get("pre_lines", []):
        out.append("        " + line)
    for cp in cg["cps"]:
        if cp.get("target_style") == "callable":
            # sampling through a callable needs the coverpoint's type spelled out
            tsrc = "lambda: self.%s" % cp["target"]
            if cp.get("boom"):
                # a user callable that raises when the module-level switch BOOM[0] is set
                tsrc = "lambda: self.%s if not BOOM[0] else (_ for _ in ()).throw(RuntimeError('boom'))" % cp["target"]
            args = [tsrc, "cp_t=%s" % type_src([p for p in cg["params"] if p["name"] == cp["target"]][0]["type"])]
        else:
            args = ["self.%s" % cp["target"]]
        iff = cp.get("iff")
        if iff:
            args.append(iff_src(iff))
        if cp.get("bins") is not None:
            args.append("bins=%s" % (cp["bins_expr"] if cp.get("bins_expr") else dict_src(cp["bins"])))
        if cp.get("ignore"):
            args.append("ignore_bins=%s" % dict_src([dict(b, kind="bin") for b in cp["ignore"]]))
        if cp.get("illegal"):
            args.append("illegal_bins=%s" % dict_src([dict(b, kind="bin") for b in cp["illegal"]]))
        o = cp.get("options")
        if o:
            args.append("options=dict(%s)" % ", ".join("%s=%d" % kv for kv in sorted(o.items())))
        out.append("        self.%s = vsc.coverpoint(%s)" % (cp["name"], ", ".join(args)))
    for x in cg.get("crosses", []):
        args = ["[%s]" % ", ".join("self.%s" % c for c in x["cps"])]
        iff = x.get("iff")
        if iff:
            args.append(iff_src(iff))
        o = x.get("options")
        if o:
            args.append("options=dict(%s)" % ", ".join("%s=%d" % kv for kv in sorted(o.items())))
        out.append("        self.%s = vsc.cross(%s)" % (x["name"], ", ".join(args)))
    out.append("")
    return "\n".join(out)


def enums_source(enums):
    out = []
    for name, spec in sorted((enums or {}).items()):
        out.append("class %s(enum.%s):" % (name, "IntEnum" if spec["int"] else "Enum"))
        for mname, mval in spec["members"]:
            out.append("    %s = %s" % (mname, ("%d" % mval) if spec["int"] else "enum.auto()"))
        out.append("")
    return "\n".join(out)


def build(cgs, enums=None, prelude=""):
    """exec the source of the covergroup classes -> namespace"""
    import enum as _enum
    vsc = import_vsc()
    src = enums_source(enums) + prelude + "\n".join(cg_source(c) for c in cgs)
    ns = {"vsc": vsc, "enum": _enum, "BOOM": [False]}
    exec(compile(src, "<pvs-cov>", "exec"), ns)
    ns["__source__"] = src
    return ns


# ------------------------------------------------------------------------------------------------
# reference
def type_values(t, enums=None):
    if t["kind"] == "enum":
        return [m[1] for m in enums[t["enum"]]["members"]]
    w = t["w"]
    if t["kind"] == "int":
        return list(range(-(1 << (w - 1)), 1 << (w - 1)))
    return list(range(0, 1 << w))


def values(items):
    s = set()
    for it in items:
        if isinstance(it, dict):
            it = it["t"]
        if isinstance(it, list):
            s.update(range(it[0], it[1] + 1))
        else:
            s.add(it)
    return s


def partition(vals, n):
    """ascending value list -> n consecutive equal-size bins, remainder in the last; one bin per value
    when no count is given or the count is not smaller than the number of values"""
    vals = sorted(vals)
    if not vals:
        return []
    if n is None or n >= len(vals):
        return [[v] for v in vals]
    per = len(vals) // n
    out = [vals[i * per:(i + 1) * per] for i in range(n)]
    out[-1] = vals[(n - 1) * per:]
    return out


def parse_pattern(p):
    """-> (value, mask).  String form: 0x / 0o / 0b prefix, digits with x X ? as wildcards, _ ignored."""
    if isinstance(p, dict):
        return p["vm"][0], p["vm"][1]
    s = p.replace("_", "")
    base = s[:2].lower()
    bits = {"0x": 4, "0o": 3, "0b": 1}[base]
    value = mask = 0
    for ch in s[2:]:
        value <<= bits
        mask <<= bits
        if ch in "xX?":
            pass
        else:
            value |= int(ch, 16)
            mask |= (1 << bits) - 1
    return value, mask


def wild_match(v, pats):
    for p in pats:
        val, msk = parse_pattern(p)
        if ((v ^ val) & msk) == 0:
            return True
    return False


def ref_bins(cp, tvals, auto_bin_max=64):
    """-> (regular bins as list of value sets, ignore bins, illegal bins) in flat declaration order"""
    excl = set()
    for b in (cp.get("ignore") or []) + (cp.get("illegal") or []):
        excl |= values(b["items"])
    regular = []
    if cp.get("bins") is None:
        if cp.get("enum_auto"):
            regular = [{v} for v in sorted(set(tvals) - excl)]
        else:
            regular = [set(b) for b in partition(set(tvals) - excl, auto_bin_max)]
    else:
        for b in cp["bins"]:
            k = b["kind"]
            if k == "bin":
                v = values(b["items"]) - excl
                if v:
                    regular.append(v)
            elif k == "arr":
                regular += [set(x) for x in partition(values(b["items"]) - excl, b.get("n"))]
            elif k == "wild":
                # (a wildcard bin stays in place even when every matching value is excluded)
                regular.append({v for v in tvals if wild_match(v, b["pats"])} - excl)
            elif k == "wildarr":
                regular += [set(x) for x in partition({v for v in tvals if wild_match(v, b["pats"])} - excl, b.get("n"))]
    ign = [values(b["items"]) for b in (cp.get("ignore") or [])]
    ill = [values(b["items"]) for b in (cp.get("illegal") or [])]
    return regular, ign, ill


# ------------------------------------------------------------------------------------------------
# interval-based reference (types too wide to enumerate): a value set is a sorted list of disjoint [lo, hi] pairs
def iv_norm(items):
    ivs = []
    for it in items:
        if isinstance(it, dict):
            it = it["t"]
        if isinstance(it, (list, tuple)):
            if it[0] <= it[1]:
                ivs.append([it[0], it[1]])
        else:
            ivs.append([it, it])
    ivs.sort()
    out = []
    for lo, hi in ivs:
        if out and lo <= out[-1][1] + 1:
            out[-1][1] = max(out[-1][1], hi)
        else:
            out.append([lo, hi])
    return out


def iv_sub(a, b):
    """a minus b (both normalised)"""
    out = []
    for lo, hi in a:
        cur = lo
        for blo, bhi in b:
            if bhi < cur or blo > hi:
                continue
            if blo > cur:
                out.append([cur, blo - 1])
            cur = max(cur, bhi + 1)
            if cur > hi:
                break
        if cur <= hi:
            out.append([cur, hi])
    return out


def iv_count(a):
    return sum(hi - lo + 1 for lo, hi in a)


def iv_contains(a, v):
    return any(lo <= v <= hi for lo, hi in a)


def iv_take(a, k):
    """split a into (first k values, rest)"""
    first, rest = [], []
    for lo, hi in a:
        if k <= 0:
            rest.append([lo, hi])
        elif hi - lo + 1 <= k:
            first.append([lo, hi])
            k -= hi - lo + 1
        else:
            first.append([lo, lo + k - 1])
            rest.append([lo + k, hi])
            k = 0
    return first, rest


def iv_partition(a, n):
    """ascending values -> n consecutive equal-size bins, remainder in the last; one bin per value when no count is
    given or the count is not smaller than the number of values"""
    tot = iv_count(a)
    if tot == 0:
        return []
    if n is None or n >= tot:
        return [[[v, v]] for lo, hi in a for v in range(lo, hi + 1)]
    per = tot // n
    out = []
    rest = a
    for _ in range(n - 1):
        first, rest = iv_take(rest, per)
        out.append(first)
    out.append(rest)
    return out


def ref_bins_iv(cp, trange, auto_bin_max=64):
    """interval version of ref_bins for integer types: -> (regular, ignore, illegal), each a list of interval lists"""
    excl = iv_norm([i for b in (cp.get("ignore") or []) + (cp.get("illegal") or []) for i in b["items"]])
    regular = []
    if cp.get("bins") is None:
        regular = iv_partition(iv_sub([list(trange)], excl), auto_bin_max)
    else:
        for b in cp["bins"]:
            vals = iv_sub(iv_norm(b["items"]), excl)
            if b["kind"] == "bin":
                if vals:
                    regular.append(vals)
            elif b["kind"] == "arr":
                regular += iv_partition(vals, b.get("n"))
            else:
                raise ValueError(b["kind"])
    ign = [iv_norm(b["items"]) for b in (cp.get("ignore") or [])]
    ill = [iv_norm(b["items"]) for b in (cp.get("illegal") or [])]
    return regular, ign, ill


# ------------------------------------------------------------------------------------------------
# observation through the model getters
def cp_model(cg_obj, name):
    m = cg_obj.get_model()
    for c in m.coverpoint_l:
        if c.name == name:
            return c
    raise KeyError(name)


def cross_model(cg_obj, name):
    m = cg_obj.get_model()
    for c in m.cross_l:
        if c.name == name:
            return c
    raise KeyError(name)


def hits(cpm):
    return ([cpm.get_bin_hits(i) for i in range(cpm.get_n_bins())],
            [cpm.get_ignore_bin_hits(i) for i in range(cpm.get_n_ignore_bins())],
            [cpm.get_illegal_bin_hits(i) for i in range(cpm.get_n_illegal_bins())])


def names(cpm):
    return [cpm.get_bin_name(i) for i in range(cpm.get_n_bins())]
