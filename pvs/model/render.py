"""Render programs (plain data, see sem.py) to literal pyvsc Python source and build them with exec().

Rendering to source text means the harness drives the library exactly the way a user's file would
(natural Python evaluation order, public DSL only) and every replay file carries a readable program.
"""
import enum as _enum

from ..core.util import import_vsc

PYOP = {"==": "==", "!=": "!=", "<": "<", "<=": "<=", ">": ">", ">=": ">=", "+": "+", "-": "-", "*": "*",
        "&": "&", "|": "|", "^": "^", "<<": "<<", ">>": ">>", "/": "/", "%": "%"}


def lit(v):
    return "(%d)" % v if v < 0 else "%d" % v


def rx(e, S="self"):
    """expression -> source"""
    k = e[0]
    if k == "f":
        return "%s.%s" % (S, e[1])
    if k == "lit":
        return lit(e[1])
    if k == "ulit":
        return "vsc.unsigned(%d, %d)" % (e[1], e[2])
    if k == "slit":
        return "vsc.signed(%d, %d)" % (e[1], e[2])
    if k == "elit":
        return "%s.%s" % (e[2], e[3])
    if k == "bin":
        return "(%s %s %s)" % (rx(e[2], S), PYOP[e[1]], rx(e[3], S))
    if k == "not":
        if e[1][0] == "in" and len(e[1]) > 3 and e[1][3] == "not_inside":
            return "%s.not_inside(%s)" % (rx(e[1][1], S), rrl(e[1][2], S))
        return "(~%s)" % rx(e[1], S)
    if k == "in":
        return "%s.inside(%s)" % (rx(e[1], S), rrl(e[2], S))
    if k == "inl":
        return "%s.inside(%s.%s)" % (rx(e[1], S), S, e[2])
    if k == "ps":
        if len(e) > 4 and e[4] == "bit" and e[2] == e[3]:
            return "%s.%s[%d]" % (S, e[1], e[2])
        return "%s.%s[%d:%d]" % (S, e[1], e[2], e[3])
    if k == "pse":
        return "%s[%d:%d]" % (rx(e[1], S), e[2], e[3])
    if k == "el":
        s = "%s.%s[%s]" % (S, e[1], rx(e[2], S))
        if len(e) > 3 and e[3]:
            s += "." + e[3]
        return s
    if k == "iv":
        return e[1]
    if k == "it":
        return e[1] + ("." + e[2] if len(e) > 2 and e[2] else "")
    if k == "sz":
        return "%s.%s.size" % (S, e[1])
    if k == "sum":
        return "%s.%s.sum" % (S, e[1])
    if k == "prod":
        return "%s.%s.product" % (S, e[1])
    if k == "dyn":
        return "%s.%s()" % (S, e[1])
    if k == "dynel":
        return "%s.%s[%s].%s()" % (S, e[1], rx(e[2], S), e[3])
    raise ValueError("rx " + repr(e))


def rrl(items, S):
    parts = []
    for it in items:
        if it[0] == "rng":
            style = it[3] if len(it) > 3 else "rng"
            if style == "tuple":
                parts.append("(%s, %s)" % (rx(it[1], S), rx(it[2], S)))
            else:
                parts.append("vsc.rng(%s, %s)" % (rx(it[1], S), rx(it[2], S)))
        else:
            parts.append(rx(it, S))
    return "vsc.rangelist(%s)" % ", ".join(parts)


def rs(s, S, ind, out):
    """statement -> source lines appended to out"""
    pad = "    " * ind
    k = s[0]
    if k == "expr":
        e = s[1]
        if e[0] == "in" and len(e) > 3 and e[3] == "op":
            out.append("%s%s in %s" % (pad, rx(e[1], S), rrl(e[2], S)))
        else:
            out.append(pad + rx(e, S))
    elif k == "if":
        for i, (cond, body) in enumerate(s[1]):
            out.append("%swith vsc.%s(%s):" % (pad, "if_then" if i == 0 else "else_if", rx(cond, S)))
            rbody(body, S, ind + 1, out)
        if s[2] is not None:
            out.append("%swith vsc.else_then:" % pad)
            rbody(s[2], S, ind + 1, out)
    elif k == "implies":
        out.append("%swith vsc.implies(%s):" % (pad, rx(s[1], S)))
        rbody(s[2], S, ind + 1, out)
    elif k == "unique":
        out.append("%svsc.unique(%s)" % (pad, ", ".join(rx(x, S) for x in s[1])))
    elif k == "uniql":
        out.append("%svsc.unique(%s.%s)" % (pad, S, s[1]))
    elif k == "uvec":
        out.append("%svsc.unique_vec(%s)" % (pad, ", ".join("%s.%s" % (S, x) for x in s[1])))
    elif k == "foreach":
        lst, iv, it, body = s[1], s[2], s[3], s[4]
        if iv and it:
            out.append("%swith vsc.foreach(%s.%s, idx=True, it=True) as (%s, %s):" % (pad, S, lst, iv, it))
        elif iv:
            out.append("%swith vsc.foreach(%s.%s, idx=True) as %s:" % (pad, S, lst, iv))
        else:
            out.append("%swith vsc.foreach(%s.%s) as %s:" % (pad, S, lst, it))
        rbody(body, S, ind + 1, out)
    elif k == "soft":
        out.append("%svsc.soft(%s)" % (pad, rx(s[1], S)))
    elif k == "mk":
        # an unrelated instance is constructed while the block is open
        out.append("%s_pvs_other = type(obj)()" % pad)
    elif k == "dist":
        ws = []
        for item, wt in s[2]:
            if item[0] == "rng":
                style = item[3] if len(item) > 3 else "rng"
                if style == "list":
                    tgt = "[%s, %s]" % (rx(item[1], S), rx(item[2], S))
                elif style == "tuple":
                    tgt = "(%s, %s)" % (rx(item[1], S), rx(item[2], S))
                else:
                    tgt = "vsc.rng(%s, %s)" % (rx(item[1], S), rx(item[2], S))
            else:
                tgt = rx(item, S)
            ws.append("vsc.weight(%s, %s)" % (tgt, rx(wt, S)))
        out.append("%svsc.dist(%s, [%s])" % (pad, rx(s[1], S), ", ".join(ws)))
    elif k == "order":
        def side(keys):
            if len(keys) == 1:
                return "%s.%s" % (S, keys[0])
            return "[%s]" % ", ".join("%s.%s" % (S, x) for x in keys)
        out.append("%svsc.solve_order(%s, %s)" % (pad, side(s[1]), side(s[2])))
    elif k == "raise":
        out.append("%sraise %s(%r)" % (pad, s[1], s[2]))
    else:
        raise ValueError("rs " + repr(s))


def rbody(stmts, S, ind, out):
    if not stmts:
        out.append("    " * ind + "pass")
    for s in stmts:
        rs(s, S, ind, out)


# ------------------------------------------------------------------------------------------------
def field_ctor(f):
    k = f["kind"]
    r = "rand_" if f.get("rand") else ""
    if k == "enum":
        return "vsc.%senum_t(%s)" % (r, f["enum"])
    init = ""
    if f.get("ctor_init") is not None:
        init = ", i=%d" % f["ctor_init"]
    if k == "int":
        return "vsc.%sint_t(%d%s)" % (r, f["w"], init)
    return "vsc.%sbit_t(%d%s)" % (r, f["w"], init)


def elem_ctor(t):
    if t["kind"] == "enum":
        return "vsc.enum_t(%s)" % t["enum"]
    return "vsc.%s_t(%d)" % ("int" if t["kind"] == "int" else "bit", t["w"])


def enum_source(name, spec, out):
    out.append("class %s(enum.%s):" % (name, "IntEnum" if spec["int"] else "Enum"))
    for mname, mval in spec["members"]:
        out.append("    %s = %s" % (mname, ("%d" % mval) if spec["int"] else "enum.auto()"))
    out.append("")


def class_source(c, out):
    """c: class spec dict (see module doc of gen.py)"""
    base = c.get("base") or "object"
    out.append("@vsc.randobj")
    out.append("class %s(%s):" % (c["name"], base))
    out.append("    def __init__(self%s):" % ("".join(", " + a for a in c.get("ctor_params", []))))
    body = []
    if c.get("base"):
        body.append("super().__init__()")
    for f in c.get("fields", []):
        if "[" in f["name"]:
            continue        # pseudo-field: an element of one of the class's lists, named by a constant subscript
        body.append("self.%s = %s" % (f["name"], field_ctor(f)))
    for l in c.get("lists", []):
        mode = l["mode"]
        if mode == "randsz":
            body.append("self.%s = vsc.randsz_list_t(%s)" % (l["name"], elem_ctor(l["elem"])))
        elif mode == "fixed":
            body.append("self.%s = vsc.rand_list_t(%s, sz=%d)" % (l["name"], elem_ctor(l["elem"]), l["size"]))
        else:
            if l.get("size"):
                body.append("self.%s = vsc.list_t(%s, sz=%d)" % (l["name"], elem_ctor(l["elem"]), l["size"]))
            else:
                body.append("self.%s = vsc.list_t(%s)" % (l["name"], elem_ctor(l["elem"])))
    for s in c.get("subs", []):
        body.append("self.%s = vsc.%s(%s())" % (s["name"], "rand_attr" if s["rand"] else "attr", s["cls"]))
    for ol in c.get("objlists", []):
        ctor = {"rand": "rand_list_t", "nonrand": "list_t", "randsz": "randsz_list_t"}[ol.get("mode", "rand")]
        body.append("self.%s = vsc.%s(%s())" % (ol["name"], ctor, ol["cls"]))
        for ecls in ol["elems"]:
            body.append("self.%s.append(%s())" % (ol["name"], ecls))
    for line in c.get("init_extra", []):
        body.append(line)
    if not body:
        body.append("pass")
    for b in body:
        out.append("        " + b)
    for cb in ("pre_randomize", "post_randomize"):
        if c.get(cb) is not None:
            out.append("    def %s(self):" % cb)
            for line in c[cb] or ["pass"]:
                out.append("        " + line)
    for b in c.get("blocks", []):
        if b.get("bind"):
            # the block is bound to its attribute by assignment: the function's own name differs from the block's name
            out.append("    def _body_of_%s(self):" % b["name"])
            rbody(b["stmts"], "self", 2, out)
            out.append("    %s = vsc.constraint(_body_of_%s)" % (b["name"], b["name"]))
            continue
        out.append("    @vsc.constraint")
        out.append("    def %s(self):" % b["name"])
        rbody(b["stmts"], "self", 2, out)
    for b in c.get("dyn", []):
        out.append("    @vsc.dynamic_constraint")
        out.append("    def %s(self):" % b["name"])
        rbody(b["stmts"], "self", 2, out)
    out.append("")


def program_source(prog):
    out = []
    for name, spec in sorted(prog.get("enums", {}).items()):
        enum_source(name, spec, out)
    for c in prog["classes"]:
        class_source(c, out)
    return "\n".join(out)


def inline_source(stmts, var="it"):
    out = []
    rbody(stmts, var, 1, out)
    return "\n".join(out)


def build(prog, extra_ns=None):
    """exec the program's source; returns the namespace (classes and enums by name)."""
    vsc = import_vsc()
    ns = {"vsc": vsc, "enum": _enum}
    if extra_ns:
        ns.update(extra_ns)
    src = program_source(prog)
    exec(compile(src, "<pvs-program>", "exec"), ns)
    ns["__source__"] = src
    return ns


_INLINE_CACHE = {}


def call_inline(ns, obj, stmts, kind="randomize_with", args=None, randstate=None, kw=None):
    """Run `with obj.randomize_with() as it: <stmts>` (or the free-standing form) from literal source."""
    body = inline_source(stmts, "it")
    kws = ""
    if kw:
        kws = ", ".join("%s=%r" % kv for kv in sorted(kw.items()))
    if kind == "randomize_with":
        src = "with obj.randomize_with(%s) as it:\n%s\n" % (kws, body)
    else:
        # free-standing: inline constraints refer to the objects passed, named a0..an
        src = "with vsc.randomize_with(%s%s):\n%s\n" % (
            ", ".join("a%d" % i for i in range(len(args))),
            (", randstate=rs" if randstate is not None else "") + ((", " + kws) if kws else ""), body)
    code = _INLINE_CACHE.get(src)
    if code is None:
        if len(_INLINE_CACHE) > 2000:
            _INLINE_CACHE.clear()
        code = _INLINE_CACHE[src] = compile(src, "<pvs-inline>", "exec")
    loc = {"obj": obj, "vsc": ns["vsc"], "rs": randstate, "it": obj}
    for k, v in ns.items():
        if isinstance(v, type) and issubclass(v, _enum.Enum):
            loc[k] = v
    if args:
        for i, a in enumerate(args):
            loc["a%d" % i] = a
    exec(code, loc)
    return src
