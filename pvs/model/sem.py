"""Reference semantics of the pyvsc constraint language over Python integers.

Written from the property text / documentation (SystemVerilog-style sizing: context-width propagation,
sign-extension iff both operands of a node are signed), not from the library's lowering code.

Programs are plain JSON-able data.

types : dict key -> {"w": int, "signed": bool, "kind": "bit"|"int"|"enum", "dom": [ints] (enum only)}
        list element types live under key "<list>[]" ; object-list element fields under "<list>[].<attr>"
env   : dict key -> int ; list sizes under "#<list>" ; elements under "<list>[i]" / "<list>[i].<attr>"

Expressions (lists):
  ["f", key]  ["lit", v]  ["ulit", v, w]  ["slit", v, w]  ["elit", v, enum_name, member_name]
  ["bin", op, l, r]  ["not", e]  ["in", e, [item...]] item = expr | ["rng", lo, hi]
  ["inl", e, listkey]  ["ps", key, hi, lo]  ["pse", element_expr, hi, lo] (slice of a list element)
  ["el", listkey, idx_expr, attr|None]  ["iv", name]  ["it", name, attr|None]
  ["sz", listkey]  ["sum", listkey]  ["prod", listkey]  ["dyn", name]
Statements:
  ["expr", e]  ["if", [[cond, [stmts]]...], else|None]  ["implies", cond, [stmts]]  ["unique", [exprs]]
  ["uvec", [listkeys]]  ["foreach", listkey, iv|None, it|None, [stmts]]  ["soft", e]
  ["dist", key_expr, [[item, weight_expr]...]]  ["order", [keys], [keys]]
"""

CMP = ("==", "!=", "<", "<=", ">", ">=")
ARITH = ("+", "-", "*", "&", "|", "^", "<<", ">>", "/", "%")


def mask(w):
    return (1 << w) - 1


def to_signed(v, w):
    v &= mask(w)
    return v - (1 << w) if (v >> (w - 1)) & 1 else v


def wrap(v, w, signed):
    return to_signed(v, w) if signed else (v & mask(w))


def type_range(t):
    if t.get("kind") == "enum":
        return None
    w = t["w"]
    return (-(1 << (w - 1)), (1 << (w - 1)) - 1) if t["signed"] else (0, (1 << w) - 1)


def domain(t):
    if t.get("kind") == "enum":
        return list(t["dom"])
    lo, hi = type_range(t)
    return range(lo, hi + 1)


def in_type(v, t):
    if t.get("kind") == "enum":
        return v in t["dom"]
    lo, hi = type_range(t)
    return lo <= v <= hi


class Ctx:
    """Evaluation context: types, env, loop variables, dynamic blocks."""
    __slots__ = ("types", "env", "loop", "dyn")

    def __init__(self, types, env, dyn=None):
        self.types = types
        self.env = env
        self.loop = {}
        self.dyn = dyn or {}


def _idx(e, c):
    """Evaluate an index expression to a Python int (loop variables / literals / + -)."""
    k = e[0]
    if k == "lit":
        return e[1]
    if k == "iv":
        return c.loop[e[1]][0]
    if k == "bin":
        a, b = _idx(e[2], c), _idx(e[3], c)
        return a + b if e[1] == "+" else a - b
    raise ValueError("index expr " + repr(e))


def elkey(e, c):
    """concrete env key of an 'el' / 'it' node"""
    if e[0] == "el":
        i = _idx(e[2], c)
        key = "%s[%d]" % (e[1], i)
        attr = e[3] if len(e) > 3 else None
        tkey = e[1] + "[]"
    else:  # it
        lst, i = c.loop[e[1]][1], c.loop[e[1]][0]
        key = "%s[%d]" % (lst, i)
        attr = e[2] if len(e) > 2 else None
        tkey = lst + "[]"
    if attr:
        key += "." + attr
        tkey += "." + attr
    return key, tkey


def width(e, c):
    k = e[0]
    if k == "f":
        return c.types[e[1]]["w"]
    if k == "lit":
        return 32 if -(1 << 31) <= e[1] < (1 << 31) else 64     # (a Python int beyond 32 bits is a 64-bit literal)
    if k == "elit":
        return 32
    if k in ("ulit", "slit"):
        return e[2]
    if k == "bin":
        if e[1] in CMP:
            return 1
        return max(width(e[2], c), width(e[3], c))
    if k == "not":
        return width(e[1], c)
    if k in ("in", "inl", "dyn", "dynel"):
        return 1
    if k in ("ps", "pse"):
        return e[2] - e[3] + 1
    if k in ("el", "it"):
        return c.types[elkey(e, c)[1]]["w"]
    if k == "iv":
        return 32
    if k == "sz":
        return 32
    if k == "prod":
        return 64
    if k == "sum":
        t = c.types[e[1] + "[]"]
        n = c.env["#" + e[1]]
        w, ov = t["w"], n - 1
        while ov > 0:
            w += 1
            ov >>= 1
        return w
    raise ValueError("width of " + repr(e))


def signed(e, c):
    k = e[0]
    if k == "f":
        return c.types[e[1]]["signed"]
    if k == "lit":
        return e[1] < (1 << 63)      # (only a value beyond the signed 64-bit range is an unsigned literal)
    if k in ("slit", "elit"):
        return True
    if k == "ulit":
        return False
    if k == "bin":
        if e[1] in CMP:
            return False
        return signed(e[2], c) and signed(e[3], c)
    if k == "not":
        return signed(e[1], c)
    if k in ("in", "inl", "ps", "pse", "dyn", "dynel", "sz"):
        return False
    if k in ("el", "it"):
        return c.types[elkey(e, c)[1]]["signed"]
    if k == "iv":
        return True        # a foreach index behaves like the Python int literal of its value (32-bit signed)
    if k in ("sum", "prod"):
        return c.types[e[1] + "[]"]["signed"]
    raise ValueError("signed of " + repr(e))


def _ext(v, w, cw, sgn):
    """v: w-bit pattern -> cw-bit pattern"""
    if cw <= w:
        return v & mask(cw)
    if sgn:
        return to_signed(v, w) & mask(cw)
    return v


def ev(e, c, ctx=-1):
    """-> (bit pattern, width)"""
    k = e[0]
    if k == "f":
        t = c.types[e[1]]
        return (c.env[e[1]] & mask(t["w"]), t["w"])
    if k in ("lit", "elit"):
        w = max(width(e, c), ctx)
        return (e[1] & mask(w), w)
    if k in ("ulit", "slit"):
        w = max(e[2], ctx)
        return (e[1] & mask(w), w)
    if k == "ps":
        t = c.types[e[1]]
        v = c.env[e[1]] & mask(t["w"])
        n = e[2] - e[3] + 1
        return ((v >> e[3]) & mask(n), n)
    if k == "pse":
        v, _w = ev(e[1], c)
        n = e[2] - e[3] + 1
        return ((v >> e[3]) & mask(n), n)
    if k in ("el", "it"):
        key, tkey = elkey(e, c)
        t = c.types[tkey]
        return (c.env[key] & mask(t["w"]), t["w"])
    if k == "iv":
        w = max(32, ctx)
        return (c.loop[e[1]][0] & mask(w), w)
    if k == "sz":
        return (c.env["#" + e[1]] & mask(32), 32)
    if k == "prod":
        # 64-bit product of the elements (the library's product of an empty list is 0)
        n = c.env["#" + e[1]]
        w = max(64, ctx)
        pr = 1 if n else 0
        for i in range(n):
            pr *= c.env["%s[%d]" % (e[1], i)]
        return (pr & mask(w), w)
    if k == "sum":
        t = c.types[e[1] + "[]"]
        n = c.env["#" + e[1]]
        w = max(width(e, c), ctx)
        s = 0
        for i in range(n):
            x = c.env["%s[%d]" % (e[1], i)]
            s += x
        return (s & mask(w), w)
    if k == "not":
        # the operand is extended to the width of the enclosing expression before it is inverted
        cw = max(width(e[1], c), ctx)
        v, w = ev(e[1], c, cw)
        if w < cw:
            v, w = _ext(v, w, cw, signed(e[1], c)), cw
        return ((~v) & mask(w), w)
    if k == "in":
        lhs = e[1]
        for it in e[2]:
            if it[0] == "rng":
                if ev(["bin", ">=", lhs, it[1]], c)[0] and ev(["bin", "<=", lhs, it[2]], c)[0]:
                    return (1, 1)
            elif ev(["bin", "==", lhs, it], c)[0]:
                return (1, 1)
        return (0, 1)
    if k == "inl":
        n = c.env["#" + e[2]]
        for i in range(n):
            if ev(["bin", "==", e[1], ["el", e[2], ["lit", i], None]], c)[0]:
                return (1, 1)
        return (0, 1)
    if k == "dyn":
        return (1 if all(holds(s, c) for s in c.dyn[e[1]]) else 0, 1)
    if k == "dynel":
        # ["dynel", list, index expr, block]: the dynamic block of the list element selected by the index
        return (1 if all(holds(s, c) for s in c.dyn["%s[%d].%s" % (e[1], _idx(e[2], c), e[3])]) else 0, 1)
    if k == "bin":
        op, l, r = e[1], e[2], e[3]
        cw = max(width(l, c), width(r, c), ctx if op not in CMP else -1)
        sg = signed(l, c) and signed(r, c)
        lv, lw = ev(l, c, cw)
        rv, rw = ev(r, c, cw)
        w = max(cw, lw, rw)
        lv = _ext(lv, lw, w, sg)
        rv = _ext(rv, rw, w, sg)
        if op in CMP:
            a, b = (to_signed(lv, w), to_signed(rv, w)) if sg else (lv, rv)
            res = {"==": a == b, "!=": a != b, "<": a < b, "<=": a <= b, ">": a > b, ">=": a >= b}[op]
            return (1 if res else 0, 1)
        if op == "+":
            return ((lv + rv) & mask(w), w)
        if op == "-":
            return ((lv - rv) & mask(w), w)
        if op == "*":
            return ((lv * rv) & mask(w), w)
        if op == "&":
            return (lv & rv, w)
        if op == "|":
            return (lv | rv, w)
        if op == "^":
            return (lv ^ rv, w)
        if op == "<<":
            return (((lv << rv) & mask(w)) if rv < w else 0, w)
        if op == ">>":
            return ((lv >> rv) if rv < w else 0, w)
        if op in ("/", "%") and sg and rv != 0:
            # both operands signed: SystemVerilog divides towards zero, the remainder takes the sign of the dividend
            a, b = to_signed(lv, w), to_signed(rv, w)
            q = abs(a) // abs(b)
            if (a < 0) != (b < 0):
                q = -q
            return ((q if op == "/" else a - b * q) & mask(w), w)
        if op == "/":
            return ((lv // rv) if rv != 0 else mask(w), w)
        if op == "%":
            return ((lv % rv) if rv != 0 else lv, w)
    raise ValueError("ev " + repr(e))


def truth(e, c):
    return ev(e, c)[0] != 0


def dist_allows(s, c):
    """hard part of a dist statement: the value lies in an entry whose weight is non-zero and in no entry whose weight
    is zero (zero-weight entries are never produced: listed inside a weighted range they carve their values out of it)"""
    tgt = s[1]
    ok = False
    for item, wt in s[2]:
        if item[0] == "rng":
            inside = truth(["bin", ">=", tgt, item[1]], c) and truth(["bin", "<=", tgt, item[2]], c)
        else:
            inside = truth(["bin", "==", tgt, item], c)
        if not inside:
            continue
        if ev(wt, c)[0] == 0:
            return False
        ok = True
    return ok


def holds(s, c):
    """Truth of a statement as a *hard* constraint (soft statements are ignored = true)."""
    k = s[0]
    if k == "expr":
        return truth(s[1], c)
    if k == "if":
        for cond, body in s[1]:
            if truth(cond, c):
                return all(holds(b, c) for b in body)
        if s[2] is not None:
            return all(holds(b, c) for b in s[2])
        return True
    if k == "implies":
        return (not truth(s[1], c)) or all(holds(b, c) for b in s[2])
    if k == "unique":
        es = s[1]
        for i in range(len(es)):
            for j in range(i + 1, len(es)):
                if not truth(["bin", "!=", es[i], es[j]], c):
                    return False
        return True
    if k == "uniql":
        n = c.env["#" + s[1]]
        vals = [c.env["%s[%d]" % (s[1], i)] for i in range(n)]
        return len(set(vals)) == len(vals)
    if k == "uvec":
        ls = s[1]
        for i in range(len(ls)):
            for j in range(i + 1, len(ls)):
                a = [c.env["%s[%d]" % (ls[i], x)] for x in range(c.env["#" + ls[i]])]
                b = [c.env["%s[%d]" % (ls[j], x)] for x in range(c.env["#" + ls[j]])]
                if a == b:
                    return False
        return True
    if k == "foreach":
        lst, iv, it, body = s[1], s[2], s[3], s[4]
        n = c.env["#" + lst]
        for i in range(n):
            if iv:
                c.loop[iv] = (i, lst)
            if it:
                c.loop[it] = (i, lst)
            try:
                if not all(holds(b, c) for b in body):
                    return False
            finally:
                if iv:
                    c.loop.pop(iv, None)
                if it:
                    c.loop.pop(it, None)
        return True
    if k in ("soft", "mk"):
        return True         # ("mk": an unrelated object is constructed at this point of an inline block; no constraint)
    if k == "dist":
        return dist_allows(s, c)
    if k == "order":
        return True
    raise ValueError("stmt " + repr(s))


BOOL_OPS = ("==", "!=", "<", "<=", ">", ">=")


def is_boolean(e):
    """the expression is a condition (comparison, membership, negation or and/or of conditions): what generated
    statements and if/implies conditions always are.  Structural reduction can leave other shapes behind."""
    if not isinstance(e, list) or not e:
        return False
    k = e[0]
    if k in ("in", "inl", "dynel"):
        return True
    if k == "not":
        return len(e) > 1 and is_boolean(e[1])
    if k == "bin" and len(e) == 4:
        if e[1] in BOOL_OPS:
            return not is_boolean(e[2]) and not is_boolean(e[3]) and isinstance(e[2], list) and isinstance(e[3], list)
        if e[1] in ("&", "|"):
            return is_boolean(e[2]) and is_boolean(e[3])
    return False


def well_formed(s):
    """statement has the shape the generators produce (used to discard candidates of the structural reducer)"""
    if not isinstance(s, list) or not s:
        return False
    k = s[0]
    try:
        if k == "expr":
            return is_boolean(s[1])
        if k == "if":
            if not s[1]:
                return False
            for arm in s[1]:
                if len(arm) != 2 or not is_boolean(arm[0]) or not arm[1] or not all(well_formed(b) for b in arm[1]):
                    return False
            return s[2] is None or (bool(s[2]) and all(well_formed(b) for b in s[2]))
        if k == "implies":
            return is_boolean(s[1]) and bool(s[2]) and all(well_formed(b) for b in s[2])
        if k == "foreach":
            return len(s) == 5 and bool(s[4]) and all(well_formed(b) for b in s[4])
        if k == "soft":
            return is_boolean(s[1])
    except (IndexError, TypeError):
        return False
    return True


def all_hold(stmts, types, env, dyn=None):
    c = Ctx(types, env, dyn)
    return all(holds(s, c) for s in stmts)


def first_false(stmts, types, env, dyn=None):
    c = Ctx(types, env, dyn)
    for i, s in enumerate(stmts):
        if not holds(s, c):
            return i
    return None


# ----------------------------------------------------------------------------------------------
# soft constraints: flatten to a priority-ordered list of guarded soft expressions
def soft_terms(stmts, guards=()):
    """-> list of (guards, expr) in statement order.  guards: tuple of ("pos"|"neg", cond_expr).
    A soft nested under if/else/implies is the soft (AND guards) -> expr."""
    out = []
    for s in stmts:
        k = s[0]
        if k == "soft":
            out.append((tuple(guards), s[1]))
        elif k == "if":
            neg = []
            for cond, body in s[1]:
                out.extend(soft_terms(body, tuple(guards) + tuple(neg) + (("pos", cond),)))
                neg.append(("neg", cond))
            if s[2] is not None:
                out.extend(soft_terms(s[2], tuple(guards) + tuple(neg)))
        elif k == "implies":
            out.extend(soft_terms(s[2], tuple(guards) + (("pos", s[1]),)))
    return out


def soft_true(term, c):
    guards, e = term
    for pol, g in guards:
        t = truth(g, c)
        if (pol == "pos") != t:
            return True     # guard does not hold: the soft does not apply (vacuously honoured)
    return truth(e, c)


# ----------------------------------------------------------------------------------------------
def fields_of_expr(e, acc=None):
    """set of keys (fields, lists) referenced"""
    if acc is None:
        acc = set()
    k = e[0]
    if k in ("f", "ps"):
        acc.add(e[1])
    elif k == "bin":
        fields_of_expr(e[2], acc)
        fields_of_expr(e[3], acc)
    elif k in ("not", "pse"):
        fields_of_expr(e[1], acc)
    elif k == "in":
        fields_of_expr(e[1], acc)
        for it in e[2]:
            if it[0] == "rng":
                fields_of_expr(it[1], acc)
                fields_of_expr(it[2], acc)
            else:
                fields_of_expr(it, acc)
    elif k == "inl":
        fields_of_expr(e[1], acc)
        acc.add(e[2])
    elif k in ("el", "sz", "sum", "prod"):
        acc.add(e[1])
    elif k in ("it", "iv"):
        acc.add("$" + e[1])
    elif k == "dyn":
        acc.add("@" + e[1])
    elif k == "dynel":
        acc.add("@%s[].%s" % (e[1], e[3]))
    return acc


def fields_of_stmt(s, acc=None):
    if acc is None:
        acc = set()
    k = s[0]
    if k in ("expr", "soft"):
        fields_of_expr(s[1], acc)
    elif k == "if":
        for cond, body in s[1]:
            fields_of_expr(cond, acc)
            for b in body:
                fields_of_stmt(b, acc)
        for b in (s[2] or []):
            fields_of_stmt(b, acc)
    elif k == "implies":
        fields_of_expr(s[1], acc)
        for b in s[2]:
            fields_of_stmt(b, acc)
    elif k == "unique":
        for e in s[1]:
            fields_of_expr(e, acc)
    elif k == "uniql":
        acc.add(s[1])
    elif k == "uvec":
        acc.update(s[1])
    elif k == "foreach":
        acc.add(s[1])
        for b in s[4]:
            fields_of_stmt(b, acc)
    elif k == "dist":
        fields_of_expr(s[1], acc)
        for item, wt in s[2]:
            fields_of_expr(wt, acc)
            if item[0] == "rng":
                fields_of_expr(item[1], acc)
                fields_of_expr(item[2], acc)
            else:
                fields_of_expr(item, acc)
    elif k == "order":
        acc.update(s[1])
        acc.update(s[2])
    return acc


# ----------------------------------------------------------------------------------------------
# key prefixing (statements written relative to an object, evaluated at an absolute path)
def prefix_expr(e, p):
    k = e[0]
    if k in ("f",):
        return ["f", p + e[1]]
    if k == "ps":
        return ["ps", p + e[1]] + e[2:]
    if k == "pse":
        return ["pse", prefix_expr(e[1], p)] + e[2:]
    if k == "bin":
        return ["bin", e[1], prefix_expr(e[2], p), prefix_expr(e[3], p)]
    if k == "not":
        return ["not", prefix_expr(e[1], p)]
    if k == "in":
        items = []
        for it in e[2]:
            if it[0] == "rng":
                items.append(["rng", prefix_expr(it[1], p), prefix_expr(it[2], p)] + it[3:])
            else:
                items.append(prefix_expr(it, p))
        return ["in", prefix_expr(e[1], p), items] + e[3:]
    if k == "dyn":
        return ["dyn", p + e[1]]
    if k == "el":
        return ["el", p + e[1]] + e[2:]
    if k in ("sz", "sum", "prod"):
        return [k, p + e[1]]
    if k == "inl":
        return ["inl", prefix_expr(e[1], p), p + e[2]]
    return e


def prefix_stmt(s, p):
    k = s[0]
    if k in ("expr", "soft"):
        return [k, prefix_expr(s[1], p)]
    if k == "if":
        return ["if", [[prefix_expr(c, p), [prefix_stmt(b, p) for b in body]] for c, body in s[1]],
                None if s[2] is None else [prefix_stmt(b, p) for b in s[2]]]
    if k == "implies":
        return ["implies", prefix_expr(s[1], p), [prefix_stmt(b, p) for b in s[2]]]
    if k == "unique":
        return ["unique", [prefix_expr(e, p) for e in s[1]]]
    if k == "foreach":
        return ["foreach", p + s[1], s[2], s[3], [prefix_stmt(b, p) for b in s[4]]]
    return s


