"""Object-tree programs (nested random / non-random sub-objects, lists of objects): generation, rendering,
flattening to path-keyed reference programs, instantiation and read-back.

class spec: {"name", "fields": [scalar field dicts (names own)], "subs": [{"name","cls","rand"}],
             "objlists": [{"name","cls","mode": "rand"|"nonrand","elems":[cls names]}], "blocks": [{"name","stmts"}],
             "pre_randomize": [...source lines] | None, "post_randomize": ...}
Statements inside a class use keys relative to the object: "x", "s0.x", "arr[1].y".
"""
import copy
import re

from . import sem, gen, render
prefix_stmt = sem.prefix_stmt


def class_by_name(prog, name):
    for c in prog["classes"]:
        if c["name"] == name:
            return c
    raise KeyError(name)


def all_fields(prog, cname):
    c = class_by_name(prog, cname)
    return (all_fields(prog, c["base"]) if c.get("base") else []) + list(c["fields"])


def all_blocks(prog, cname):
    """most-derived definition of every block name, base first"""
    c = class_by_name(prog, cname)
    out = dict(all_blocks(prog, c["base"])) if c.get("base") else {}
    for b in c.get("blocks", []):
        out[b["name"]] = b["stmts"]
    return out


def visible(prog, cname, depth=3):
    """[(relative key, field dict)] of every scalar reachable from an object of class cname"""
    c = class_by_name(prog, cname)
    out = [(f["name"], f) for f in all_fields(prog, cname)]
    if depth > 0:
        for s in c.get("subs", []):
            out += [(s["name"] + "." + k, f) for k, f in visible(prog, s["cls"], depth - 1)]
        for l in c.get("objlists", []):
            for i, ec in enumerate(l["elems"]):
                out += [("%s[%d].%s" % (l["name"], i, k), f) for k, f in visible(prog, ec, depth - 1)]
    return out


def nodes(prog, cname=None, path="", rand=True):
    """object nodes of the instantiated tree: [(path, class name, is random in a call on the top object)]"""
    cname = cname or prog["top"]
    c = class_by_name(prog, cname)
    out = [(path, cname, rand)]
    for s in c.get("subs", []):
        out += nodes(prog, s["cls"], path + s["name"] + ".", rand and s["rand"])
    for l in c.get("objlists", []):
        for i, ec in enumerate(l["elems"]):
            out += nodes(prog, ec, "%s%s[%d]." % (path, l["name"], i), rand and l["mode"] == "rand")
    return out


def flatten(prog):
    """-> (types {abs key: field dict with 'rand' = random in a top-level call}, enforced stmts, all nodes)"""
    types = {}
    stmts = []
    ns = nodes(prog)
    for path, cname, rnd in ns:
        for f in all_fields(prog, cname):
            ff = dict(f, name=path + f["name"])
            ff["rand"] = bool(f["rand"] and rnd)
            types[ff["name"]] = ff
        if rnd:
            for bn, bs in all_blocks(prog, cname).items():
                stmts += [prefix_stmt(s, path) for s in bs]
    return types, stmts, ns


_STEP = re.compile(r"([A-Za-z_]\w*)|\[(\d+)\]")


def walk(obj, key):
    cur = obj
    for m in _STEP.finditer(key):
        if m.group(1):
            cur = getattr(cur, m.group(1))
        else:
            cur = cur[int(m.group(2))]
    return cur


def getp(obj, key):
    return int(walk(obj, key))


def setp(obj, key, v):
    if key.endswith("]"):
        # an element of a scalar list, named by a constant subscript
        j = key.rfind("[")
        walk(obj, key[:j])[int(key[j + 1:-1])] = v
        return
    i = max(key.rfind("."), -1)
    if i < 0:
        setattr(obj, key, v)
    else:
        setattr(walk(obj, key[:i]), key[i + 1:], v)


def build(prog):
    ns = render.build(prog)
    return ns


def instantiate(ns, prog, values=None):
    obj = ns[prog["top"]]()
    types, _, _ = flatten(prog)
    for k, f in types.items():
        v = (values or {}).get(k, f.get("init", 0))
        setp(obj, k, v)
    return obj


def read(obj, types):
    return {k: getp(obj, k) for k in types}


# ------------------------------------------------------------------------------------------------
def gen_tree(d, max_rand_bits=11, callbacks=False, lists=False):
    """generate a tree program (classes listed children-first)"""
    classes = []
    counter = [0]

    def new_class(depth):
        idx = counter[0]
        counter[0] += 1
        name = "K%d" % idx
        fields = []
        for i in range(d.randint(1, 2)):
            w = d.choice([1, 2, 2, 3])
            sg = d.chance(20) and w > 1
            f = {"name": "%s%d" % ("xyzw"[depth], i), "kind": "int" if sg else "bit", "w": w, "signed": sg,
                 "rand": d.chance(80)}
            f["init"] = gen.rand_in_type(d, f)
            fields.append(f)
        c = {"name": name, "fields": fields, "subs": [], "objlists": [], "blocks": []}
        if lists and d.chance(30):
            # a small scalar list of its own: its elements are reached as  s0.lx[1]  /  arr[0].lx[1]
            gen.add_list(d, fields, c, max_bits=sum(f["w"] for f in fields if f["rand"]) + 4, name="l" + "xyzw"[depth])
        if depth > 0:
            nsub = d.weighted([(1, 0), (2, 1), (3, 2)])
            child = None
            for i in range(nsub):
                # structurally identical siblings: reuse the previous child class half of the time
                if child is not None and d.chance(65):
                    cn = child
                else:
                    cn = new_class(depth - 1)
                    child = cn
                c["subs"].append({"name": "s%d" % i, "cls": cn, "rand": d.chance(75)})
            if d.chance(45):
                ec = child if (child is not None and d.chance(50)) else new_class(depth - 1)
                c["objlists"].append({"name": "arr", "cls": ec, "mode": "rand" if d.chance(75) else "nonrand",
                                      "elems": [ec] * d.randint(1, 2)})
        classes.append(c)
        return name

    top = new_class(d.randint(1, 2))
    prog = {"enums": {}, "classes": classes, "top": top}
    # cap the random space
    def rand_bits():
        types, _, _ = flatten(prog)
        return sum(f["w"] for f in types.values() if f["rand"])
    guard = 0
    while rand_bits() > max_rand_bits and guard < 40:
        guard += 1
        c = d.choice(classes)
        fs = [f for f in c["fields"] if f["rand"] and "[" not in f["name"]]
        if fs:
            f = max(fs, key=lambda f: f["w"])
            if f["w"] > 1:
                f["w"] -= 1
                f["init"] = sem.wrap(f["init"], f["w"], f["signed"])
            else:
                f["rand"] = False
    # constraints: own-field blocks on every class + cross-level blocks where there are descendants
    for c in classes:
        vis = visible(prog, c["name"])
        own = [dict(f) for f in c["fields"]]
        allf = [dict(f, name=k) for k, f in vis]
        stm = []
        if d.chance(70):
            g = gen.G(d, own, {}, mul_max_w=3)
            stm.append(g.field_stmt(0))
        if len(allf) > len(own):
            g2 = gen.G(d, allf, {}, mul_max_w=3)
            for _ in range(d.randint(1, 2)):
                stm.append(g2.field_stmt(0))
            # distinguishing constraints for structurally identical siblings
            sib = [s for s in c["subs"]]
            if len(sib) >= 2 and sib[0]["cls"] == sib[1]["cls"]:
                f0 = class_by_name(prog, sib[0]["cls"])["fields"][0]
                hi = (1 << f0["w"]) - 1 if not f0["signed"] else (1 << (f0["w"] - 1)) - 1
                stm.append(["expr", ["bin", "<", ["f", "%s.%s" % (sib[0]["name"], f0["name"])], ["lit", max(1, hi)]]])
                stm.append(["expr", ["bin", ">", ["f", "%s.%s" % (sib[1]["name"], f0["name"])], ["lit", 0]]])
        if stm:
            c["blocks"].append({"name": "c0", "stmts": stm})
    # keep most programs satisfiable (reference-side check only): drop statements that empty the solution set
    if d.chance(85):
        from . import flat as _flat
        for c in classes:
            for b in c["blocks"]:
                keep = []
                for st in b["stmts"]:
                    b_try = keep + [st]
                    saved = b["stmts"]
                    b["stmts"] = b_try
                    types, stmts, _ = flatten(prog)
                    b["stmts"] = saved
                    # only statements decided so far: other blocks as currently pruned
                    rf = [f for f in types.values() if f["rand"]]
                    env0 = {k: f.get("init", 0) for k, f in types.items()}
                    r = _flat.enumerate_solutions(types, rf, env0, stmts, limit=1 << 12)
                    if r is None or r[1]:
                        keep = b_try
                b["stmts"] = keep
            c["blocks"] = [b for b in c["blocks"] if b["stmts"]]
    return prog


def add_callbacks(d, prog):
    """pre/post_randomize on every class: record (phase, id(self), own field values); pre optionally writes generated
    values into non-random own fields (the constraints must then see them)."""
    writes = {}
    for c in prog["classes"]:
        pre = ["_pvs_log.append(('pre', id(self), %s))" % _vals(c)]
        nr = [f for f in c["fields"] if not f["rand"]]
        w = []
        if nr and d.chance(60):
            f = d.choice(nr)
            v = gen.rand_in_type(d, f)
            pre.insert(0, "self.%s = %d" % (f["name"], v))
            w.append((f["name"], v))
        writes[c["name"]] = w
        c["pre_randomize"] = pre
        c["post_randomize"] = ["_pvs_log.append(('post', id(self), %s))" % _vals(c)]
    return writes


def _vals(c):
    return "(" + "".join("int(self.%s), " % f["name"] for f in c["fields"]) + ")"
