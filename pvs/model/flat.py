"""Flat (single class, scalar/enum fields) programs: build, call, read back, enumerate, pin."""
import itertools
import random

from . import sem, render
from ..core.util import import_vsc, exc_sig


def cls_of(prog):
    return prog["classes"][-1]


def types_of(prog):
    return {f["name"]: f for f in cls_of(prog)["fields"]}


def enum_value(ns, f, internal):
    """enumerator object for an internal int value"""
    spec = ns["__enums__"][f["enum"]]
    for mname, mval in spec["members"]:
        if mval == internal:
            return getattr(ns[f["enum"]], mname)
    raise KeyError(internal)


def enum_internal(ns, f, enumerator):
    spec = ns["__enums__"][f["enum"]]
    for mname, mval in spec["members"]:
        if mname == getattr(enumerator, "name", None):
            return mval
    return ("not-an-enumerator", repr(enumerator))


def build(prog, cls_name=None):
    ns = render.build(prog)
    ns["__enums__"] = prog.get("enums", {})
    return ns


def instantiate(ns, prog, cls_name=None, init=True):
    c = cls_of(prog) if cls_name is None else [x for x in prog["classes"] if x["name"] == cls_name][0]
    obj = ns[c["name"]]()
    if init:
        set_state(ns, obj, all_fields(prog, c), {f["name"]: f["init"] for f in all_fields(prog, c) if "init" in f})
    return obj


def all_fields(prog, c):
    """fields of class c including inherited ones"""
    out = []
    if c.get("base"):
        b = [x for x in prog["classes"] if x["name"] == c["base"]][0]
        out.extend(all_fields(prog, b))
    out.extend(c.get("fields", []))
    return out


def set_state(ns, obj, fields, values):
    for f in fields:
        if f["name"] in values:
            v = values[f["name"]]
            if f["kind"] == "enum":
                v = enum_value(ns, f, v)
            if "[" in f["name"]:
                lname, idx = f["name"][:-1].split("[")
                getattr(obj, lname)[int(idx)] = v
            else:
                setattr(obj, f["name"], v)


def read_state(ns, obj, fields):
    env = {}
    for f in fields:
        if "[" in f["name"]:
            lname, idx = f["name"][:-1].split("[")
            v = getattr(obj, lname)[int(idx)]
        else:
            v = getattr(obj, f["name"])
        if f["kind"] == "enum":
            v = enum_internal(ns, f, v)
        else:
            v = int(v)
        env[f["name"]] = v
    return env


def mk_randstate(seed):
    from vsc.model.rand_state import RandState
    return RandState.mkFromSeed(seed)


def do_call(ns, obj, kind, inline, seed):
    """-> ("ret", None) | ("sf", exc) | ("exc", exc).  kind: randomize | randomize_with | vsc.randomize |
    vsc.randomize_with.  The random state is seeded explicitly."""
    vsc = ns["vsc"]
    try:
        if kind == "randomize":
            obj.set_randstate(mk_randstate(seed))
            obj.randomize()
        elif kind == "randomize_with":
            obj.set_randstate(mk_randstate(seed))
            render.call_inline(ns, obj, inline or [], "randomize_with")
        elif kind == "vsc.randomize":
            vsc.randomize(obj, randstate=mk_randstate(seed))
        elif kind == "vsc.randomize_with":
            render.call_inline(ns, obj, inline or [], "vsc.randomize_with", args=[obj], randstate=mk_randstate(seed))
        else:
            raise ValueError(kind)
        return ("ret", None)
    except vsc.SolveFailure as e:
        info = defuse(e)
        scrub(obj)
        return ("sf", info)
    except Exception as e:
        info = defuse(e)
        scrub(obj)
        return ("exc", info)


class ExcInfo(object):
    """What the harness keeps of an exception raised by the library (the exception object itself is defused:
    its traceback frames hold the Boolector instance and nodes)."""

    def __init__(self, sig, rep, tname):
        self.sig, self.rep, self.tname = sig, rep, tname

    def __repr__(self):
        return self.rep


def defuse(e):
    import traceback
    info = ExcInfo(exc_sig(e), repr(e)[:300], type(e).__name__)
    try:
        traceback.clear_frames(e.__traceback__)
    except Exception:
        pass
    e.__traceback__ = None
    e.__context__ = None
    e.__cause__ = None
    return info


LEFTOVER = []   # solver handles found on objects after failed calls (most recent first; diagnostic)


def scrub(obj):
    """After a failed call remove solver handles the library may have left in the object's model, so that the
    cyclic garbage collector never finalises Boolector nodes in arbitrary order (pyboolector crashes on that)."""
    from ..core.util import solver_handles
    try:
        model = obj.get_model()
        found = solver_handles(model, scrub=True)
        if found:
            LEFTOVER.insert(0, found[:3])
            del LEFTOVER[5:]
    except Exception:
        pass


def inline_for(kind, stmts):
    """free-standing vsc.randomize_with(a0) refers to the object as a0"""
    return stmts


def pin_literal(f, v):
    if f["kind"] == "enum":
        for_name = None
        return ["elit", v, f["enum"], None]
    if -(1 << 31) <= v < (1 << 31) and f["w"] <= 31:
        return ["lit", v]
    return ["slit", v, f["w"]] if f["signed"] else ["ulit", v, f["w"]]


def pin_stmts(prog, fields, values):
    out = []
    enums = prog.get("enums", {})
    for f in fields:
        v = values[f["name"]]
        l = pin_literal(f, v)
        if l[0] == "elit":
            l[3] = [m[0] for m in enums[f["enum"]]["members"] if m[1] == v][0]
        out.append(["expr", ["bin", "==", ["f", f["name"]], l]])
    return out


def enumerate_solutions(types, rand_fields, env0, stmts, dyn=None, limit=1 << 13):
    """-> (all assignments as tuples, set of solutions) or None if the space exceeds limit"""
    doms = [list(sem.domain(f)) for f in rand_fields]
    n = 1
    for dm in doms:
        n *= len(dm)
        if n > limit:
            return None
    names = [f["name"] for f in rand_fields]
    env = dict(env0)
    c = sem.Ctx(types, env, dyn)
    sols = []
    allv = []
    for vals in itertools.product(*doms):
        for nm, v in zip(names, vals):
            env[nm] = v
        allv.append(vals)
        ok = True
        for s in stmts:
            if not sem.holds(s, c):
                ok = False
                break
        if ok:
            sols.append(vals)
    return allv, sols


def space_size(rand_fields):
    n = 1
    for f in rand_fields:
        n *= len(sem.domain(f))
    return n
