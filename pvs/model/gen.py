"""Generators for constraint programs (imperative, over the D adapter of core.hyp).

Alternatives are ordered simplest-first so that Hypothesis's integer shrinking gives structurally
smaller programs.  Soundness rules (only inputs the library documents/accepts) are noted inline.
"""
from . import sem

TINY_W = [1, 2, 3, 4]
WIDE_W = [1, 2, 7, 8, 9, 15, 16, 17, 31, 32, 33, 48, 63, 64]
LITS = [0, 1, 2, 3, 4, 5, 7, 8, 15, 16, -1, -2, -8]

ENUM_SPECS = [
    {"int": True, "members": [["A", 0], ["B", 1], ["C", 2]]},
    {"int": True, "members": [["A", -3], ["B", 5], ["C", 100], ["D", -70000]]},
    {"int": False, "members": [["X", 0], ["Y", 1], ["Z", 2]]},   # plain Enum + auto(): internal ids 0..n-1
    {"int": True, "members": [["P", 7]]},
]


import collections
EXCLUDED = collections.Counter()     # candidates removed per known-finding shape (reported in evidence)


def rand_in_type(d, t):
    if t.get("kind") == "enum":
        return d.choice(t["dom"])
    lo, hi = sem.type_range(t)
    return d.randint(lo, hi)


def gen_fields(d, nmax=4, widths=TINY_W, enums=None, p_signed=35, p_rand=75, p_enum=12, prefix="f"):
    """-> (fields list, enums dict).  Field 0 is always random."""
    n = d.randint(1, nmax)
    fs, en = [], {}
    for i in range(n):
        rand = True if i == 0 else d.chance(p_rand)
        if enums is not False and d.chance(p_enum):
            spec = d.choice(ENUM_SPECS)
            ename = "E%d" % ENUM_SPECS.index(spec)
            en[ename] = spec
            dom = [m[1] for m in spec["members"]]
            f = {"name": "%s%d" % (prefix, i), "kind": "enum", "w": 32, "signed": True, "rand": rand, "enum": ename,
                 "dom": dom}
            f["init"] = d.choice(dom)
        else:
            w = d.choice(widths)
            sg = d.chance(p_signed)
            f = {"name": "%s%d" % (prefix, i), "kind": "int" if sg else "bit", "w": w, "signed": sg, "rand": rand}
            f["init"] = rand_in_type(d, f)
        fs.append(f)
    return fs, en


def add_list(d, fs, cls, max_bits=None, name="l"):
    """give the class a fixed-size scalar list and add its elements to the field table as pseudo-fields 'l[i]' (named in
    statements by constant subscripts).  Random list (rand_list_t) or non-random list (list_t)."""
    n = d.randint(1, 2)
    w = d.choice([1, 2, 2, 3])
    sg = d.chance(20)
    rnd = d.chance(75)
    if max_bits is not None and rnd:
        used = sum((f["w"] if f["kind"] != "enum" else 2) for f in fs if f["rand"])
        while n * w > max(0, max_bits - used) and w > 1:
            w -= 1
        while n * w > max(0, max_bits - used) and n > 1:
            n -= 1
        if n * w > max(0, max_bits - used):
            rnd = False
    cls["lists"] = [{"name": name, "elem": {"kind": "int" if sg else "bit", "w": w, "signed": sg},
                     "mode": "fixed" if rnd else "nonrand", "size": n}]
    for i in range(n):
        f = {"name": "%s[%d]" % (name, i), "kind": "int" if sg else "bit", "w": w, "signed": sg, "rand": rnd}
        f["init"] = rand_in_type(d, f)
        fs.append(f)


def types_of(fields):
    return {f["name"]: f for f in fields}


class G:
    """Expression / statement generator over a field table."""

    def __init__(self, d, fields, enums=None, mul_max_w=8, lits=LITS, allow=None):
        self.d = d
        self.fields = fields
        self.enums = enums or {}
        self.scalars = [f for f in fields if f["kind"] != "enum"]
        self.enumf = [f for f in fields if f["kind"] == "enum"]
        self.mul_max_w = mul_max_w
        self.lits = lits
        self.allow = allow   # None = everything; else set of feature names to disable: "~", "in", ...
        self.types = types_of(fields)
        self.ctx = sem.Ctx(self.types, {})

    # -- leaves ----------------------------------------------------------------------------
    def fref(self, pool=None):
        return ["f", self.d.choice(pool or self.scalars or self.fields)["name"]]

    def literal(self):
        d = self.d
        r = d.randint(0, 99)
        if r < 70:
            return ["lit", d.choice(self.lits) if d.chance(80) else d.randint(-20, 20)]
        w = d.randint(1, 6)
        if r < 85:
            return ["ulit", d.randint(0, (1 << w) - 1), w]
        return ["slit", d.randint(-(1 << (w - 1)), (1 << (w - 1)) - 1), w]

    def w(self, e):
        return sem.width(e, self.ctx)

    def sg(self, e):
        return sem.signed(e, self.ctx)

    # -- value-typed expressions -----------------------------------------------------------
    def val(self, depth):
        d = self.d
        if not self.scalars:
            return self.literal()
        r = d.randint(0, 99)
        if depth <= 0 or r < 45:
            if d.chance(75):
                return self.fref()
            return self.literal()
        if r < 52:
            f = d.choice(self.scalars)
            hi = d.randint(0, f["w"] - 1)
            lo = d.randint(max(0, hi - 12), hi)
            e = ["ps", f["name"], hi, lo]
            if hi == lo and d.chance(50) and "[" not in f["name"]:
                # f[i] on a field reached through a list index is read by the DSL as an array subscript: only the
                # slice form f[i:i] is generated there
                e.append("bit")
            return e
        if r < 56:
            # ~x as a value: the operand takes the width of the enclosing expression first.  Unsigned operands only
            # (how a signed operand is extended depends on the signedness of the whole expression)
            uns = [f for f in self.scalars if not f["signed"]]
            if uns:
                return ["not", ["f", d.choice(uns)["name"]]]
        op = d.choice(["+", "-", "&", "|", "^", "<<", ">>", "*", "/", "%"])
        l = self.val(depth - 1)
        if l[0] == "lit":          # a Python int cannot be the left operand of an operator with a field
            l = self.fref()
        if op in ("*", "/", "%") and self.w(l) > self.mul_max_w:
            op = d.choice(["+", "-", "^"])
        if op in ("/", "%"):
            # divisor: a non-zero literal (x / 0 has no value in SystemVerilog).  A signed dividend divided by a plain
            # Python int is a signed division (towards zero; the remainder takes the dividend's sign)
            if self.sg(l):
                if d.chance(60):
                    return ["bin", op, l, ["lit", d.choice([-1, 1]) * d.randint(1, 7)]]
                uns = [f for f in self.scalars if not f["signed"] and f["w"] <= self.mul_max_w]
                l = ["f", d.choice(uns)["name"]] if uns else ["ulit", 5, 4]
            return ["bin", op, l, ["ulit", d.randint(1, 7), d.randint(3, 6)]]
        if op in ("<<", ">>"):
            # shift amounts: non-negative literal or an unsigned field (a negative amount is not a documented input)
            uns = [f for f in self.scalars if not f["signed"]]
            r_ = ["lit", d.randint(0, 5)] if (d.chance(60) or not uns) else ["f", d.choice(uns)["name"]]
            return ["bin", op, l, r_]
        r_ = self.val(depth - 1)
        if op == "*" and self.w(r_) > self.mul_max_w:
            r_ = ["lit", d.randint(0, 5)]
        return ["bin", op, l, r_]

    # -- boolean-typed expressions ---------------------------------------------------------
    def cmp(self, depth=1):
        d = self.d
        if self.enumf and (not self.scalars or d.chance(20)):
            f = d.choice(self.enumf)
            spec = self.enums[f["enum"]]
            m = d.choice(spec["members"])
            op = d.choice(["==", "!="])
            if len(self.enumf) > 1 and d.chance(25):
                g = d.choice([x for x in self.enumf if x is not f])
                return ["bin", op, ["f", f["name"]], ["f", g["name"]]]
            return ["bin", op, ["f", f["name"]], ["elit", m[1], f["enum"], m[0]]]
        op = d.choice(["==", "!=", "<", "<=", ">", ">="])
        l = self.val(depth)
        if l[0] == "lit":
            l = self.fref()
        return ["bin", op, l, self.val(depth)]

    def inexpr(self):
        d = self.d
        if self.enumf and (not self.scalars or d.chance(15)):
            f = d.choice(self.enumf)
            spec = self.enums[f["enum"]]
            ms = d.sample(spec["members"], d.randint(1, len(spec["members"])))
            return ["in", ["f", f["name"]], [["elit", m[1], f["enum"], m[0]] for m in ms]]
        l = self.fref() if d.chance(80) else self.val(1)
        if l[0] in ("lit", "ulit", "slit"):
            l = self.fref()
        items = []
        for _ in range(d.randint(1, 3)):
            r = d.randint(0, 99)
            if r < 40:
                a = d.randint(-4, 15)
                b = d.randint(a, a + 6)
                it = ["rng", ["lit", a], ["lit", b]]
                if d.chance(30):
                    it.append("tuple")
                items.append(it)
            elif r < 80:
                items.append(["lit", d.randint(-4, 15)])
            elif r < 90:
                items.append(self.fref())
            else:
                lo = self.fref()
                items.append(["rng", lo, ["bin", "+", lo, ["lit", d.randint(0, 3)]]] if d.chance(50)
                             else ["rng", ["lit", d.randint(-2, 3)], self.fref()])
        e = ["in", l, items]
        return e

    def boolean(self, depth):
        d = self.d
        r = d.randint(0, 99)
        if depth <= 0 or r < 55:
            return self.cmp(1 if depth > 0 else 0)
        if r < 67:
            return self.inexpr()
        if r < 77:
            inner = self.boolean(depth - 1)
            if inner[0] == "in" and d.chance(50):
                return ["not", inner[:3] + ["not_inside"]]
            return ["not", inner]
        op = d.choice(["&", "|"])
        return ["bin", op, self.boolean(depth - 1), self.boolean(depth - 1)]

    # -- statements ------------------------------------------------------------------------
    def stmt(self, depth, kinds=None):
        d = self.d
        r = d.randint(0, 99)
        if depth <= 0 or r < 60:
            e = self.boolean(2)
            if e[0] == "in" and d.chance(40):
                e = e[:3] + ["op"]
            return ["expr", e]
        if r < 78:
            arms = [[self.boolean(1), [self.stmt(depth - 1) for _ in range(d.randint(1, 2))]]
                    for _ in range(d.randint(1, 3))]
            els = [self.stmt(depth - 1) for _ in range(d.randint(1, 2))] if d.chance(50) else None
            return ["if", arms, els]
        if r < 90:
            return ["implies", self.boolean(1), [self.stmt(depth - 1) for _ in range(d.randint(1, 2))]]
        pool = self.scalars if len(self.scalars) >= 2 else []
        if len(pool) < 2:
            return ["expr", self.boolean(2)]
        k = d.randint(2, min(3, len(pool)))
        return ["unique", [["f", f["name"]] for f in d.sample(pool, k)]]

    def any_stmt(self, depth):
        """a statement as it comes, including the rare ones that reference no field at all (literal-only comparisons,
        which must hold like any other statement), plus deliberately literal-only ones"""
        d = self.d
        if d.chance(4):
            w = d.randint(1, 4)
            return ["expr", ["bin", d.choice(["==", "!=", "<", ">="]), ["ulit", d.randint(0, (1 << w) - 1), w],
                             ["ulit", d.randint(0, (1 << w) - 1), w]]]
        return self.stmt(depth)

    def field_stmt(self, depth):
        """a statement that references at least one field (used where the surrounding construction needs it: blocks that
        must be attributable to an instance, dynamic blocks, soft guards)"""
        for _ in range(6):
            s = self.stmt(depth)
            if stmt_refs_field(s):
                return s
            EXCLUDED["statement referencing no field (regenerated)"] += 1
        f = self.fields[0]["name"]
        return ["expr", ["bin", "==", ["f", f], ["f", f]]]


def expr_has_field(e):
    return any(not k.startswith(("$", "@")) for k in sem.fields_of_expr(e))


def stmt_refs_field(s):
    """the (top-level) statement references at least one field somewhere"""
    return any(not k.startswith(("$", "@")) for k in sem.fields_of_stmt(s))
