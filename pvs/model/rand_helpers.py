"""random-state helpers shared by harness processes"""


def mk_randstate(seed):
    from vsc.model.rand_state import RandState
    return RandState.mkFromSeed(seed)
