"""random-state helpers shared by harness processes"""


def mk_randstate(seed, strval=None):
    from vsc.model.rand_state import RandState
    if strval is not None:
        return RandState.mkFromSeed(seed, strval)
    return RandState.mkFromSeed(seed)
