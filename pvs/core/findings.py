"""Known findings: committed list of genuine defects that are recorded rather than repaired.

known_findings.txt lines:
    finding: property=<id> key=<key> :: <what fails>
    fixed: property=<id> <commit> <what failed>
findings/<key>.json: {"property", "key", "what", "case", "expect": {"kind", "detail"}, "predicate"}
  expect.kind and expect.detail are regular expressions matched (fullmatch) against a violation's kind / detail;
  predicate names a pure function over generated cases (registered by the property module).
A violation is tolerated only if kind, detail and predicate all match an open finding of that property.
Nothing in this module ever writes to the committed files.
"""
import json
import os
import re
from .util import VERIF

PREDICATES = {}   # name -> fn(case) -> bool
_cache = None


def predicate(name):
    def deco(fn):
        PREDICATES[name] = fn
        return fn
    return deco


def load():
    global _cache
    if _cache is not None:
        return _cache
    open_, fixed = [], []
    path = os.path.join(VERIF, "known_findings.txt")
    if os.path.exists(path):
        for line in open(path):
            line = line.strip()
            if not line or line.startswith("#"):
                continue
            if line.startswith("finding:"):
                m = re.match(r"finding:\s+property=(\S+)\s+key=(\S+)\s+::\s*(.*)$", line)
                if not m:
                    raise ValueError("bad known_findings line: " + line)
                prop, key, what = m.groups()
                jf = os.path.join(VERIF, "findings", key + ".json")
                rec = json.load(open(jf))
                rec["property"], rec["key"], rec["what"] = prop, key, what
                open_.append(rec)
            elif line.startswith("fixed:"):
                m = re.match(r"fixed:\s+property=(\S+)\s+(\S+)\s+(.*)$", line)
                if m:
                    fixed.append({"property": m.group(1), "commit": m.group(2), "what": m.group(3)})
    _cache = (open_, fixed)
    return _cache


def open_for(prop):
    return [f for f in load()[0] if f["property"] == prop]


def matches(f, kind, detail, case):
    exp = f.get("expect", {})
    if exp.get("kind") is not None and not re.fullmatch(exp["kind"], kind or ""):
        return False
    if exp.get("detail") is not None and not re.fullmatch(exp["detail"], detail or "", re.S):
        return False
    pn = f.get("predicate")
    if pn:
        fn = PREDICATES.get(pn)
        if fn is None:
            return False
        try:
            if not fn(case):
                return False
        except Exception:
            return False
    return True


def tolerated(prop, kind, detail, case):
    """key of the open finding that covers this violation, or None."""
    for f in open_for(prop):
        if matches(f, kind, detail, case):
            return f["key"]
    return None


def fixed_cases(prop):
    """Regression cases of repaired defects: findings/fixed/<prop>-*.json -> list of (path, record)."""
    d = os.path.join(VERIF, "findings", "fixed")
    out = []
    if os.path.isdir(d):
        for fn in sorted(os.listdir(d)):
            if fn.endswith(".json"):
                rec = json.load(open(os.path.join(d, fn)))
                if prop in rec.get("properties", [rec.get("property")]):
                    out.append((os.path.join("findings", "fixed", fn), rec))
    return out
