"""Exact binomial tails (log-space, math.lgamma only) for frequency claims."""
import math


def log_pmf(k, n, p):
    if p <= 0.0:
        return 0.0 if k == 0 else -math.inf
    if p >= 1.0:
        return 0.0 if k == n else -math.inf
    return (math.lgamma(n + 1) - math.lgamma(k + 1) - math.lgamma(n - k + 1)
            + k * math.log(p) + (n - k) * math.log1p(-p))


def _logsumexp(xs):
    m = max(xs)
    if m == -math.inf:
        return -math.inf
    return m + math.log(sum(math.exp(x - m) for x in xs))


def tail_le(k, n, p):
    """log P[X <= k]"""
    if k < 0:
        return -math.inf
    if k >= n:
        return 0.0
    return min(0.0, _logsumexp([log_pmf(i, n, p) for i in range(0, k + 1)]))


def tail_ge(k, n, p):
    """log P[X >= k]"""
    if k <= 0:
        return 0.0
    if k > n:
        return -math.inf
    return min(0.0, _logsumexp([log_pmf(i, n, p) for i in range(k, n + 1)]))


def two_sided_log_p(k, n, p):
    """log of the two-sided exact tail: 2 * min(P[X<=k], P[X>=k]) capped at 1"""
    lo, hi = tail_le(k, n, p), tail_ge(k, n, p)
    return min(0.0, math.log(2.0) + min(lo, hi))


def rejects(k, n, p, log_alpha):
    return two_sided_log_p(k, n, p) < log_alpha


def two_sample_log_p(k1, n1, k2, n2):
    """Conservative two-sample comparison of proportions: exact test of k1 ~ Bin(n1, p_hat) and k2 ~ Bin(n2, p_hat)
    under the pooled estimate; returns the larger (less significant) of the two log p-values."""
    ph = (k1 + k2) / float(n1 + n2)
    if ph <= 0.0 or ph >= 1.0:
        return 0.0
    return max(two_sided_log_p(k1, n1, ph), two_sided_log_p(k2, n2, ph))
