"""Small shared helpers: canonical JSON, hashing, seeds, library isolation, shallow-stack executor."""
import hashlib
import json
import os
import sys
import threading
import traceback
import concurrent.futures

REPO = os.environ.get("PVS_REPO", "/repo")
REPO_SRC = os.path.join(REPO, "src")
VERIF = os.path.dirname(os.path.dirname(os.path.dirname(os.path.abspath(__file__))))


def cjson(x):
    return json.dumps(x, sort_keys=True, separators=(",", ":"), default=_default)


def _default(o):
    if isinstance(o, (set, frozenset)):
        return sorted(o)
    if isinstance(o, tuple):
        return list(o)
    return repr(o)


def chash(x, n=12):
    return hashlib.sha1(cjson(x).encode()).hexdigest()[:n]


def subseed(*parts):
    """Deterministic 63-bit integer from arbitrary parts (stable across processes and hash seeds)."""
    h = hashlib.sha256(("|".join(str(p) for p in parts)).encode()).digest()
    return int.from_bytes(h[:8], "big") >> 1


def import_vsc():
    """Import vsc from the working tree of /repo and make sure that is what we got."""
    if REPO_SRC not in sys.path:
        sys.path.insert(0, REPO_SRC)
    import vsc  # noqa
    f = os.path.realpath(vsc.__file__)
    if not f.startswith(os.path.realpath(REPO_SRC)):
        raise HarnessError("vsc imported from %s, expected under %s" % (f, REPO_SRC))
    return vsc


class HarnessError(Exception):
    pass


def silence_stdout():
    """pyvsc prints diagnostics to stdout; in worker processes send fd 1 to /dev/null."""
    sys.stdout.flush()
    dn = os.open(os.devnull, os.O_WRONLY)
    os.dup2(dn, 1)
    os.close(dn)


def reset_library():
    """Hard reset of pyvsc's process-wide construction state.  Returns a dict describing what was
    left over (non-empty values mean a previous case leaked state)."""
    from vsc.impl import ctor, expr_mode
    left = {}
    for name in ("constraint_scope_stack", "expr_l", "srcinfo_mode_s", "foreach_arr_s"):
        lst = getattr(ctor, name, None)
        if lst is not None and len(lst) > 0:
            left[name] = len(lst)
            del lst[:]
    for name in ("_expr_mode", "_raw_mode"):
        v = getattr(expr_mode, name, None)
        if isinstance(v, list):
            if len(v) > 0:
                left[name] = len(v)
                del v[:]
        elif v:
            left[name] = v
            setattr(expr_mode, name, 0 if isinstance(v, int) and not isinstance(v, bool) else False)
    try:
        ctor.rand_obj_type_m.clear()
    except Exception:
        pass
    try:
        from vsc.impl.coverage_registry import CoverageRegistry
        CoverageRegistry._inst = None
    except Exception:
        pass
    return left


def library_state():
    """Snapshot of the sizes of the process-wide stacks (for C16)."""
    from vsc.impl import ctor, expr_mode
    st = {}
    for name in ("constraint_scope_stack", "expr_l", "srcinfo_mode_s", "foreach_arr_s"):
        lst = getattr(ctor, name, None)
        st[name] = len(lst) if lst is not None else None
    for name in ("_expr_mode", "_raw_mode"):
        v = getattr(expr_mode, name, None)
        st[name] = len(v) if isinstance(v, list) else v
    return st


_EXEC = None


def run_shallow(fn, *args, timeout=120):
    """Run fn on a persistent helper thread (shallow Python stack: pyvsc calls inspect.stack()
    on every construction/randomize, which is slow under Hypothesis's deep stack)."""
    global _EXEC
    if _EXEC is None:
        _EXEC = concurrent.futures.ThreadPoolExecutor(max_workers=1)
    fut = _EXEC.submit(fn, *args)
    try:
        return fut.result(timeout=timeout)
    except concurrent.futures.TimeoutError:
        _EXEC = None  # abandon the stuck thread
        raise Inconclusive("library call did not return within %ds" % timeout)


class Inconclusive(Exception):
    pass


def lib_frame(exc):
    """(file, function) of the innermost traceback frame inside /repo/src, or of the innermost frame."""
    tb = traceback.extract_tb(exc.__traceback__)
    src = os.path.realpath(REPO_SRC)
    inner = None
    for fr in tb:
        fn = os.path.realpath(fr.filename)
        if fn.startswith(src):
            inner = (os.path.relpath(fn, src), fr.name)
    if inner is None and tb:
        inner = (os.path.basename(tb[-1].filename), tb[-1].name)
    return inner or ("?", "?")


def exc_sig(exc):
    f = lib_frame(exc)
    return "%s@%s:%s" % (type(exc).__name__, f[0], f[1])


def solver_handles(root, scrub=False, limit=200000):
    """Walk the object graph reachable from `root` through vsc model objects / lists / dicts / tuples / sets and
    return the attribute paths that hold Boolector solver objects (BoolectorNode / Boolector).
    With scrub=True those attributes are set to None (lists are emptied of them)."""
    import pyboolector
    handle_t = (pyboolector.BoolectorNode, pyboolector.Boolector)
    found = []
    seen = set()
    stack = [(root, "model")]
    n = 0
    while stack:
        o, path = stack.pop()
        if id(o) in seen:
            continue
        seen.add(id(o))
        n += 1
        if n > limit:
            break
        if isinstance(o, dict):
            items = list(o.items())
            for k, v in items:
                if isinstance(v, handle_t):
                    found.append("%s[%r]" % (path, k))
                    if scrub:
                        o[k] = None
                elif _walkable(v):
                    stack.append((v, "%s[%r]" % (path, k)))
                if _walkable(k):
                    stack.append((k, path + ".key"))
        elif isinstance(o, (list, tuple, set, frozenset)):
            hs = [x for x in o if isinstance(x, handle_t)]
            if hs:
                found.append("%s[*]" % path)
                if scrub and isinstance(o, list):
                    o[:] = [x for x in o if not isinstance(x, handle_t)]
            for i, v in enumerate(o):
                if _walkable(v):
                    stack.append((v, "%s[%d]" % (path, i) if isinstance(o, (list, tuple)) else path + "{}"))
        else:
            d = getattr(o, "__dict__", None)
            if isinstance(d, dict):
                for k, v in list(d.items()):
                    if isinstance(v, handle_t):
                        found.append("%s.%s(%s)" % (path, k, type(o).__name__))
                        if scrub:
                            try:
                                setattr(o, k, None)
                            except Exception:
                                d[k] = None
                    elif _walkable(v):
                        stack.append((v, "%s.%s" % (path, k)))
    return found


def _walkable(v):
    if v is None or isinstance(v, (int, float, str, bytes, bool)):
        return False
    if isinstance(v, (list, tuple, dict, set, frozenset)):
        return True
    mod = type(v).__module__ or ""
    return mod.startswith("vsc.")


def safe_gc():
    """Cyclic collection at a case boundary.  pyvsc object models are cyclic; if solver handles were left in
    them (after an exception inside a solve) collecting them in arbitrary order can crash pyboolector, so the
    harness scrubs handles from objects it knows (flat.do_call) before they become garbage and collects here."""
    import gc
    gc.collect()
