"""Runner: known-finding replays, regression replays, sharded generation, evidence, verdict lines."""
import importlib
import json
import multiprocessing as mp
import os
import sys
import time
import traceback

from . import findings
from .acc import Acc
from .util import VERIF, chash, cjson, subseed, HarnessError

NPROC = int(os.environ.get("PVS_NPROC", "16"))
SHARD_TIMEOUT = {"quick": 1500, "thorough": 4 * 3600}


def load_module(prop):
    return importlib.import_module("pvs.props." + prop.lower())


# ---------------------------------------------------------------- worker side
def _wmain(idx, job, q):
    """One process per job.  Streams provisional violations so that a crashing library cannot hide them."""
    import gc
    from .util import silence_stdout, import_vsc, reset_library
    from . import hyp as _hyp
    try:
        silence_stdout()
        import_vsc()
        gc.disable()   # collected explicitly at case boundaries (see util.safe_gc)
        kind, prop, payload = job
        mod = load_module(prop)
        reset_library()
        _hyp.PROVISIONAL = lambda v: q.put((idx, "provisional", v))
        if kind == "shard":
            spec, seed, tier = payload
            acc = Acc()
            t0 = time.time()
            mod.run_shard(spec, seed, tier, acc)
            d = acc.to_dict()
            d["wall"] = time.time() - t0
            d["spec"] = spec
            q.put((idx, "done", d))
        else:
            vios = mod.replay(payload)
            q.put((idx, "done", vios))
    except BaseException:
        q.put((idx, "error", traceback.format_exc()))
    finally:
        try:
            q.close()
            q.join_thread()
        except Exception:
            pass


def run_jobs(jobs, nproc, deadline):
    """-> list of (status, result, provisional) per job; status in ok|error|crash|timeout"""
    ctx = mp.get_context("spawn")
    q = ctx.Queue()
    out = [None] * len(jobs)
    prov = [[] for _ in jobs]
    pending = list(range(len(jobs)))
    running = {}
    dead_since = {}
    while pending or running:
        while pending and len(running) < nproc:
            i = pending.pop(0)
            p = ctx.Process(target=_wmain, args=(i, jobs[i], q), daemon=True)
            p.start()
            running[i] = p
        try:
            while True:
                i, kind, data = q.get(timeout=0.1)
                if kind == "provisional":
                    prov[i].append(data)
                elif kind == "done":
                    out[i] = ("ok", data)
                else:
                    out[i] = ("error", data)
        except Exception:
            pass
        now = time.time()
        for i, p in list(running.items()):
            if out[i] is not None:
                p.join(timeout=5)
                if p.is_alive():
                    p.terminate()
                del running[i]
            elif not p.is_alive():
                # give the queue a moment to deliver a final message
                if i not in dead_since:
                    dead_since[i] = now
                elif now - dead_since[i] > 1.0:
                    out[i] = ("crash", "worker exited with code %r" % p.exitcode)
                    del running[i]
            elif now > deadline:
                p.terminate()
                out[i] = ("timeout", None)
                del running[i]
        if now > deadline and pending:
            for i in pending:
                out[i] = ("timeout", None)
            pending = []
    return [(o[0], o[1], prov[i]) for i, o in enumerate(out)]


# ---------------------------------------------------------------- parent side
def _save_replay(v):
    d = os.path.join(VERIF, "replays")
    os.makedirs(d, exist_ok=True)
    name = "%s-%s.json" % (v["property"], chash([v["kind"], v["detail"], v["case"]]))
    path = os.path.join(d, name)
    with open(path, "w") as f:
        json.dump(v, f, indent=1, sort_keys=True, default=repr)
    return os.path.join("replays", name)


def _sig(v):
    return (v["property"], v["kind"], v["detail"])


def write_evidence(prop, mod, tier, seed, acc, wall, nviol, extra_cov=None):
    cov = {
        "evaluations": int(acc.evaluations),
        "distinct_nontrivial": len(acc.nontrivial) + acc.nontrivial_enum,
        "rule": mod.RULE,
        "samples": acc.samples if acc.samples else ["(no non-trivial sample recorded)"],
        "classes": dict(sorted(acc.hist.items())),
        "tolerated_known": dict(acc.tolerated),
        "inconclusive": acc.inconclusive,
    }
    if acc.exhaustive is not None:
        cov["exhaustive"] = bool(acc.exhaustive)
    if acc.notes:
        cov["notes"] = sorted(set(acc.notes))[:20]
    if extra_cov:
        cov.update(extra_cov)
    ev = {
        "property_id": prop, "tier": tier, "seed": int(seed), "level": mod.LEVEL, "coverage": cov,
        "assumptions": list(mod.ASSUMPTIONS), "wall_s": round(wall, 2), "violations": int(nviol),
    }
    d = os.path.join(VERIF, "evidence")
    os.makedirs(d, exist_ok=True)
    tmp = os.path.join(d, prop + ".json.tmp")
    with open(tmp, "w") as f:
        json.dump(ev, f, indent=1, sort_keys=True, default=repr)
    os.replace(tmp, os.path.join(d, prop + ".json"))


def main(prop, tier="quick", replay=None, collect=False):
    t0 = time.time()
    seed = int(os.environ.get("VERIF_SEED", "1"))
    if collect:
        os.environ["PVS_COLLECT"] = "1"
    os.environ.setdefault("PVS_HYP_SHRINK", "1" if tier == "thorough" else "0")
    mod = load_module(prop)
    if replay is not None:
        rec = json.load(open(replay))
        case = rec["case"] if isinstance(rec, dict) and "case" in rec else rec
        st, res, _ = run_jobs([("replay", prop, case)], 1, time.time() + 3600)[0]
        if st != "ok":
            sys.stderr.write(res)
            return 2
        if res:
            for v in res:
                print("replay: %s %s" % (v["kind"], v["detail"]))
            print("VIOLATION property=%s replay=%s" % (prop, replay))
            return 1
        print("replay passed: property=%s %s" % (prop, replay))
        return 0

    open_f = findings.open_for(prop)
    fixed_c = findings.fixed_cases(prop)
    shard_specs = mod.shards(tier)
    jobs = []
    for f in open_f:
        jobs.append(("replay", prop, f["case"]))
    for _, rec in fixed_c:
        jobs.append(("replay", prop, rec["case"]))
    for i, spec in enumerate(shard_specs):
        jobs.append(("shard", prop, (spec, subseed(seed, prop, i), tier)))

    acc = Acc()
    new_violations = []
    known_lines = []
    errors = []
    nproc = max(1, min(NPROC, len(jobs)))
    results = run_jobs(jobs, nproc, t0 + SHARD_TIMEOUT.get(tier, 1500))

    idx = 0
    # 1. open findings: their own case must still fail with the recorded signature
    for f in open_f:
        st, res, prov = results[idx]; idx += 1
        if st != "ok":
            errors.append("finding %s: %s" % (f["key"], res))
            continue
        if not res:
            print("note: known finding %s no longer reproduces (property=%s)" % (f["key"], prop))
            continue
        matched = [v for v in res if findings.matches(f, v["kind"], v["detail"], v["case"])]
        other = [v for v in res if not findings.matches(f, v["kind"], v["detail"], v["case"])
                 and findings.tolerated(prop, v["kind"], v["detail"], v["case"]) is None]
        if matched:
            known_lines.append("KNOWN-FINDING: property=%s %s" % (prop, f["what"]))
        for v in other:
            new_violations.append(v)
    # 2. repaired defects: must pass
    for path, rec in fixed_c:
        st, res, prov = results[idx]; idx += 1
        if st != "ok":
            errors.append("regression %s: %s" % (path, res))
            continue
        acc.label("regression_replays")
        for v in res:
            if findings.tolerated(prop, v["kind"], v["detail"], v["case"]) is None:
                v = dict(v); v["detail"] = v["detail"] + " [regression of repaired defect: %s]" % rec.get("what", path)
                new_violations.append(v)
    # 2b. repaired defects kept as stand-alone programs (findings/fixed/<ID>-*.py: public API only, own oracle, exit 1 =
    #     the defect is back).  They run in a subprocess against the tree under test.
    import glob
    import subprocess
    from .util import REPO_SRC
    for script in sorted(glob.glob(os.path.join(VERIF, "findings", "fixed", prop + "-*.py"))):
        rel = os.path.relpath(script, VERIF)
        env = dict(os.environ, PYTHONPATH=REPO_SRC, PYTHONDONTWRITEBYTECODE="1")
        try:
            r = subprocess.run([sys.executable, script], env=env, stdout=subprocess.PIPE, stderr=subprocess.STDOUT, timeout=300,
                               cwd=os.path.dirname(script))
        except subprocess.TimeoutExpired:
            acc.inconclusive += 1
            acc.notes.append("regression program %s did not finish in 300 s: inconclusive" % rel)
            continue
        acc.label("regression_programs")
        if r.returncode == 1:
            tail = r.stdout.decode("utf-8", "replace").strip().splitlines()[-6:]
            new_violations.append({"property": prop, "kind": "regression_program", "detail": "%s exits 1 [regression of a repaired defect]" % rel,
                                   "case": {"program": rel}, "text": "\n".join(tail)})
        elif r.returncode != 0:
            errors.append("regression program %s: exit %d\n%s" % (rel, r.returncode, r.stdout.decode("utf-8", "replace")[-800:]))
    # 3. shards
    walls = []
    for spec in shard_specs:
        st, res, prov = results[idx]; idx += 1
        if st == "timeout":
            acc.inconclusive += 1
            acc.notes.append("shard %s hit the wall-clock budget: inconclusive" % cjson(spec))
            continue
        if st == "crash" and prov:
            # the worker died (e.g. the library crashed the interpreter) after reporting violations
            acc.notes.append("shard %s: %s after reporting %d provisional violation(s)" % (cjson(spec), res, len(prov)))
            acc.violations.extend(prov[:1])
            continue
        if st != "ok":
            errors.append("shard %s: %s" % (cjson(spec), res))
            continue
        acc.merge_dict(res)
        walls.append(res["wall"])
    new_violations.extend(acc.violations)

    # de-duplicate by signature, keep the smallest case per signature
    by_sig = {}
    for v in new_violations:
        s = _sig(v)
        if s not in by_sig or len(cjson(v["case"])) < len(cjson(by_sig[s]["case"])):
            by_sig[s] = v
    wall = time.time() - t0
    extra = {"shards": len(shard_specs), "shard_wall_max_s": round(max(walls), 1) if walls else 0}
    if errors:
        for e in errors:
            sys.stderr.write("HARNESS-ERROR: %s\n" % e)
        try:
            write_evidence(prop, mod, tier, seed, acc, wall, len(by_sig), dict(extra, harness_errors=len(errors)))
        except Exception:
            pass
        return 2
    write_evidence(prop, mod, tier, seed, acc, wall, len(by_sig), extra)
    for line in known_lines:
        print(line)
    if collect and acc.buckets:
        for sig, (n, v) in sorted(acc.buckets.items(), key=lambda kv: -kv[1][0]):
            p = _save_replay(v)
            print("BUCKET n=%d %s replay=%s" % (n, sig, p))
            if v.get("text"):
                print("    " + v["text"].replace("\n", "\n    "))
    for s, v in sorted(by_sig.items()):
        p = _save_replay(v)
        print("violation: %s %s" % (v["kind"], v["detail"]))
        if v.get("text"):
            print("    " + str(v["text"]).replace("\n", "\n    "))
        print("VIOLATION property=%s replay=%s" % (prop, p))
    print("%s %s: %d evaluations, %d distinct non-trivial, %d tolerated-known, %d inconclusive, %d violation(s), %.1fs"
          % (prop, tier, acc.evaluations, len(acc.nontrivial) + acc.nontrivial_enum, sum(acc.tolerated.values()), acc.inconclusive,
             len(by_sig), wall))
    return 1 if by_sig else 0
