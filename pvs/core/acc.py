"""Accumulator for what a shard explored: counts, non-trivial case hashes, samples, histogram, violations."""
import collections
from .util import chash

MAX_SAMPLES = 6


class Acc:
    def __init__(self):
        self.evaluations = 0
        self.nontrivial = set()
        self.nontrivial_enum = 0   # distinct by construction (exhaustive enumerations over disjoint shards)
        self.samples = []
        self.hist = collections.Counter()
        self.violations = []      # list of dict(property, kind, detail, case, text)
        self.tolerated = collections.Counter()   # finding key -> count
        self.inconclusive = 0
        self.exhaustive = None
        self.notes = []
        self.buckets = {}         # collect mode: signature -> [count, first violation]

    # -- recording -----------------------------------------------------------------------
    def case(self, key, nontrivial, sample=None, n=1):
        """One generated case was executed and judged.  key: any JSON-able identity of the case."""
        self.evaluations += n
        if nontrivial:
            self.nontrivial.add(chash(key))
            if sample is not None and len(self.samples) < MAX_SAMPLES:
                self.samples.append(sample)

    def label(self, name, n=1):
        self.hist[name] += n

    def violation(self, prop, kind, detail, case, text=None):
        v = {"property": prop, "kind": kind, "detail": detail, "case": case}
        if text is not None:
            v["text"] = text
        self.violations.append(v)
        return v

    # -- merge / transport ---------------------------------------------------------------
    def to_dict(self):
        return {
            "evaluations": self.evaluations, "nontrivial": sorted(self.nontrivial),
            "nontrivial_enum": self.nontrivial_enum, "samples": self.samples,
            "hist": dict(self.hist), "violations": self.violations, "tolerated": dict(self.tolerated),
            "inconclusive": self.inconclusive, "exhaustive": self.exhaustive, "notes": self.notes,
            "buckets": self.buckets,
        }

    def merge_dict(self, d):
        self.evaluations += d["evaluations"]
        self.nontrivial.update(d["nontrivial"])
        self.nontrivial_enum += d.get("nontrivial_enum", 0)
        for s in d["samples"]:
            if len(self.samples) < MAX_SAMPLES:
                self.samples.append(s)
        self.hist.update(d["hist"])
        self.violations.extend(d["violations"])
        self.tolerated.update(d["tolerated"])
        self.inconclusive += d["inconclusive"]
        if d["exhaustive"] is not None:
            self.exhaustive = d["exhaustive"] if self.exhaustive is None else (self.exhaustive and d["exhaustive"])
        self.notes.extend(d["notes"])
        for k, (n, v) in d.get("buckets", {}).items():
            if k in self.buckets:
                self.buckets[k][0] += n
            else:
                self.buckets[k] = [n, v]
