"""Hypothesis plumbing: imperative draw adapter, seeded drivers with bounded shrinking."""
import os
import time
import hypothesis
from hypothesis import given, settings, strategies as st, HealthCheck, Phase
from hypothesis.errors import Flaky
try:
    from hypothesis.errors import FlakyFailure
except Exception:  # pragma: no cover
    FlakyFailure = Flaky

from . import findings
from .util import run_shallow, Inconclusive, reset_library, safe_gc, cjson


class D:
    """random.Random-like adapter over Hypothesis `draw`: every decision is a drawn integer, so cases
    shrink towards 'first alternative / smallest number'."""

    def __init__(self, draw):
        self._draw = draw

    def randint(self, a, b):
        if a >= b:
            return a
        return self._draw(st.integers(a, b))

    def choice(self, seq):
        return seq[self.randint(0, len(seq) - 1)]

    def chance(self, pct):
        """True with probability pct/100; False is the simple (shrunk) alternative."""
        return self.randint(0, 99) >= 100 - pct

    def sample(self, seq, k):
        seq = list(seq)
        out = []
        for _ in range(min(k, len(seq))):
            out.append(seq.pop(self.randint(0, len(seq) - 1)))
        return out

    def weighted(self, pairs):
        """pairs: [(weight, value)], first entries are the simple ones."""
        tot = sum(w for w, _ in pairs)
        x = self.randint(0, tot - 1)
        for w, v in pairs:
            if x < w:
                return v
            x -= w
        return pairs[-1][1]

    def seed(self):
        return self.randint(0, (1 << 30) - 1)


def composite(fn):
    """@composite taking the D adapter instead of draw."""
    @st.composite
    def strat(draw, *a, **kw):
        return fn(D(draw), *a, **kw)
    return strat


class Found(Exception):
    pass


def _list_paths(x, path=()):
    """paths of all list elements in a JSON-like value, deepest containers last"""
    out = []
    if isinstance(x, dict):
        for k in sorted(x):
            out.extend(_list_paths(x[k], path + (k,)))
    elif isinstance(x, list):
        for i in range(len(x) - 1, -1, -1):
            out.append(path + (i,))
        for i, v in enumerate(x):
            out.extend(_list_paths(v, path + (i,)))
    return out


def _without(x, path):
    import copy
    y = copy.deepcopy(x)
    cur = y
    for k in path[:-1]:
        cur = cur[k]
    del cur[path[-1]]
    return y


def _hoist(x, path):
    """replace the container of path by the element at path (e.g. an if-statement by one of its body statements)"""
    import copy
    if len(path) < 2:
        return None
    y = copy.deepcopy(x)
    cur = y
    for k in path[:-2]:
        cur = cur[k]
    elem = cur[path[-2]][path[-1]]
    if not isinstance(elem, list):
        return None
    cur[path[-2]] = elem
    return y


def reduce_case(case, signature_of, budget_s=15.0):
    """Greedy structural reduction: delete list elements (statements, fields, calls, ops, samples, items) or hoist a
    nested element over its parent while signature_of(candidate) stays the same.  signature_of returns None when
    the candidate does not fail (or is not a valid case: harness exceptions count as 'does not reproduce')."""
    t0 = time.time()
    sig = signature_of(case)
    if sig is None:
        return case
    progress = True
    while progress and time.time() - t0 < budget_s:
        progress = False
        for path in _list_paths(case):
            if time.time() - t0 > budget_s:
                break
            for cand in (_without(case, path), _hoist(case, path)):
                if cand is None:
                    continue
                try:
                    ok = signature_of(cand) == sig
                except Exception:
                    ok = False
                finally:
                    reset_library()
                if ok:
                    case = cand
                    progress = True
                    break
            if progress:
                break
    return case


COLLECT = os.environ.get("PVS_COLLECT") == "1"
PROVISIONAL = None   # set by the worker: callable(v) streaming the first discovery of a violation
_GC_EVERY = 25


def drive(strategy, body, seed, max_examples, acc, shrink=True, shallow=(os.environ.get("PVS_SHALLOW", "1") == "1")):
    """Run body(case, acc) -> list of violation dicts over generated cases.

    * violations that match an open known finding are counted (acc.tolerated) and dropped;
    * the first remaining violation stops generation; Hypothesis shrinks it (bounded) and the minimal
      failing case's violations are appended to acc.violations;
    * PVS_COLLECT=1: violations are bucketed by signature in acc.buckets and the search continues.
    """
    last = {}
    if os.environ.get("PVS_HYP_SHRINK", "1") == "0":
        shrink = False      # quick tier: structural reduction only (reduce_case), Hypothesis's shrinker is too slow
    phases = [Phase.generate] + ([Phase.shrink] if shrink else [])
    counter = [0]
    budget = float(os.environ.get("PVS_SHRINK_S", "25"))

    def judged(case):
        counter[0] += 1
        if counter[0] % _GC_EVERY == 0:
            safe_gc()
        vios = body(case, acc)
        keep = []
        for v in vios:
            key = findings.tolerated(v["property"], v["kind"], v["detail"], v["case"])
            if key is not None:
                acc.tolerated[key] += 1
            else:
                keep.append(v)
        return keep

    @hypothesis.seed(seed)
    @settings(max_examples=max_examples, deadline=None, database=None, derandomize=False,
              report_multiple_bugs=False, phases=phases,
              suppress_health_check=list(HealthCheck))
    @given(strategy)
    def test(case):
        if "t0" in last and time.time() - last["t0"] > budget and cjson(case) != last.get("best"):
            return          # shrink budget used up: only the best known failing case is still executed
        try:
            if shallow:
                vios = run_shallow(judged, case)
            else:
                vios = judged(case)
        except Inconclusive:
            acc.inconclusive += 1
            return
        if vios:
            if COLLECT:
                for v in vios:
                    sig = "%s|%s|%s" % (v["property"], v["kind"], v["detail"])
                    if sig in acc.buckets:
                        acc.buckets[sig][0] += 1
                    else:
                        acc.buckets[sig] = [1, v]
                return
            if "vios" not in last and PROVISIONAL is not None:
                try:
                    PROVISIONAL(vios[0])
                except Exception:
                    pass
            last.setdefault("t0", time.time())
            last["best"] = cjson(case)      # the latest failing example is the shrinker's current best
            last["vios"] = vios
            raise Found(vios[0]["kind"])

    def _sig_of(c):
        vs = judged_quiet(c)
        return (vs[0]["property"], vs[0]["kind"], vs[0]["detail"]) if vs else None

    def judged_quiet(c):
        import copy
        scratch = type(acc)()
        vs = body(copy.deepcopy(c), scratch)
        return [v for v in vs if findings.tolerated(v["property"], v["kind"], v["detail"], v["case"]) is None]

    def _finish():
        vios = last["vios"]
        try:
            small = reduce_case(vios[0]["case"], _sig_of, float(os.environ.get("PVS_REDUCE_S", "15")))
            vs = judged_quiet(small)
            if vs:
                vios = vs
        except Exception:
            pass
        acc.violations.extend(vios)

    def _excluded():
        try:
            from ..model import gen as _gen
            for k, n in _gen.EXCLUDED.items():
                acc.label("excluded by construction: " + k, n)
            _gen.EXCLUDED.clear()
        except Exception:
            pass

    try:
        test()
        _excluded()
    except Found:
        _excluded()
        _finish()
    except (Flaky, FlakyFailure):
        if "vios" in last:
            if not ("t0" in last and time.time() - last["t0"] > budget):
                for v in last["vios"]:
                    v["detail"] = v["detail"] + " [flaky under replay]"
                acc.violations.extend(last["vios"])
            else:
                _finish()
        else:
            raise
    finally:
        reset_library()


def run_machine(machine_cls, seed, max_examples, steps, acc, shrink=True):
    """Seeded run of a RuleBasedStateMachine class.  The machine reports violations by raising
    MachineViolation(v) where v is a violation dict; the shrunk one is appended to acc.violations."""
    from hypothesis.stateful import run_state_machine_as_test
    phases = [Phase.generate] + ([Phase.shrink] if shrink else [])
    s = settings(max_examples=max_examples, stateful_step_count=steps, deadline=None, database=None,
                 derandomize=False, report_multiple_bugs=False, phases=phases,
                 suppress_health_check=list(HealthCheck))
    last = machine_cls._last = {}
    try:
        run_state_machine_as_test(hypothesis.seed(seed)(machine_cls), settings=s)
    except MachineViolation as e:
        acc.violations.append(last.get("v", e.v))
    except (Flaky, FlakyFailure):
        if "v" in last:
            v = last["v"]
            v["detail"] += " [flaky under replay]"
            acc.violations.append(v)
        else:
            raise
    finally:
        reset_library()


class MachineViolation(Exception):
    def __init__(self, v):
        Exception.__init__(self, "%s %s" % (v["kind"], v["detail"]))
        self.v = v
