"""Hypothesis plumbing: imperative draw adapter, seeded drivers with bounded shrinking."""
import os
import hypothesis
from hypothesis import given, settings, strategies as st, HealthCheck, Phase
from hypothesis.errors import Flaky
try:
    from hypothesis.errors import FlakyFailure
except Exception:  # pragma: no cover
    FlakyFailure = Flaky

from . import findings
from .util import run_shallow, Inconclusive, reset_library, safe_gc


class D:
    """random.Random-like adapter over Hypothesis `draw`: every decision is a drawn integer, so cases
    shrink towards 'first alternative / smallest number'."""

    def __init__(self, draw):
        self._draw = draw

    def randint(self, a, b):
        if a >= b:
            return a
        return self._draw(st.integers(a, b))

    def choice(self, seq):
        return seq[self.randint(0, len(seq) - 1)]

    def chance(self, pct):
        """True with probability pct/100; False is the simple (shrunk) alternative."""
        return self.randint(0, 99) >= 100 - pct

    def sample(self, seq, k):
        seq = list(seq)
        out = []
        for _ in range(min(k, len(seq))):
            out.append(seq.pop(self.randint(0, len(seq) - 1)))
        return out

    def weighted(self, pairs):
        """pairs: [(weight, value)], first entries are the simple ones."""
        tot = sum(w for w, _ in pairs)
        x = self.randint(0, tot - 1)
        for w, v in pairs:
            if x < w:
                return v
            x -= w
        return pairs[-1][1]

    def seed(self):
        return self.randint(0, (1 << 30) - 1)


def composite(fn):
    """@composite taking the D adapter instead of draw."""
    @st.composite
    def strat(draw, *a, **kw):
        return fn(D(draw), *a, **kw)
    return strat


class Found(Exception):
    pass


COLLECT = os.environ.get("PVS_COLLECT") == "1"
PROVISIONAL = None   # set by the worker: callable(v) streaming the first discovery of a violation
_GC_EVERY = 25


def drive(strategy, body, seed, max_examples, acc, shrink=True, shallow=(os.environ.get("PVS_SHALLOW", "1") == "1")):
    """Run body(case, acc) -> list of violation dicts over generated cases.

    * violations that match an open known finding are counted (acc.tolerated) and dropped;
    * the first remaining violation stops generation; Hypothesis shrinks it (bounded) and the minimal
      failing case's violations are appended to acc.violations;
    * PVS_COLLECT=1: violations are bucketed by signature in acc.buckets and the search continues.
    """
    last = {}
    phases = [Phase.generate] + ([Phase.shrink] if shrink else [])
    counter = [0]

    def judged(case):
        counter[0] += 1
        if counter[0] % _GC_EVERY == 0:
            safe_gc()
        vios = body(case, acc)
        keep = []
        for v in vios:
            key = findings.tolerated(v["property"], v["kind"], v["detail"], v["case"])
            if key is not None:
                acc.tolerated[key] += 1
            else:
                keep.append(v)
        return keep

    @hypothesis.seed(seed)
    @settings(max_examples=max_examples, deadline=None, database=None, derandomize=False,
              report_multiple_bugs=False, phases=phases,
              suppress_health_check=list(HealthCheck))
    @given(strategy)
    def test(case):
        try:
            if shallow:
                vios = run_shallow(judged, case)
            else:
                vios = judged(case)
        except Inconclusive:
            acc.inconclusive += 1
            return
        if vios:
            if COLLECT:
                for v in vios:
                    sig = "%s|%s|%s" % (v["property"], v["kind"], v["detail"])
                    if sig in acc.buckets:
                        acc.buckets[sig][0] += 1
                    else:
                        acc.buckets[sig] = [1, v]
                return
            if "vios" not in last and PROVISIONAL is not None:
                try:
                    PROVISIONAL(vios[0])
                except Exception:
                    pass
            last["vios"] = vios
            raise Found(vios[0]["kind"])

    try:
        test()
    except Found:
        acc.violations.extend(last["vios"])
    except (Flaky, FlakyFailure):
        if "vios" in last:
            for v in last["vios"]:
                v["detail"] = v["detail"] + " [flaky under replay]"
            acc.violations.extend(last["vios"])
        else:
            raise
    finally:
        reset_library()


def run_machine(machine_cls, seed, max_examples, steps, acc, shrink=True):
    """Seeded run of a RuleBasedStateMachine class.  The machine reports violations by raising
    MachineViolation(v) where v is a violation dict; the shrunk one is appended to acc.violations."""
    from hypothesis.stateful import run_state_machine_as_test
    phases = [Phase.generate] + ([Phase.shrink] if shrink else [])
    s = settings(max_examples=max_examples, stateful_step_count=steps, deadline=None, database=None,
                 derandomize=False, report_multiple_bugs=False, phases=phases,
                 suppress_health_check=list(HealthCheck))
    last = machine_cls._last = {}
    try:
        run_state_machine_as_test(hypothesis.seed(seed)(machine_cls), settings=s)
    except MachineViolation as e:
        acc.violations.append(last.get("v", e.v))
    except (Flaky, FlakyFailure):
        if "v" in last:
            v = last["v"]
            v["detail"] += " [flaky under replay]"
            acc.violations.append(v)
        else:
            raise
    finally:
        reset_library()


class MachineViolation(Exception):
    def __init__(self, v):
        Exception.__init__(self, "%s %s" % (v["kind"], v["detail"]))
        self.v = v
