"""CLI: python -m pvs.check <ID> [--tier quick|thorough] [--replay FILE] [--collect]"""
import argparse
import os
import sys
import traceback


def main():
    ap = argparse.ArgumentParser()
    ap.add_argument("prop")
    ap.add_argument("--tier", default=os.environ.get("VERIF_TIER", "quick"), choices=["quick", "thorough"])
    ap.add_argument("--replay", default=None)
    ap.add_argument("--collect", action="store_true")
    a = ap.parse_args()
    try:
        from pvs.core import runner
        rc = runner.main(a.prop.upper(), a.tier, a.replay, a.collect)
    except SystemExit:
        raise
    except Exception:
        traceback.print_exc()
        rc = 2
    sys.stdout.flush()
    sys.exit(rc)


if __name__ == "__main__":
    main()
