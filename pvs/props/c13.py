"""C13 - coverage reports and saved databases equal the in-memory coverage."""
import os
import re
import shutil
import tempfile

from ..core import hyp, findings
from ..core.util import exc_sig, reset_library, cjson, import_vsc
from ..model import cov
from . import c12

PROPERTY = "C13"
LEVEL = "exploration"
RULE = ("cases = C12-style populations (parameterised covergroup class, in 45% of the cases two such classes => several types "
        "under one or two type names, several instances, regular / "
        "ignore / illegal bins, cross, at_least/weight options, optional user-given instance names) with a generated "
        "history of create/sample operations and report points (report model, text report with details, UCIS XML "
        "write + read-back) at arbitrary positions.  At each report point every type, instance, coverpoint, cross and "
        "bin of an independent dict model must appear exactly once with its name (as returned by the model getters) and "
        "hit count; percentages must agree with get_coverage()/get_inst_coverage() and the coverpoint/cross getters; all "
        "getters must read the same before and after reporting/saving.  non-trivial = an ignore or illegal bin has hits, "
        ">=2 instances, and a report is taken mid-history and again at the end; distinct = distinct canonical case")
ASSUMPTIONS = [
    "XML writer/reader and percentage arithmetic live in PyUCIS (outside /repo): after read-back only names and counts are compared",
    "instance names: compared exactly when the case assigns unique names via set_name (at creation and again later in the history), otherwise only uniqueness and count",
    "report percentages compared with tolerance 1e-3 (model) / 0.006 (text, printed with 2 decimals)",
]


@findings.predicate("c13_cross_weight_not_one")
def pred_cross_weight(case):
    """the covergroup has a cross whose resolved weight is not 1 (PyUCIS's report builder ignores cross weights)"""
    cg = case["cg"]
    return any(c12.resolved(cg, x)[0] != 1 for x in cg.get("crosses") or [])


# (n, hi) -> cp1 = bin_array([n], [0, hi]); several variants have the same bin COUNT, and the bin name depends on hi in
# half of the cases, so that two types have a same-named coverpoint with equally many, differently named bins
VARIANTS = [(2, 7), (4, 7), (2, 11), (3, 7), (2, 9), (1, 15), (16, 15), (3, 11), (4, 12)]


@hyp.composite
def cases(d):
    nvar = d.randint(1, 3)
    variants = d.sample(VARIANTS, nvar)
    opts = {}
    if d.chance(40):
        opts["at_least"] = d.choice([1, 2, 3])
    cp1o, cp2o, xo = {}, {}, {}
    if d.chance(40):
        cp1o["weight"] = d.choice([1, 2, 0, 3])
    if d.chance(30):
        cp2o["weight"] = d.choice([1, 3, 2])
    if d.chance(25):
        cp2o["at_least"] = d.choice([1, 2])
    has_cross = d.chance(40)
    if has_cross and d.chance(40):
        xo["weight"] = d.choice([1, 2])
    cg = {"name": "CG", "ctor_args": ["n", "hi"],
          "params": [{"name": "a", "type": {"kind": "bit", "w": 4}}, {"name": "b", "type": {"kind": "bit", "w": 4}}],
          "options": opts,
          "cps": [{"name": "cp1", "target": "a", "bins": [],
                   "bins_expr": "{'x': vsc.bin_array([n], [0, hi])}" if d.chance(50) else "{('x%d' % hi): vsc.bin_array([n], [0, hi])}",
                   "ignore": [{"name": "ig", "items": [3]}], "illegal": [{"name": "il", "items": [{"t": [14, 15]}]}],
                   "options": cp1o or None},
                  {"name": "cp2", "target": "b", "bins": [{"name": "y", "kind": "bin", "items": [1, 2]},
                                                          {"name": "z", "kind": "bin", "items": [[5, 9]]}],
                   "ignore": [{"name": "skip", "items": [0]}] if d.chance(50) else None,
                   "options": cp2o or None}]}
    if has_cross:
        cg["crosses"] = [{"name": "x0", "cps": ["cp1", "cp2"], "options": xo or None}]
    named = d.chance(50)
    two_classes = d.chance(45)        # a second covergroup class of the same structure (another type name)
    ops = [["new", 0]]
    ninst = 1
    nops = d.randint(3, 24)
    for k in range(nops):
        r = d.randint(0, 99)
        if ninst < 4 and r < 15:
            ops.append(["new", d.randint(0, nvar - 1)] + ([d.randint(0, 1)] if two_classes else []))
            ninst += 1
        elif r < 30:
            ops.append(["report", d.choice(["model", "text", "xml"])])
        elif named and r < 38:
            ops.append(["rename", d.randint(0, ninst - 1), k])        # set_name after build: reports show the name of that moment
        else:
            ops.append(["sample", d.randint(0, ninst - 1), d.choice([3, 14, 15, 0, 1, 5, 9]) if d.chance(35) else d.randint(0, 15),
                        d.randint(0, 15)])
    ops.append(["report", d.choice(["model", "text", "xml"])])
    return {"cg": cg, "variants": [list(v) for v in variants], "ops": ops, "named": named}


def text_of(case):
    return cov.cg_source(case["cg"]) + "# variants (n, hi): %s named=%s\n# ops: %s" % (
        cjson(case["variants"]), case["named"], cjson(case["ops"]))


def V(kind, detail, case, extra=None):
    v = {"property": PROPERTY, "kind": kind, "detail": detail, "case": case, "text": text_of(case)}
    if extra:
        v["text"] += "\n# " + extra
    return v


class Model:
    """independent model: per instance hit vectors of cp1/cp2 regular, ignore, illegal and cross bins"""

    def __init__(self, case):
        self.cg = case["cg"]
        self.inst = []
        cp2 = self.cg["cps"][1]
        self.b2, self.ig2, self.il2 = cov.ref_bins(cp2, list(range(16)))

    def new(self, variant, cls=0):
        n, hi = variant
        cp1 = dict(self.cg["cps"][0], bins=[{"name": "x", "kind": "arr", "n": n, "items": [[0, hi]]}])
        b1, ig1, il1 = cov.ref_bins(cp1, list(range(16)))
        self.inst.append({"shape": (cls, tuple(tuple(sorted(s)) for s in b1)), "b1": b1, "ig1": ig1, "il1": il1,
                          "h": {"cp1": [0] * len(b1), "cp1.ig": [0] * len(ig1), "cp1.il": [0] * len(il1),
                                "cp2": [0] * len(self.b2), "cp2.ig": [0] * len(self.ig2), "cp2.il": [0] * len(self.il2),
                                "x0": [0] * (len(b1) * len(self.b2))}})

    def sample(self, i, a, b):
        m = self.inst[i]
        h = m["h"]
        k1 = [k for k, s in enumerate(m["b1"]) if a in s]
        k2 = [k for k, s in enumerate(self.b2) if b in s]
        for k in k1:
            h["cp1"][k] += 1
        for k in k2:
            h["cp2"][k] += 1
        for key, sets, v in (("cp1.ig", m["ig1"], a), ("cp1.il", m["il1"], a), ("cp2.ig", self.ig2, b), ("cp2.il", self.il2, b)):
            for k, s in enumerate(sets):
                if v in s:
                    h[key][k] += 1
        if k1 and k2:
            h["x0"][k1[0] * len(self.b2) + k2[0]] += 1

    def shapes(self):
        """-> list of (shape, [instance indices]): classes in order of first creation, within a class the shapes in order
        of first creation (the order in which the registry lists type covergroups)"""
        out = []
        for i, m in enumerate(self.inst):
            for sh, lst in out:
                if sh == m["shape"]:
                    lst.append(i)
                    break
            else:
                out.append((m["shape"], [i]))
        order = []
        for sh, _ in out:
            if sh[0] not in order:
                order.append(sh[0])
        return [x for c_ in order for x in out if x[0][0] == c_]

    def summed(self, idxs):
        keys = self.inst[idxs[0]]["h"].keys()
        return {k: [sum(self.inst[i]["h"][k][j] for i in idxs) for j in range(len(self.inst[idxs[0]]["h"][k]))] for k in keys}


def lib_names(cm, has_cross):
    cp1, cp2 = cm.coverpoint_l[0], cm.coverpoint_l[1]
    out = {}
    for key, cp in (("cp1", cp1), ("cp2", cp2)):
        out[key] = [cp.get_bin_name(i) for i in range(cp.get_n_bins())]
        out[key + ".ig"] = [cp.get_ignore_bin_name(i) for i in range(cp.get_n_ignore_bins())]
        out[key + ".il"] = [cp.get_illegal_bin_name(i) for i in range(cp.get_n_illegal_bins())]
    if has_cross:
        x = cm.cross_l[0]
        out["x0"] = [x.get_bin_name(i) for i in range(x.get_n_bins())]
    return out


def snapshot(objs, has_cross):
    snap = []
    for o in objs:
        cm = o.get_model()
        row = []
        for m in (cm, cm.type_cg):
            for cp in m.coverpoint_l:
                row.append([cp.get_bin_hits(i) for i in range(cp.get_n_bins())])
                row.append([cp.get_ignore_bin_hits(i) for i in range(cp.get_n_ignore_bins())])
                row.append([cp.get_illegal_bin_hits(i) for i in range(cp.get_n_illegal_bins())])
            for x in m.cross_l:
                row.append([x.get_bin_hits(i) for i in range(x.get_n_bins())])
        row.append([o.get_coverage(), o.get_inst_coverage(), o.cp1.get_inst_coverage(), o.cp2.get_inst_coverage()])
        snap.append(row)
    return snap


def scope_items(sc, has_cross):
    """report-model scope -> dict key -> [(name, count)...], plus coverage numbers"""
    d = {}
    cps = {c.name: c for c in sc.coverpoints}
    for key in ("cp1", "cp2"):
        c = cps.get(key)
        if c is None:
            return None, "coverpoint %s missing" % key
        d[key] = [(b.name, b.count) for b in c.bins]
        d[key + ".ig"] = [(b.name, b.count) for b in c.ignore_bins]
        d[key + ".il"] = [(b.name, b.count) for b in c.illegal_bins]
        d[key + "%"] = c.coverage
    if len(sc.coverpoints) != 2:
        return None, "%d coverpoints reported" % len(sc.coverpoints)
    if has_cross:
        if len(sc.crosses) != 1:
            return None, "%d crosses reported" % len(sc.crosses)
        d["x0"] = [(b.name, b.count) for b in sc.crosses[0].bins]
        d["x0%"] = sc.crosses[0].coverage
    elif len(sc.crosses) != 0:
        return None, "unexpected cross"
    d["%"] = sc.coverage
    d["name"] = sc.name
    d["instname"] = getattr(sc, "instname", None)
    return d, None


def parse_text(txt):
    """text report -> list of type dicts with 'inst' lists, same keys as scope_items"""
    types = []
    cur = None
    item = None
    section = None
    for line in txt.splitlines():
        s = line.strip()
        if not s:
            continue
        m = re.match(r"^(TYPE|INST|CVP|CROSS) (.*) : ([0-9.]+)%$", s)
        if m:
            kind, name, pct = m.group(1), m.group(2), float(m.group(3))
            if kind == "TYPE":
                cur = {"name": name, "%": pct, "inst": [], "ncp": 0, "ncr": 0}
                types.append(cur)
                scope = cur
            elif kind == "INST":
                scope = {"name": name, "%": pct, "ncp": 0, "ncr": 0}
                types[-1]["inst"].append(scope)
                cur = scope
            elif kind == "CVP":
                item = name
                cur[item] = []
                cur[item + ".ig"] = []
                cur[item + ".il"] = []
                cur[item + "%"] = pct
                cur["ncp"] += 1
                section = item
            else:
                item = name
                cur[item] = []
                cur[item + "%"] = pct
                cur["ncr"] += 1
                section = item
            continue
        if s == "Bins:":
            section = item
            continue
        if s == "IgnoreBins:":
            section = item + ".ig"
            continue
        if s == "IllegalBins:":
            section = item + ".il"
            continue
        m = re.match(r"^(.*) : (\d+)$", s)
        if m and cur is not None and section is not None:
            cur[section].append((m.group(1), int(m.group(2))))
    return types


def compare_scope(got, exp_hits, names, has_cross, what, counts_only_names=True):
    keys = ["cp1", "cp1.ig", "cp1.il", "cp2", "cp2.ig", "cp2.il"] + (["x0"] if has_cross else [])
    for k in keys:
        exp = list(zip(names[k], exp_hits[k]))
        if list(got.get(k, [])) != exp:
            return "%s: %s bins reported %s, in memory %s" % (what, k, got.get(k), exp)
    return None


def run_case(case):
    vsc = import_vsc()
    cg = case["cg"]
    has_cross = bool(cg.get("crosses"))
    reset_library()
    try:
        ns = cov.build([cg, dict(cg, name="CGB")])
    except Exception as e:
        reset_library()
        return [V("library_exception", "construction: " + exc_sig(e), case, repr(e)[:200])], {}
    model = Model(case)
    objs = []
    inst_names = []
    cls_of_inst = []
    info = {"reports": 0, "mid_report": False, "excl_hits": False}
    tmpd = None
    try:
        for step, op in enumerate(case["ops"]):
            where = "step %d %s" % (step, cjson(op))
            try:
                if op[0] == "new":
                    v = case["variants"][op[1]]
                    cls_i = op[2] if len(op) > 2 else 0
                    o = ns["CGB" if cls_i else "CG"](v[0], v[1])
                    if case["named"]:
                        # numbered per covergroup CLASS: instances of the two classes share names (inst0, inst1, ...);
                        # a name is unique among the instances of its own type only
                        k_ = len([1 for j_ in range(len(objs)) if cls_of_inst[j_] == cls_i])
                        o.set_name("inst%d" % k_)
                        inst_names.append("inst%d" % k_)
                    cls_of_inst.append(cls_i)
                    objs.append(o)
                    model.new(v, cls_i)
                    continue
                if op[0] == "sample":
                    objs[op[1]].sample(op[2], op[3])
                    model.sample(op[1], op[2], op[3])
                    continue
                if op[0] == "rename":
                    if case["named"] and op[1] < len(objs):
                        inst_names[op[1]] = "inst%d_r%d" % (op[1], op[2])
                        objs[op[1]].set_name(inst_names[op[1]])
                        info["renames"] = info.get("renames", 0) + 1
                    continue
                # ---- report point
                before = snapshot(objs, has_cross)
                kind = op[1]
                if kind == "model":
                    rep = vsc.get_coverage_report_model()
                    types = []
                    for t in rep.covergroups:
                        d, err = scope_items(t, has_cross)
                        if err:
                            return [V("report_structure", "report model", case, "%s: type scope: %s" % (where, err))], info
                        d["inst"] = []
                        for s in t.covergroups:
                            di, err = scope_items(s, has_cross)
                            if err:
                                return [V("report_structure", "report model", case, "%s: instance scope: %s" % (where, err))], info
                            d["inst"].append(di)
                        types.append(d)
                elif kind == "text":
                    txt = vsc.get_coverage_report(details=True)
                    types = parse_text(txt)
                else:
                    tmpd = tempfile.mkdtemp(prefix="pvs_c13_")
                    fn = os.path.join(tmpd, "cov.xml")
                    vsc.write_coverage_db(fn)
                    from ucis.xml.xml_factory import XmlFactory
                    from ucis.report.coverage_report_builder import CoverageReportBuilder
                    db = XmlFactory.read(fn)
                    rep = CoverageReportBuilder.build(db)
                    types = []
                    for t in rep.covergroups:
                        d, err = scope_items(t, has_cross)
                        if err:
                            return [V("report_structure", "xml read-back", case, "%s: type scope: %s" % (where, err))], info
                        d["inst"] = []
                        for s in t.covergroups:
                            di, err = scope_items(s, has_cross)
                            if err:
                                return [V("report_structure", "xml read-back", case, "%s: instance scope: %s" % (where, err))], info
                            d["inst"].append(di)
                        types.append(d)
                    shutil.rmtree(tmpd, ignore_errors=True)
                    tmpd = None
                after = snapshot(objs, has_cross)
            except Exception as e:
                reset_library()
                return [V("library_exception", "%s: %s" % (op[0] + ":" + str(op[1]) if op[0] == "report" else op[0], exc_sig(e)),
                          case, "%s raised %r" % (where, e))], info
            info["reports"] += 1
            if step < len(case["ops"]) - 1:
                info["mid_report"] = True
            if before != after:
                return [V("state_changed", "reporting/saving altered coverage state (%s)" % kind, case, where)], info
            shapes = model.shapes()
            if len(types) != len(shapes):
                return [V("report_structure", "number of covergroup types (%s)" % kind, case,
                          "%s: %d types reported, %d shapes in memory" % (where, len(types), len(shapes)))], info
            for (shape, idxs), t in zip(shapes, types):
                seen_names = set()       # (instance names are unique within their type)
                cm = objs[idxs[0]].get_model()
                names = lib_names(cm, has_cross)
                th = model.summed(idxs)
                if any(sum(th[k]) for k in ("cp1.ig", "cp1.il", "cp2.ig", "cp2.il")):
                    info["excl_hits"] = True
                err = compare_scope(t, th, names, has_cross, "type %r" % t.get("name"))
                if err:
                    return [V("report_content", "type scope (%s)" % kind, case, "%s: %s" % (where, err))], info
                if len(t["inst"]) != len(idxs):
                    return [V("report_structure", "number of instances of a type (%s)" % kind, case,
                              "%s: %d instances reported, %d in memory" % (where, len(t["inst"]), len(idxs)))], info
                for i, s in zip(idxs, t["inst"]):
                    err = compare_scope(s, model.inst[i]["h"], lib_names(objs[i].get_model(), has_cross), has_cross,
                                        "instance %d (%r)" % (i, s.get("name")))
                    if err:
                        return [V("report_content", "instance scope (%s)" % kind, case, "%s: %s" % (where, err))], info
                    nm = s.get("name")
                    if nm in seen_names:
                        return [V("report_structure", "duplicate instance name (%s)" % kind, case, "%s: %r" % (where, nm))], info
                    seen_names.add(nm)
                    if case["named"] and nm != inst_names[i]:
                        return [V("report_content", "instance name (%s)" % kind, case,
                                  "%s: instance %d reported as %r" % (where, i, nm))], info
                # percentages (not for the XML read-back: PyUCIS arithmetic)
                if kind != "xml":
                    tol = 1e-3 if kind == "model" else 0.006
                    o0 = objs[idxs[0]]
                    pairs = [("TYPE", t["%"], o0.get_coverage())]
                    tm = o0.get_model().type_cg
                    pairs.append(("TYPE cp1", t["cp1%"], tm.coverpoint_l[0].get_inst_coverage()))
                    pairs.append(("TYPE cp2", t["cp2%"], tm.coverpoint_l[1].get_inst_coverage()))
                    if has_cross:
                        pairs.append(("TYPE x0", t["x0%"], tm.cross_l[0].get_coverage()))
                    for i in idxs:
                        # get_coverage() of a coverpoint, asked of any instance, is the figure of the type
                        pairs.append(("TYPE cp1", t["cp1%"], objs[i].cp1.get_coverage()))
                        pairs.append(("TYPE cp2", t["cp2%"], objs[i].cp2.get_coverage()))
                    for i, s in zip(idxs, t["inst"]):
                        pairs.append(("INST %d" % i, s["%"], objs[i].get_inst_coverage()))
                        pairs.append(("INST %d cp1" % i, s["cp1%"], objs[i].cp1.get_inst_coverage()))
                        pairs.append(("INST %d cp2" % i, s["cp2%"], objs[i].cp2.get_inst_coverage()))
                        if has_cross:
                            pairs.append(("INST %d x0" % i, s["x0%"], objs[i].x0.get_coverage()))
                    for what, rp, api in pairs:
                        if abs(rp - api) > tol:
                            return [V("report_percentage", "%s (%s)" % (what.split(" ")[0] + (" " + what.split(" ")[-1] if what.split(" ")[-1].startswith(("cp", "x")) else ""), kind),
                                      case, "%s: %s reported %.4f%%, API %.4f%%" % (where, what, rp, api))], info
    finally:
        if tmpd:
            shutil.rmtree(tmpd, ignore_errors=True)
    info["ninst"] = len(objs)
    return [], info


def body(case, acc):
    vios, info = run_case(case)
    nt = info.get("excl_hits") and info.get("ninst", 0) >= 2 and info.get("mid_report") and info.get("reports", 0) >= 2
    acc.case(case, bool(nt), sample=text_of(case))
    for op in case["ops"]:
        if op[0] == "report":
            acc.label("report:" + op[1])
    acc.label("named instances" if case["named"] else "default instance names")
    if case["cg"].get("crosses"):
        acc.label("has cross")
    if pred_cross_weight(case):
        acc.label("known-finding shape: cross weight != 1")
    return vios


def shards(tier):
    per = 120 if tier == "quick" else 4000
    return [{"i": i, "n": per} for i in range(16)]


def run_shard(spec, seed, tier, acc):
    hyp.drive(cases(), body, seed, spec["n"], acc)


def replay(case):
    return run_case(case)[0]
