"""C08 - constraints reach through the object hierarchy to exactly the fields they name."""
from ..core import hyp, findings
from ..core.util import reset_library, cjson, exc_sig
from ..model import sem, gen, flat, render, tree

PROPERTY = "C08"
LEVEL = "exploration"
RULE = ("cases = generated object trees (depth <= 3, fan-out <= 3: rand_attr and attr sub-objects, several sub-objects of "
        "one class, random and non-random lists of objects) with own-field blocks on every class, cross-level blocks "
        "through attribute paths and list indices, distinguishing constraints on structurally identical siblings, current "
        "values that violate the own blocks of non-random sub-objects, and an optional inline block; the tree is flattened "
        "to path -> value and judged by the reference: a sub-object's own blocks are in force iff it and all its ancestors "
        "are random in the call, fields below a non-random sub-object are constants.  Oracle: free draws in the enumerated "
        "S_ref and SolveFailure iff empty; pinned probes (members, single-violation witnesses per flattened statement, "
        "non-members); a 'segmented' sub-domain interleaves calls on the top object with calls made directly on its "
        "random / non-random sub-objects (own block: foreach with if/else over own fields), list growth and assignments, "
        "and judges every call against the blocks of exactly the objects random in it.  non-trivial = two structurally identical siblings with different parent-level constraints or a "
        "non-random sub-object whose own block is violated by its current values, and a call returned; distinct = distinct "
        "canonical case")
ASSUMPTIONS = [
    "constraints name only fields of a list's declared element class; elements may be instances of subclasses that add fields",
    "rand_mode of composite sub-objects is not driven",
]


@hyp.composite
def cases(d):
    prog = tree.gen_tree(d, lists=True)
    types, stmts, ns = tree.flatten(prog)
    allf = [dict(f, name=k) for k, f in types.items()]
    inline = None
    if d.chance(35):
        g = gen.G(d, allf, {}, mul_max_w=3)
        inline = [g.field_stmt(0) for _ in range(d.randint(1, 2))]
    calls = [{"kind": d.choice(["randomize", "randomize_with", "vsc.randomize", "randomize"]), "seed": d.seed()}
             for _ in range(d.randint(1, 3))]
    return {"prog": prog, "inline": inline, "calls": calls, "sel": [d.randint(0, 1 << 16) for _ in range(8)], "pseed": d.seed()}


@hyp.composite
def subclass_cases(d):
    """object list whose elements are the declared class or a subclass that adds a field (labelled class)"""
    names = d.sample(["a", "b", "c", "m", "z"], 3)
    base_f = [{"name": n, "kind": "bit", "w": 3, "signed": False, "rand": True, "init": 0} for n in sorted(names[:2])]
    extra = {"name": names[2], "kind": "bit", "w": 3, "signed": False, "rand": True, "init": 0}
    classes = [{"name": "E", "fields": base_f, "blocks": []},
               {"name": "E2", "base": "E", "fields": [extra], "blocks": []}]
    elems = [d.choice(["E", "E2"]) for _ in range(d.randint(1, 3))]
    if "E2" not in elems:
        elems[d.randint(0, len(elems) - 1)] = "E2"
    top = {"name": "Top", "fields": [{"name": "t", "kind": "bit", "w": 3, "signed": False, "rand": True, "init": 0}],
           "objlists": [{"name": "arr", "cls": "E", "mode": "rand", "elems": elems}], "blocks": []}
    prog = {"enums": {}, "classes": classes + [top], "top": "Top"}
    stm = []
    for _ in range(d.randint(1, 3)):
        i = d.randint(0, len(elems) - 1)
        f = d.choice(base_f)["name"]            # only fields of the declared element class are referenced
        r = d.randint(0, 99)
        if r < 50:
            stm.append(["expr", ["bin", "==", ["f", "arr[%d].%s" % (i, f)], ["lit", d.randint(0, 7)]]])
        elif r < 80:
            stm.append(["expr", ["bin", d.choice(["<", ">", "!="]), ["f", "arr[%d].%s" % (i, f)], ["f", "t"]]])
        else:
            j = d.randint(0, len(elems) - 1)
            stm.append(["expr", ["bin", "!=", ["f", "arr[%d].%s" % (i, f)], ["f", "arr[%d].%s" % (j, d.choice(base_f)["name"])]]])
    top["blocks"].append({"name": "c0", "stmts": stm})
    return {"prog": prog, "inline": None, "calls": [{"kind": "randomize", "seed": d.seed()}],
            "sel": [d.randint(0, 1 << 16) for _ in range(8)], "pseed": d.seed(), "subclass": True}



# ------------------------------------------------------------------------------------------------
# sub-domain: lists of objects that hold lists of objects (ragged sizes), reached through foreach indices,
# and a subscript whose index is a non-random field that changes between calls
NESTED_SRC = '''
@vsc.randobj
class M(object):
    def __init__(self):
        self.y = vsc.rand_bit_t(2)

@vsc.randobj
class G(object):
    def __init__(self, n=0):
        self.lim = vsc.rand_bit_t(3)
        self.mode = vsc.bit_t(1)
        self.members = vsc.rand_list_t(M())
        for _ in range(n):
            self.members.append(M())
    @vsc.constraint
    def gc(self):
        self.lim > 0

@vsc.randobj
class Cfg(object):
    def __init__(self):
        self.mode = vsc.bit_t(1)

@vsc.randobj
class Top(object):
    def __init__(self, sizes):
        self.sel = vsc.bit_t(2)
        self.t = vsc.rand_bit_t(2)
        self.groups = vsc.rand_list_t(G())
        self.cfgs = vsc.list_t(Cfg())
        for n in sizes:
            self.groups.append(G(n))
            self.cfgs.append(Cfg())
    @vsc.constraint
    def c0(self):
%s
'''

NESTED_FORMS = {
    "A": ["        with vsc.foreach(self.groups, idx=True) as i:",
          "            with vsc.foreach(self.groups[i].members, idx=True) as j:",
          "                self.groups[i].members[j].y %(op)s self.groups[i].lim"],
    "B": ["        with vsc.foreach(self.groups, idx=True) as i:",
          "            self.groups[i].lim != self.t"],
    "C": ["        self.groups[self.sel].lim == %(k)d"],
    "D": ["        with vsc.foreach(self.groups, idx=True) as i:",
          "            with vsc.if_then(self.groups[i].mode == 1):",
          "                self.groups[i].lim < 3",
          "            with vsc.else_then:",
          "                self.groups[i].lim > 4"],
    "D2": ["        with vsc.foreach(self.cfgs, idx=True) as i:",
           "            with vsc.if_then(self.cfgs[i].mode == 1):",
           "                self.groups[i].lim < 3",
           "            with vsc.else_then:",
           "                self.groups[i].lim > 4"],
    "E": ["        with vsc.foreach(self.groups, idx=True) as i:",
          "            with vsc.foreach(self.groups[i].members, idx=True) as j:",
          "                self.groups[i].members[j].y != j"],
    "F": ["        with vsc.foreach(self.groups) as g:",
          "            g.lim != %(k)d"],
}


@hyp.composite
def nested_cases(d):
    sizes = d.choice([[1, 2], [2, 1], [0, 2], [2, 0], [1, 1], [0, 3], [3, 0], [1, 0, 1], [0, 1, 1], [2, 0, 0], [0, 0, 2]])
    forms = d.sample(["A", "B", "C", "D", "D2", "E", "F"], d.randint(1, 3))
    if "D" in forms and "D2" in forms:
        forms.remove("D")
    ops = [["call", d.seed()]]
    for _ in range(d.randint(1, 4)):
        r = d.randint(0, 99)
        if r < 35:
            ops.append(["sel", d.randint(0, len(sizes) - 1)])
        elif r < 50:
            ops.append(["mode", d.randint(0, len(sizes) - 1), d.randint(0, 1)])
        else:
            ops.append(["call", d.seed()])
    ops.append(["call", d.seed()])
    return {"nested": True, "sizes": sizes, "forms": sorted(forms), "op": d.choice(["<", "<=", "!="]), "k": d.randint(1, 5),
            "modes": [d.randint(0, 1) for _ in sizes], "ops": ops}


def nested_source(case):
    lines = []
    for f in case["forms"]:
        lines += [l % {"op": case["op"], "k": case["k"]} for l in NESTED_FORMS[f]]
    return NESTED_SRC % "\n".join(lines)


def nested_reference(case, sel, modes):
    """flattened statements over keys t, g<i>.lim, g<i>.m<j>.y"""
    F = lambda k: ["f", k]
    st = []
    sizes = case["sizes"]
    for i, n in enumerate(sizes):
        st.append(["expr", ["bin", ">", F("g%d.lim" % i), ["lit", 0]]])
    for f in case["forms"]:
        for i, n in enumerate(sizes):
            if f == "A":
                for j in range(n):
                    st.append(["expr", ["bin", case["op"], F("g%d.m%d.y" % (i, j)), F("g%d.lim" % i)]])
            elif f == "B":
                st.append(["expr", ["bin", "!=", F("g%d.lim" % i), F("t")]])
            elif f in ("D", "D2"):
                st.append(["expr", ["bin", "<", F("g%d.lim" % i), ["lit", 3]]] if modes[i] == 1
                          else ["expr", ["bin", ">", F("g%d.lim" % i), ["lit", 4]]])
            elif f == "E":
                for j in range(n):
                    st.append(["expr", ["bin", "!=", F("g%d.m%d.y" % (i, j)), ["lit", j]]])
            elif f == "F":
                st.append(["expr", ["bin", "!=", F("g%d.lim" % i), ["lit", case["k"]]]])
        if f == "C":
            st.append(["expr", ["bin", "==", F("g%d.lim" % sel), ["lit", case["k"]]]])
    return st


def run_nested(case):
    from ..core.util import import_vsc
    import enum as _enum
    vsc = import_vsc()
    info = {"returned": 0}
    sizes = case["sizes"]
    types = {"t": {"name": "t", "kind": "bit", "w": 2, "signed": False, "rand": True}}
    for i, n in enumerate(sizes):
        types["g%d.lim" % i] = {"name": "g%d.lim" % i, "kind": "bit", "w": 3, "signed": False, "rand": True}
        for j in range(n):
            types["g%d.m%d.y" % (i, j)] = {"name": "g%d.m%d.y" % (i, j), "kind": "bit", "w": 2, "signed": False, "rand": True}
    rf = list(types.values())
    names = [f["name"] for f in rf]
    src = nested_source(case)
    text = src + "# Top(%s); modes %s; ops %s" % (sizes, case["modes"], cjson(case["ops"]))

    def Vn(kind, detail, extra):
        return {"property": PROPERTY, "kind": kind, "detail": detail, "case": case, "text": text + "\n# " + extra}
    reset_library()
    try:
        ns = {"vsc": vsc, "enum": _enum}
        exec(compile(src, "<pvs-c08-nested>", "exec"), ns)
        top = ns["Top"](sizes)
        modes = list(case["modes"])
        for i, m in enumerate(modes):
            top.groups[i].mode = m
            top.cfgs[i].mode = m
        sel = 0
        top.sel = 0
    except Exception as e:
        reset_library()
        return [Vn("library_exception", "construction: " + exc_sig(e), repr(e)[:300])], info
    for step, op in enumerate(case["ops"]):
        if op[0] == "sel":
            sel = op[1]
            top.sel = sel
            continue
        if op[0] == "mode":
            modes[op[1]] = op[2]
            top.groups[op[1]].mode = op[2]
            top.cfgs[op[1]].mode = op[2]
            continue
        stmts = nested_reference(case, sel, modes)
        r = flat.enumerate_solutions(types, rf, {}, stmts, limit=1 << 15)
        if r is None:
            return [], info
        allv, sols = r
        st, exc = flat.do_call(ns, top, "randomize", None, op[1])
        where = "step %d randomize(seed=%d) with sel=%d modes=%s" % (step, op[1], sel, modes)
        if st == "exc":
            reset_library()
            return [Vn("library_exception", "nested lists: " + exc.sig, where + " raised %r" % (exc,))], info
        if st == "sf":
            if sols:
                return [Vn("spurious_solve_failure", "nested lists", where + ": %d solutions exist" % len(sols))], info
            continue
        info["returned"] += 1
        env = {"t": int(top.t)}
        for i, n in enumerate(sizes):
            env["g%d.lim" % i] = int(top.groups[i].lim)
            if int(top.groups[i].mode) != modes[i]:
                return [Vn("constant_changed", "mode", where)], info
            for j in range(n):
                env["g%d.m%d.y" % (i, j)] = int(top.groups[i].members[j].y)
        if not sols:
            return [Vn("returned_on_unsat", "nested lists", where + " returned %s" % cjson(env))], info
        if tuple(env[n_] for n_ in names) not in set(sols):
            bad = sem.first_false(stmts, types, env)
            return [Vn("wrong_field_reached", "a constraint reaching through nested object lists does not hold on the element its indices name",
                       where + " returned %s; flattened statement #%s %s is false" % (cjson(env), bad, cjson(stmts[bad]) if bad is not None else ""))], info
    info["ragged"] = len(set(sizes)) > 1
    return [], info




# ------------------------------------------------------------------------------------------------
# sub-domain: segmented randomization - calls on the top object interleaved with calls made directly on one of its
# sub-objects (random or non-random in the parent), whose own block holds a foreach with an if/else on its own fields
SEG_SRC = """
@vsc.randobj
class Cfg(object):
    def __init__(self, n):
        self.mode = vsc.rand_bit_t(1)
        self.lim = vsc.bit_t(3)
        self.vals = vsc.rand_list_t(vsc.bit_t(3), sz=n)
    @vsc.constraint
    def cc(self):
%s

@vsc.randobj
class Top(object):
    def __init__(self, n0, n1):
        self.t = vsc.rand_bit_t(2)
        self.cfg = vsc.attr(Cfg(n0))
        self.rc = vsc.rand_attr(Cfg(n1))
    @vsc.constraint
    def c0(self):
        self.t != self.rc.mode
"""

SEG_FORMS = {
    "F1": (["        with vsc.foreach(self.vals, idx=True) as i:",
            "            self.vals[i] <= self.lim"],
           [["foreach", "vals", "i", None, [["expr", ["bin", "<=", ["el", "vals", ["iv", "i"], None], ["f", "lim"]]]]]]),
    "F2": (["        with vsc.foreach(self.vals, idx=True) as i:",
            "            with vsc.if_then(self.mode == 1):",
            "                self.vals[i] < 3",
            "            with vsc.else_then:",
            "                self.vals[i] > 4"],
           [["foreach", "vals", "i", None, [["if", [[["bin", "==", ["f", "mode"], ["lit", 1]],
                                                     [["expr", ["bin", "<", ["el", "vals", ["iv", "i"], None], ["lit", 3]]]]]],
                                             [["expr", ["bin", ">", ["el", "vals", ["iv", "i"], None], ["lit", 4]]]]]]]]),
    "F3": (["        with vsc.foreach(self.vals, idx=True) as i:",
            "            self.vals[i] != i"],
           [["foreach", "vals", "i", None, [["expr", ["bin", "!=", ["el", "vals", ["iv", "i"], None], ["iv", "i"]]]]]]),
}


@hyp.composite
def segmented_cases(d):
    forms = sorted(d.sample(["F1", "F2", "F3"], d.randint(1, 2)))
    ops = [["call", "top", d.seed()]]
    for _ in range(d.randint(2, 7)):
        r = d.randint(0, 99)
        if r < 55:
            ops.append(["call", d.choice(["top", "cfg", "rc", "cfg"]), d.seed()])
        elif r < 70:
            ops.append(["append", d.choice(["cfg", "rc"]), d.randint(0, 7)])
        elif r < 85:
            ops.append(["set", d.choice(["cfg.mode", "rc.mode"]), d.randint(0, 1)])
        else:
            ops.append(["set", d.choice(["cfg.lim", "rc.lim"]), d.randint(0, 7)])
    ops.append(["call", d.choice(["cfg", "rc"]), d.seed()])
    return {"segmented": True, "forms": forms, "sizes": [d.randint(1, 2), d.randint(1, 2)], "lims": [d.randint(2, 7), d.randint(2, 7)], "ops": ops}


def seg_source(case):
    lines = []
    for f in case["forms"]:
        lines += SEG_FORMS[f][0]
    return SEG_SRC % "\n".join(lines)


def run_segmented(case):
    from ..core.util import import_vsc
    import enum as _enum
    vsc = import_vsc()
    info = {"returned": 0, "direct_after_parent": 0}
    if not case.get("forms") or any(f not in SEG_FORMS for f in case["forms"]):
        return [], info
    src = seg_source(case)
    text = src + "# Top(%d, %d); lims %s; ops %s" % (case["sizes"][0], case["sizes"][1], case["lims"], cjson(case["ops"]))

    def Vs(kind, detail, extra):
        return {"property": PROPERTY, "kind": kind, "detail": detail, "case": case, "text": text + "\n# " + extra}
    reset_library()
    try:
        ns = {"vsc": vsc, "enum": _enum}
        exec(compile(src, "<pvs-c08-seg>", "exec"), ns)
        top = ns["Top"](case["sizes"][0], case["sizes"][1])
        top.cfg.lim, top.rc.lim = case["lims"]
    except Exception as e:
        reset_library()
        return [Vs("library_exception", "construction: " + exc_sig(e), repr(e)[:300])], info
    subs = {"cfg": top.cfg, "rc": top.rc}
    # model: current values
    val = {"t": 0}
    for sname, n, lim in (("cfg", case["sizes"][0], case["lims"][0]), ("rc", case["sizes"][1], case["lims"][1])):
        val[sname + ".mode"] = 0
        val[sname + ".lim"] = lim
        val["#" + sname + ".vals"] = n
        for j in range(n):
            val["%s.vals[%d]" % (sname, j)] = 0
    elem_t = {"kind": "bit", "w": 3, "signed": False}
    block = [s_ for f in case["forms"] for s_ in SEG_FORMS[f][1]]

    def read_all():
        out = {"t": int(top.t)}
        for sname, o in subs.items():
            out[sname + ".mode"] = int(o.mode)
            out[sname + ".lim"] = int(o.lim)
            vs = [int(x) for x in o.vals]
            out["#" + sname + ".vals"] = len(vs)
            for j, v in enumerate(vs):
                out["%s.vals[%d]" % (sname, j)] = v
        return out
    last_target = None
    for step, op in enumerate(case["ops"]):
        where = "step %d %s" % (step, cjson(op))
        try:
            if op[0] == "append":
                n = val["#" + op[1] + ".vals"]
                if n >= 3:
                    continue
                subs[op[1]].vals.append(op[2])
                val["%s.vals[%d]" % (op[1], n)] = op[2]
                val["#" + op[1] + ".vals"] = n + 1
                continue
            if op[0] == "set":
                sname, fname = op[1].split(".")
                setattr(subs[sname], fname, op[2])
                val[op[1]] = op[2]
                continue
        except Exception as e:
            reset_library()
            return [Vs("library_exception", "%s: %s" % (op[0], exc_sig(e)), where + " raised %r" % (e,))], info
        target = op[1]
        if target == "top":
            rnd_subs, stmts = ["rc"], [["expr", ["bin", "!=", ["f", "t"], ["f", "rc.mode"]]]]
            rnames = ["t"]
        else:
            rnd_subs, stmts, rnames = [target], [], []
        types = {"t": {"name": "t", "kind": "bit", "w": 2, "signed": False, "rand": True}}
        for sname in ("cfg", "rc"):
            types[sname + ".mode"] = {"name": sname + ".mode", "kind": "bit", "w": 1, "signed": False, "rand": True}
            types[sname + ".lim"] = {"name": sname + ".lim", "kind": "bit", "w": 3, "signed": False, "rand": False}
            types[sname + ".vals[]"] = elem_t
            for j in range(val["#" + sname + ".vals"]):
                k = "%s.vals[%d]" % (sname, j)
                types[k] = dict(elem_t, name=k, rand=True)
        for sname in rnd_subs:
            stmts = stmts + [sem.prefix_stmt(s_, sname + ".") for s_ in block]
            rnames += [sname + ".mode"] + ["%s.vals[%d]" % (sname, j) for j in range(val["#" + sname + ".vals"])]
        rf = [types[n_] for n_ in rnames]
        r = flat.enumerate_solutions(types, rf, dict(val), stmts, limit=1 << 13)
        if r is None:
            return [], info
        allv, sols = r
        obj = top if target == "top" else subs[target]
        st, exc = flat.do_call(ns, obj, "randomize", None, op[2])
        if st == "exc":
            reset_library()
            return [Vs("library_exception", "segmented: " + exc.sig, where + " raised %r" % (exc,))], info
        now = read_all()
        for k, v in val.items():
            if k not in rnames and now.get(k) != v:
                return [Vs("constant_changed", "a field that is not random in a call made on %s changed" % ("the top object" if target == "top" else "a sub-object"),
                           where + ": %s changed from %s to %s" % (k, v, now.get(k)))], info
        if target != "top" and last_target == "top":
            info["direct_after_parent"] += 1
        last_target = target
        if st == "sf":
            if sols:
                return [Vs("spurious_solve_failure", "segmented", where + ": %d solutions exist; state %s" % (len(sols), cjson(val)))], info
            for k in rnames:
                val[k] = now[k]
            continue
        info["returned"] += 1
        if not sols:
            return [Vs("returned_on_unsat", "segmented", where + " returned %s" % cjson(now))], info
        got = tuple(now[n_] for n_ in rnames)
        if got not in set(sols):
            return [Vs("own_block_not_enforced", "a call made directly on a sub-object (or on its parent) does not enforce exactly the blocks of the objects random in it",
                       where + " returned %s (state before the call %s)" % (cjson({n_: now[n_] for n_ in rnames}), cjson(val)))], info
        for k in rnames:
            val[k] = now[k]
    return [], info




# ------------------------------------------------------------------------------------------------
# sub-domain: a field two levels below a list element (chans[i].cfg.mode / it.cfg.mode) where the elements' sub-objects
# have different layouts (a derived class adds a field whose name sorts before or after the inherited ones)
SUBSUB_SRC = """
@vsc.randobj
class Cfg(object):
    def __init__(self):
        self.mode = vsc.rand_bit_t(3)
        self.size = vsc.rand_bit_t(3)

@vsc.randobj
class Cfg2(Cfg):
    def __init__(self):
        super().__init__()
        self.%(extra)s = vsc.rand_bit_t(3)

@vsc.randobj
class Chan(object):
    def __init__(self, c):
        self.cfg = vsc.rand_attr(c())
        self.x = vsc.rand_bit_t(2)

@vsc.randobj
class Top(object):
    def __init__(self, kinds):
        self.lim = vsc.rand_bit_t(3)
        self.chans = vsc.rand_list_t(Chan(Cfg))
        for k in kinds:
            self.chans.append(Chan(Cfg2 if k else Cfg))
    @vsc.constraint
    def c0(self):
%(body)s
"""
SUBSUB_OPS = {"<": lambda a, b: a < b, "<=": lambda a, b: a <= b, ">": lambda a, b: a > b, ">=": lambda a, b: a >= b, "!=": lambda a, b: a != b}


@hyp.composite
def subsub_cases(d):
    kinds = [d.randint(0, 1) for _ in range(d.randint(1, 4))]
    if 1 not in kinds:
        kinds[d.randint(0, len(kinds) - 1)] = 1
    return {"subsub": True, "kinds": kinds, "extra": d.choice(["burst", "aa", "n", "zz", "a0"]), "form": d.choice(["idx", "it", "const"]),
            "op": d.choice(["<", "<=", ">", ">=", "!="]), "k": d.randint(1, 6), "calls": [d.seed() for _ in range(d.randint(1, 3))]}


def subsub_source(case):
    if case["form"] == "idx":
        body = ["        with vsc.foreach(self.chans, idx=True) as i:",
                "            self.chans[i].cfg.mode == self.lim",
                "            self.chans[i].cfg.size %s %d" % (case["op"], case["k"])]
    elif case["form"] == "it":
        body = ["        with vsc.foreach(self.chans) as it:",
                "            it.cfg.mode == self.lim",
                "            it.cfg.size %s %d" % (case["op"], case["k"])]
    else:
        body = []
        for i in range(len(case["kinds"])):
            body += ["        self.chans[%d].cfg.mode == self.lim" % i, "        self.chans[%d].cfg.size %s %d" % (i, case["op"], case["k"])]
    return SUBSUB_SRC % {"extra": case["extra"], "body": "\n".join(body)}


def run_subsub(case):
    from ..core.util import import_vsc
    import enum as _enum
    vsc = import_vsc()
    info = {"returned": 0}
    if case.get("op") not in SUBSUB_OPS or case.get("form") not in ("idx", "it", "const") or not case.get("kinds"):
        return [], info
    src = subsub_source(case)
    text = src + "# Top(kinds=%s); calls %s" % (case["kinds"], case["calls"])

    def Vs(kind, detail, extra):
        return {"property": PROPERTY, "kind": kind, "detail": detail, "case": case, "text": text + "\n# " + extra}
    reset_library()
    try:
        ns = {"vsc": vsc, "enum": _enum}
        exec(compile(src, "<pvs-c08-subsub>", "exec"), ns)
        top = ns["Top"](case["kinds"])
    except Exception as e:
        reset_library()
        return [Vs("library_exception", "construction: " + exc_sig(e), repr(e)[:300])], info
    op = SUBSUB_OPS[case["op"]]
    for seed in case["calls"]:
        st, exc = flat.do_call(ns, top, "randomize", None, seed)
        where = "randomize(seed=%d)" % seed
        if st == "exc":
            reset_library()
            return [Vs("library_exception", "two-level path below a list element: " + exc.sig, where + " raised %r" % (exc,))], info
        if st == "sf":
            return [Vs("spurious_solve_failure", "two-level path below a list element", where + ": mode == lim and size %s %d are satisfiable" % (case["op"], case["k"]))], info
        info["returned"] += 1
        lim = int(top.lim)
        for i, ch in enumerate(top.chans):
            if int(ch.cfg.mode) != lim or not op(int(ch.cfg.size), case["k"]):
                return [Vs("wrong_field_reached", "a constraint on a field two levels below a list element landed on another field of that sub-object",
                           where + ": chans[%d].cfg (%s): mode=%d size=%d%s; lim=%d, constraint: mode == lim, size %s %d"
                           % (i, "Cfg2" if case["kinds"][i] else "Cfg", int(ch.cfg.mode), int(ch.cfg.size),
                              (" %s=%d" % (case["extra"], int(getattr(ch.cfg, case["extra"])))) if case["kinds"][i] else "", lim, case["op"], case["k"]))], info
    return [], info


def text_of(case):
    src = render.program_source(case["prog"]) + "# top object: %s()" % case["prog"]["top"]
    types, _, _ = tree.flatten(case["prog"])
    src += "\n# initial values: %s" % cjson({k: f.get("init", 0) for k, f in types.items()})
    if case.get("inline"):
        src += "\n# inline (randomize_with):\n" + render.inline_source(case["inline"])
    return src


def V(kind, detail, case, extra=None):
    v = {"property": PROPERTY, "kind": kind, "detail": detail, "case": case, "text": text_of(case)}
    if extra:
        v["text"] += "\n# " + extra
    return v


def classify(prog, types, ns):
    """non-trivial structure flags"""
    flags = {"siblings": False, "nonrand_violated": False}
    for c in prog["classes"]:
        subs = c.get("subs", [])
        if len(subs) >= 2 and len(set(s["cls"] for s in subs)) < len(subs):
            flags["siblings"] = True
    env = {k: f.get("init", 0) for k, f in types.items()}
    for path, cname, rnd in ns:
        if not rnd:
            c = tree.class_by_name(prog, cname)
            for b in c.get("blocks", []):
                st = [sem.prefix_stmt(s, path) for s in b["stmts"]]
                try:
                    if not sem.all_hold(st, types, env):
                        flags["nonrand_violated"] = True
                except KeyError:
                    pass
    return flags


def run_case(case):
    if case.get("nested"):
        return run_nested(case)
    if case.get("segmented"):
        return run_segmented(case)
    if case.get("subsub"):
        return run_subsub(case)
    prog = case["prog"]
    try:
        types, stmts, ns_nodes = tree.flatten(prog)
    except Exception:
        return [], {}
    rf = [f for f in types.values() if f["rand"]]
    names = [f["name"] for f in rf]
    env0 = {k: f.get("init", 0) for k, f in types.items()}
    inline = case.get("inline") or []
    info = {"returned": 0}
    info.update(classify(prog, types, ns_nodes))
    reset_library()
    try:
        ns = tree.build(prog)
        obj = tree.instantiate(ns, prog)
    except Exception as e:
        reset_library()
        return [V("library_exception", "construction: " + exc_sig(e), case, repr(e)[:300])], info
    S = {}
    for wi in (False, True):
        if wi and not inline:
            continue
        r = flat.enumerate_solutions(types, rf, env0, stmts + (inline if wi else []), limit=1 << 12)
        if r is None:
            return [], info
        S[wi] = r

    def read():
        return tree.read(obj, types)

    for call in case["calls"]:
        kind = call["kind"]
        wi = kind.endswith("_with") and bool(inline)
        allv, sols = S[wi]
        st, exc = flat.do_call(ns, obj, kind, inline if kind.endswith("_with") else None, call["seed"])
        label = "%s(seed=%d)" % (kind, call["seed"])
        if st == "exc":
            reset_library()
            return [V("library_exception", "free draw: " + exc.sig, case, label + " raised %r" % (exc,))], info
        if st == "sf":
            if sols:
                return [V("spurious_solve_failure", "free draw", case, label + ": %d solutions exist" % len(sols))], info
            continue
        info["returned"] += 1
        env = read()
        if not sols:
            return [V("returned_on_unsat", "free draw", case, label + " returned %s" % cjson(env))], info
        for k, f in types.items():
            if not f["rand"] and env[k] != env0[k]:
                return [V("constant_changed", "a field below a non-random sub-object or a non-random field changed", case,
                          label + ": %s changed from %d to %d" % (k, env0[k], env[k]))], info
        got = tuple(env[n] for n in names)
        if got not in set(sols):
            bad = sem.first_false(stmts + (inline if wi else []), types, env)
            return [V("wrong_field_reached", "result violates a constraint evaluated on the named sub-object fields", case,
                      label + " returned %s; flattened statement #%s is false there" % (cjson({n: env[n] for n in names}), bad))], info
    # pinned probes
    if case.get("subclass"):
        # only fields of the declared element class can be named in constraints: no full-assignment pins here
        return [], info
    key = bool(inline)
    allv, sols = S[key]
    full = stmts + inline
    solset = set(sols)
    sel = list(case.get("sel") or [0]) * 8          # (the structural reducer may have shortened the list)
    probes = []
    for i in range(min(2, len(sols))):
        probes.append((sols[sel[i] % len(sols)], True, "member"))
    non = [v for v in allv if v not in solset]
    if non:
        env = dict(env0)
        c = sem.Ctx(types, env)
        per = {}
        for vals in non[:4000]:
            env.update(zip(names, vals))
            bad = [i for i, s in enumerate(full) if not sem.holds(s, c)]
            if len(bad) == 1:
                per.setdefault(bad[0], []).append(vals)
        for k, i in enumerate(sorted(per)):
            if k >= 4:
                break
            probes.append((per[i][sel[2 + k] % len(per[i])], False, "single-violation witness of flattened statement #%d" % i))
        probes.append((non[sel[6] % len(non)], False, "non-member"))
    prog_flat = {"enums": {}}
    for vals, member, label in probes:
        pins = flat.pin_stmts(prog_flat, rf, dict(zip(names, vals)))
        st, exc = flat.do_call(ns, obj, "randomize_with", inline + pins, case["pseed"])
        info["probes"] = info.get("probes", 0) + 1
        desc = "pin %s (%s)" % (cjson(dict(zip(names, vals))), label)
        if st == "exc":
            reset_library()
            return [V("library_exception", "pinned probe: " + exc.sig, case, desc + " raised %r" % (exc,))], info
        if st == "ret":
            env = read()
            if not member:
                return [V("pin_nonmember_returned", label.split(" #")[0], case, desc + " returned")], info
            if tuple(env[n] for n in names) != vals:
                return [V("pin_readback", "member", case, desc + " read back %s" % cjson({n: env[n] for n in names}))], info
        elif member:
            return [V("pin_member_rejected", "member", case, desc + " raised SolveFailure")], info
    return [], info


def body(case, acc):
    vios, info = run_case(case)
    if case.get("nested"):
        acc.case(case, bool(info.get("returned", 0) > 0 and info.get("ragged")), sample=nested_source(case))
        acc.label("nested object lists")
        for f in case["forms"]:
            acc.label("nested form " + f)
        return vios
    if case.get("subsub"):
        acc.case(case, bool(info.get("returned", 0) > 0 and 0 in case["kinds"] and 1 in case["kinds"]), sample=subsub_source(case))
        acc.label("two-level path below list elements with different sub-object layouts")
        acc.label("subsub form " + case["form"])
        return vios
    if case.get("segmented"):
        acc.case(case, bool(info.get("returned", 0) > 0 and info.get("direct_after_parent", 0) > 0), sample=seg_source(case))
        acc.label("segmented randomization (calls on sub-objects)")
        acc.label("direct call on a sub-object right after a call on its parent", info.get("direct_after_parent", 0))
        for f in case["forms"]:
            acc.label("segmented form " + f)
        return vios
    nt = info.get("returned", 0) > 0 and (info.get("siblings") or info.get("nonrand_violated"))
    acc.case(case, bool(nt), sample=text_of(case))
    prog = case["prog"]
    acc.label("classes:%d" % len(prog["classes"]))
    if info.get("siblings"):
        acc.label("identical siblings")
    if info.get("nonrand_violated"):
        acc.label("non-random sub-object with violated own block")
    if any(c.get("objlists") for c in prog["classes"]):
        acc.label("has object list")
    if case.get("subclass"):
        acc.label("list with subclass elements")
    acc.label("probes", info.get("probes", 0))
    return vios


def shards(tier):
    return [{"i": i, "n": 150 if tier == "quick" else 5000} for i in range(12)] + \
        [{"kind": "subclass", "i": 0, "n": 150 if tier == "quick" else 3000}] + \
        [{"kind": "nested", "i": i, "n": 40 if tier == "quick" else 2500} for i in range(3)] + \
        [{"kind": "segmented", "i": i, "n": 60 if tier == "quick" else 2500} for i in range(2)] + \
        [{"kind": "subsub", "i": 0, "n": 80 if tier == "quick" else 2500}]


def run_shard(spec, seed, tier, acc):
    strat = {"subclass": subclass_cases, "nested": nested_cases, "segmented": segmented_cases, "subsub": subsub_cases}.get(spec.get("kind"), cases)()
    hyp.drive(strat, body, seed, spec["n"], acc)


def replay(case):
    return run_case(case)[0]
