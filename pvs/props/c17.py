"""C17 - pre_randomize / post_randomize run once each, before and after the solve."""
from ..core import hyp
from ..core.util import reset_library, cjson, exc_sig
from ..model import sem, gen, flat, render, tree

PROPERTY = "C17"
LEVEL = "exploration"
RULE = ("cases = generated object trees (as C08: nested rand_attr/attr sub-objects, random and non-random object lists) in "
        "which every class defines pre_randomize and post_randomize that log (phase, object, own field values); "
        "pre_randomize of some classes writes a generated value into a non-random own field that constraints read; call "
        "kinds randomize, randomize_with, free-standing vsc.randomize(obj), 1-3 calls per case.  Oracle: per call the "
        "multiset of 'pre' events = multiset of 'post' events = exactly the objects that are random in the call (top "
        "object, random sub-objects, elements of random object lists; nothing at or below a non-random sub-object), each "
        "once (a sub-domain does the same on a cyclic object graph: an owner with a list of links that each hold the owner "
        "as rand_attr, calls on the owner or on a link); every pre precedes every post; the result satisfies the reference evaluated with the values written in "
        "pre_randomize; the values seen inside post_randomize equal the values read after the call.  non-trivial = the "
        "tree has a non-random sub-object with children or fields and an object list, and a call returned; distinct = "
        "distinct canonical case")
ASSUMPTIONS = [
    "on SolveFailure only the pre_randomize events are judged (they run before the solve)",
    "callbacks of the generated trees do not call randomize themselves; a separate sub-domain makes a nested call from pre_randomize of the top object (on its random sub-object or an unrelated object)",
]


@hyp.composite
def cases(d):
    prog = tree.gen_tree(d, max_rand_bits=10)
    writes = tree.add_callbacks(d, prog)
    # class hierarchies: for some classes the scalar fields live in a base randobj class WITHOUT callbacks and the
    # callbacks (and constraint blocks) are added by the derived randobj class
    newcls = []
    for c in prog["classes"]:
        if c["fields"] and d.chance(35):
            base = {"name": "B_" + c["name"], "fields": c["fields"], "blocks": []}
            if d.chance(30):
                # ... or the base defines only one of the two callbacks
                base["pre_randomize"] = c["pre_randomize"]
                c["pre_randomize"] = None
            c["fields"] = []
            c["base"] = base["name"]
            newcls.append(base)
        newcls.append(c)
    prog["classes"] = newcls
    types, stmts, ns = tree.flatten(prog)
    allf = [dict(f, name=k) for k, f in types.items()]
    inline = None
    if d.chance(30):
        g = gen.G(d, allf, {}, mul_max_w=3)
        inline = [g.field_stmt(0)]
    calls = [{"kind": d.choice(["randomize", "randomize_with", "vsc.randomize"]), "seed": d.seed()} for _ in range(d.randint(1, 3))]
    return {"prog": prog, "writes": {k: [list(w) for w in v] for k, v in writes.items()}, "inline": inline, "calls": calls}




# ------------------------------------------------------------------------------------------------
# sub-domain: object graphs with a cycle (an owner holds a list of link objects, every link holds the owner as a
# rand_attr - the shape of the repository's test_heterogenous_content): the recursion guard must still give every
# object of the graph exactly one pre and one post callback per call
CYCLIC_SRC = """
@vsc.randobj
class LinkBase(object):
    pass

@vsc.randobj
class Owner(object):
    def __init__(self):
        self.a = vsc.rand_bit_t(4)
        self.b = vsc.rand_bit_t(4)
        self.links = vsc.rand_list_t(LinkBase(), 0)
    def pre_randomize(self):
        _pvs_log.append(("pre", "owner", None))
    def post_randomize(self):
        _pvs_log.append(("post", "owner", (int(self.a), int(self.b))))
    @vsc.constraint
    def oc(self):
        self.a != self.b

@vsc.randobj
class Link(LinkBase):
    def __init__(self, ptr, idx, k):
        self.ptr = vsc.rand_attr(ptr)
        self.idx = idx
        self.k = vsc.bit_t(4)
        self.k = k
        self.x = vsc.rand_bit_t(3)
    def pre_randomize(self):
        _pvs_log.append(("pre", "link%d" % self.idx, None))
    def post_randomize(self):
        _pvs_log.append(("post", "link%d" % self.idx, (int(self.x),)))
    @vsc.constraint
    def lc(self):
        self.ptr.a <= self.k
        self.x != self.ptr.b[2:0]
"""


@hyp.composite
def cyclic_cases(d):
    n = d.randint(1, 3)
    return {"cyclic": True, "ks": [d.randint(3, 15) for _ in range(n)],
            "calls": [{"target": d.choice(["owner", "owner", "link"]), "idx": d.randint(0, n - 1), "seed": d.seed()}
                      for _ in range(d.randint(1, 3))]}


def run_cyclic(case):
    from ..core.util import import_vsc
    import enum as _enum
    vsc = import_vsc()
    info = {"returned": 0}
    ks = case["ks"]
    text = CYCLIC_SRC + "# owner = Owner(); links with k=%s appended to owner.links; calls %s" % (ks, cjson(case["calls"]))

    def Vc(kind, detail, extra):
        return {"property": PROPERTY, "kind": kind, "detail": detail, "case": case, "text": text + "\n# " + extra}
    if not ks or not all(isinstance(k, int) and 0 <= k <= 15 for k in ks):
        return [], info
    log = []
    reset_library()
    try:
        ns = {"vsc": vsc, "enum": _enum, "_pvs_log": log}
        exec(compile(CYCLIC_SRC, "<pvs-c17-cyclic>", "exec"), ns)
        owner = ns["Owner"]()
        links = []
        for i, k in enumerate(ks):
            l = ns["Link"](owner, i, k)
            owner.links.append(l)
            links.append(l)
    except Exception as e:
        reset_library()
        return [Vc("library_exception", "construction: " + exc_sig(e), repr(e)[:300])], info
    expected = sorted(["owner"] + ["link%d" % i for i in range(len(ks))])
    for ci, call in enumerate(case["calls"]):
        tgt = owner if call["target"] == "owner" else links[call["idx"] % len(links)]
        del log[:]
        st, exc = flat.do_call(ns, tgt, "randomize", None, call["seed"])
        where = "call %d on %s(seed=%d)" % (ci, call["target"] if call["target"] == "owner" else "link%d" % (call["idx"] % len(links)), call["seed"])
        if st == "exc":
            reset_library()
            return [Vc("library_exception", "cyclic graph: " + exc.sig, where + " raised %r" % (exc,))], info
        pre = sorted(n_ for ph, n_, _ in log if ph == "pre")
        post = sorted(n_ for ph, n_, _ in log if ph == "post")
        if pre != expected:
            return [Vc("pre_randomize_set", "pre_randomize did not run exactly once on every object of a cyclic graph", where + ": pre ran on %s, expected %s" % (pre, expected))], info
        if st == "sf":
            return [Vc("spurious_solve_failure", "cyclic graph", where + ": a <= min(k) with a != b is satisfiable")], info
        info["returned"] += 1
        if post != expected:
            return [Vc("post_randomize_set", "post_randomize did not run exactly once on every object of a cyclic graph", where + ": post ran on %s, expected %s" % (post, expected))], info
        phases = [ph for ph, _, _ in log]
        if "pre" in phases[phases.index("post"):]:
            return [Vc("callback_order", "a pre_randomize ran after a post_randomize", where + ": %s" % [(ph, n_) for ph, n_, _ in log])], info
        a, b = int(owner.a), int(owner.b)
        if a == b or any(a > k for k in ks) or any(int(l.x) == (b & 7) for l in links):
            return [Vc("pre_values_not_seen", "result violates the constraints of the cyclic graph", where + ": a=%d b=%d x=%s ks=%s" % (a, b, [int(l.x) for l in links], ks))], info
        for ph, n_, vals in log:
            if ph == "post":
                final = (a, b) if n_ == "owner" else (int(links[int(n_[4:])].x),)
                if tuple(vals) != final:
                    return [Vc("post_before_final_values", "post_randomize saw values that differ from the final ones", where + ": %s saw %s, final %s" % (n_, vals, final))], info
    return [], info




# ------------------------------------------------------------------------------------------------
# sub-domain: a callback that itself randomizes - pre_randomize of the top object makes a nested call on its random
# sub-object (or on an unrelated object) before the outer solve; the outer call must still treat the sub-object as random
NESTED_SRC = """
@vsc.randobj
class Hdr(object):
    def __init__(self, name):
        self.name = name
        self.kind = vsc.rand_bit_t(3)
        self.pad = vsc.rand_bit_t(2)
    def pre_randomize(self):
        _pvs_log.append(("pre", self.name))
    def post_randomize(self):
        _pvs_log.append(("post", self.name))
    @vsc.constraint
    def hc(self):
        self.kind != %(k0)d

@vsc.randobj
class Pkt(object):
    def __init__(self):
        self.hdr = vsc.rand_attr(Hdr("hdr"))
        self.other = Hdr("other")
        self.length = vsc.rand_bit_t(4)
        self.nest = None
    def pre_randomize(self):
        _pvs_log.append(("pre", "pkt"))
        tgt = {"hdr": self.hdr, "other": self.other}.get(self.nest and self.nest[0])
        if tgt is not None:
            if self.nest[1] == "with":
                with tgt.randomize_with() as it:
                    it.kind < %(lim)d
            elif self.nest[1] == "fail":
                # a nested call that fails; the callback handles the failure itself
                try:
                    with tgt.randomize_with() as it:
                        it.kind != it.kind
                except vsc.SolveFailure:
                    pass
            else:
                tgt.randomize()
    def post_randomize(self):
        _pvs_log.append(("post", "pkt"))
    @vsc.constraint
    def pc(self):
        self.hdr.kind >= %(lo)d
        self.length == self.hdr.kind + 1
"""


@hyp.composite
def nested_cases(d, fail_only=False):
    lo = d.randint(2, 5)
    if fail_only:
        return {"nested_call": True, "k0": d.randint(0, 7), "lo": lo, "lim": d.randint(1, lo),
                "calls": [{"nest": d.choice([["hdr", "fail"], ["hdr", "fail"], ["other", "fail"], None]),
                           "kind": d.choice(["randomize", "randomize_with"]), "seed": d.seed()} for _ in range(d.randint(2, 4))]}
    return {"nested_call": True, "k0": d.randint(0, 7), "lo": lo, "lim": d.randint(1, lo),
            "calls": [{"nest": d.choice([None, ["hdr", "with"], ["hdr", "plain"], ["other", "with"], ["hdr", "with"], ["hdr", "fail"], ["other", "fail"]]),
                       "kind": d.choice(["randomize", "randomize_with"]), "seed": d.seed()} for _ in range(d.randint(2, 4))]}


def run_nested(case):
    from ..core.util import import_vsc
    import enum as _enum
    vsc = import_vsc()
    info = {"returned": 0, "nested_calls": 0}
    try:
        src = NESTED_SRC % {"k0": case["k0"], "lo": case["lo"], "lim": case["lim"]}
    except Exception:
        return [], info
    text = src + "# calls: %s" % cjson(case["calls"])

    def Vn(kind, detail, extra):
        return {"property": PROPERTY, "kind": kind, "detail": detail, "case": case, "text": text + "\n# " + extra}
    feas = [k for k in range(case["lo"], 8) if k != case["k0"]]
    # the nested call on hdr itself must be satisfiable, otherwise its SolveFailure (raised from pre_randomize) is expected
    nested_ok = any(k != case["k0"] for k in range(0, case["lim"]))
    log = []
    reset_library()
    try:
        ns = {"vsc": vsc, "enum": _enum, "_pvs_log": log}
        exec(compile(src, "<pvs-c17-nested>", "exec"), ns)
        pkt = ns["Pkt"]()
    except Exception as e:
        reset_library()
        return [Vn("library_exception", "construction: " + exc_sig(e), repr(e)[:300])], info
    for ci, call in enumerate(case["calls"]):
        nest = call.get("nest")
        if nest is not None and nest[1] == "with" and not nested_ok:
            continue
        pkt.nest = nest
        del log[:]
        st, exc = flat.do_call(ns, pkt, call["kind"], [] if call["kind"] == "randomize_with" else None, call["seed"])
        where = "call %d %s(seed=%d) with pre_randomize making %s" % (
            ci, call["kind"], call["seed"], "no nested call" if nest is None else "a nested %s on %s" % (
                "randomize_with(kind < %d)" % case["lim"] if nest[1] == "with" else
                "failing randomize_with (SolveFailure caught in the callback)" if nest[1] == "fail" else "randomize()", nest[0]))
        if st == "exc":
            reset_library()
            return [Vn("library_exception", "nested call: " + exc.sig, where + " raised %r" % (exc,))], info
        if st == "sf":
            if feas:
                return [Vn("spurious_solve_failure", "outer call after a nested call in pre_randomize", where + ": hdr.kind in %s are solutions" % feas)], info
            continue
        if not feas:
            return [Vn("returned_on_unsat", "outer call", where)], info
        info["returned"] += 1
        if nest is not None:
            info["nested_calls"] += 1
        k, ln = int(pkt.hdr.kind), int(pkt.length)
        if k not in feas or ln != k + 1:
            return [Vn("pre_values_not_seen", "outer result violates the constraints (the sub-object randomized in pre_randomize is random in the outer call)",
                       where + ": hdr.kind=%d length=%d, feasible kinds %s" % (k, ln, feas))], info
        cnt = {}
        for ph, n_ in log:
            cnt[(ph, n_)] = cnt.get((ph, n_), 0) + 1
        exp = {("pre", "pkt"): 1, ("post", "pkt"): 1, ("pre", "hdr"): 1, ("post", "hdr"): 1}
        if nest is not None:
            exp[("pre", nest[0])] = exp.get(("pre", nest[0]), 0) + 1
            if nest[1] != "fail":           # (a failing call runs pre_randomize only)
                exp[("post", nest[0])] = exp.get(("post", nest[0]), 0) + 1
        if cnt != exp:
            return [Vn("pre_randomize_set" if any(cnt.get(k_, 0) != v for k_, v in exp.items() if k_[0] == "pre") else "post_randomize_set",
                       "callbacks of the outer and the nested call did not each run once", where + ": ran %s, expected %s" % (sorted(cnt.items()), sorted(exp.items())))], info
    return [], info


# ------------------------------------------------------------------------------------------------
# sub-domain: what a callback may do and see.  pre_randomize switches rand_mode of a field off (the value it then assigns is
# what the solver sees); list elements hold a back reference to their container; post_randomize reads a random-size list
# (len, elements, sum, membership) and may append a new element; free-standing calls name a non-random sub-object together
# with its parent, in either order.
LIFE_SRC = """
@vsc.randobj
class Cfg(object):
    def __init__(self):
        self.x = vsc.rand_bit_t(4)
    @vsc.constraint
    def c(self):
        self.x > 0
    def pre_randomize(self):
        _pvs_log.append(("pre", "cfg", None))
    def post_randomize(self):
        _pvs_log.append(("post", "cfg", (int(self.x),)))

@vsc.randobj
class Elem(object):
    def __init__(self, owner, tag):
        self.owner = owner            # (None, or a back reference to the container)
        self.tag = tag
        self.v = vsc.rand_bit_t(3)
    @vsc.constraint
    def c(self):
        self.v > 0
    def pre_randomize(self):
        _pvs_log.append(("pre", "e%d" % self.tag, None))
    def post_randomize(self):
        _pvs_log.append(("post", "e%d" % self.tag, (int(self.v),)))

@vsc.randobj
class Top(object):
    def __init__(self, backref):
        self.a = vsc.rand_bit_t(4)
        self.b = vsc.rand_bit_t(4)
        self.cfg = vsc.attr(Cfg())
        self.items = vsc.rand_list_t(Elem(None, -1))
        for i in range(2):
            self.items.append(Elem(self if backref else None, i))
        self.sl = vsc.randsz_list_t(vsc.bit_t(3))
        self.z = vsc.rand_bit_t(4)
        self.freeze_a = None
        self.append_tag = None
    @vsc.constraint
    def c(self):
        self.b == self.a
        self.sl.size.inside(vsc.rangelist(vsc.rng(1, 4)))
    def pre_randomize(self):
        _pvs_log.append(("pre", "top", None))
        if self.freeze_a is not None:
            with vsc.raw_mode():
                self.a.rand_mode = False
            self.a = self.freeze_a
            self.freeze_a = None
    def post_randomize(self):
        sl = [int(x) for x in self.sl]
        _pvs_log.append(("post", "top", (int(self.a), int(self.b), int(self.z), len(self.sl), tuple(sl), int(self.sl.sum), 7 in self.sl)))
        if self.append_tag is not None:
            self.items.append(Elem(None, self.append_tag))
            self.append_tag = None
"""


@hyp.composite
def life_cases(d):
    calls = []
    for _ in range(d.randint(2, 5)):
        c = {"form": d.choice(["randomize", "with_z", "vsc", "vsc_cfg_top", "vsc_top_cfg"]), "seed": d.seed(), "z": d.randint(1, 15)}
        if d.chance(25):
            c["freeze"] = d.randint(0, 15)
        if d.chance(25):
            c["append"] = True
        calls.append(c)
    return {"life": True, "backref": d.chance(50), "calls": calls}


def run_life(case):
    from ..core.util import import_vsc
    import enum as _enum
    vsc = import_vsc()
    info = {"returned": 0}
    text = LIFE_SRC + "# top = Top(backref=%s); calls %s" % (case.get("backref"), cjson(case["calls"]))

    def Vl(kind, detail, extra):
        return {"property": PROPERTY, "kind": kind, "detail": detail, "case": case, "text": text + "\n# " + extra}
    if not all(isinstance(c_, dict) and c_.get("form") in ("randomize", "with_z", "vsc", "vsc_cfg_top", "vsc_top_cfg") for c_ in case["calls"]):
        return [], info
    log = []
    reset_library()
    try:
        ns = {"vsc": vsc, "enum": _enum, "_pvs_log": log}
        exec(compile(LIFE_SRC, "<pvs-c17-life>", "exec"), ns)
        top = ns["Top"](bool(case.get("backref")))
    except Exception as e:
        reset_library()
        return [Vl("library_exception", "construction: " + exc_sig(e), repr(e)[:300])], info
    frozen = None
    ntag = 2
    for ci, call in enumerate(case["calls"]):
        form = call["form"]
        where = "call %d %s" % (ci, cjson(call))
        elems = ["e%d" % e.tag for e in top.items]
        expected = sorted(["top"] + elems + (["cfg"] if form in ("vsc_cfg_top", "vsc_top_cfg") else []))
        if isinstance(call.get("freeze"), int) and frozen is None:
            top.freeze_a = call["freeze"]
            frozen = call["freeze"]
        if call.get("append"):
            top.append_tag = ntag
            ntag += 1
        cfg_before = int(top.cfg.x)
        del log[:]
        try:
            rs = flat.mk_randstate(call["seed"])
            if form == "randomize":
                top.set_randstate(rs)
                top.randomize()
            elif form == "with_z":
                top.set_randstate(rs)
                with top.randomize_with() as it:
                    it.z == call["z"]
            elif form == "vsc":
                vsc.randomize(top, randstate=rs)
            elif form == "vsc_cfg_top":
                vsc.randomize(top.cfg, top, randstate=rs)
            else:
                vsc.randomize(top, top.cfg, randstate=rs)
            st = "ret"
        except vsc.SolveFailure as e:
            flat.defuse(e)
            flat.scrub(top)
            st = "sf"
        except Exception as e:
            ei = flat.defuse(e)
            flat.scrub(top)
            reset_library()
            return [Vl("library_exception", "callbacks: " + ei.sig, where + " raised %r" % (ei,))], info
        if st == "sf":
            return [Vl("spurious_solve_failure", "callbacks", where + ": the system is satisfiable (b == a, z == %d is in z's type)" % call["z"])], info
        info["returned"] += 1
        pre = sorted(n_ for ph, n_, _ in log if ph == "pre")
        post = sorted(n_ for ph, n_, _ in log if ph == "post")
        if pre != expected:
            return [Vl("pre_randomize_set", "pre_randomize did not run exactly once on exactly the objects random in the call", where + ": pre ran on %s, expected %s" % (pre, expected))], info
        if post != expected:
            return [Vl("post_randomize_set", "post_randomize did not run exactly once on exactly the objects that got pre_randomize", where + ": post ran on %s, expected %s" % (post, expected))], info
        a, b, z = int(top.a), int(top.b), int(top.z)
        sl = [int(x) for x in top.sl]
        if frozen is not None and a != frozen:
            return [Vl("pre_values_not_seen", "a field whose rand_mode pre_randomize switched off was randomized in that call", where + ": a=%d, pre_randomize froze it at %d" % (a, frozen))], info
        if b != a or not 1 <= len(sl) <= 4 or (form == "with_z" and z != call["z"]):
            return [Vl("pre_values_not_seen", "result violates the constraints", where + ": a=%d b=%d z=%d sl=%s" % (a, b, z, sl))], info
        if any(int(e.v) == 0 for e in top.items if "e%d" % e.tag in elems):
            return [Vl("pre_values_not_seen", "the own block of a list element (v > 0) is not enforced", where + ": %s" % [(e.tag, int(e.v)) for e in top.items])], info
        if form in ("vsc_cfg_top", "vsc_top_cfg"):
            if int(top.cfg.x) == 0:
                return [Vl("pre_values_not_seen", "a sub-object passed to the call explicitly was not randomized under its own block", where + ": cfg.x=0")], info
        elif int(top.cfg.x) != cfg_before:
            return [Vl("pre_values_not_seen", "a non-random sub-object changed", where + ": cfg.x %d -> %d" % (cfg_before, int(top.cfg.x)))], info
        for ph, n_, vals in log:
            if ph != "post":
                continue
            if n_ == "top":
                final = (a, b, z, len(sl), tuple(sl), sum(sl), 7 in sl)
            elif n_ == "cfg":
                final = (int(top.cfg.x),)
            else:
                final = (int([e for e in top.items if e.tag == int(n_[1:])][0].v),)
            if tuple(vals) != final:
                return [Vl("post_before_final_values", "post_randomize saw values that differ from the final ones", where + ": %s saw %s, after the call %s" % (n_, vals, final))], info
    return [], info




def text_of(case):
    src = render.program_source(case["prog"]) + "# top object: %s()" % case["prog"]["top"]
    types, _, _ = tree.flatten(case["prog"])
    src += "\n# initial values: %s" % cjson({k: f.get("init", 0) for k, f in types.items()})
    if case.get("inline"):
        src += "\n# inline (randomize_with):\n" + render.inline_source(case["inline"])
    src += "\n# calls: %s" % cjson(case["calls"])
    return src


def V(kind, detail, case, extra=None):
    v = {"property": PROPERTY, "kind": kind, "detail": detail, "case": case, "text": text_of(case)}
    if extra:
        v["text"] += "\n# " + extra
    return v


def run_case(case):
    if case.get("life"):
        return run_life(case)
    if case.get("cyclic"):
        return run_cyclic(case)
    if case.get("nested_call"):
        return run_nested(case)
    prog = case["prog"]
    try:
        types, stmts, nodes = tree.flatten(prog)
    except Exception:
        return [], {}
    info = {"returned": 0}
    inline = case.get("inline") or []
    log = []
    reset_library()
    try:
        ns = render.build(prog, {"_pvs_log": log})
        obj = tree.instantiate(ns, prog)
    except Exception as e:
        reset_library()
        return [V("library_exception", "construction: " + exc_sig(e), case, repr(e)[:300])], info
    idmap = {}
    for path, cname, rnd in nodes:
        o = obj if path == "" else tree.walk(obj, path[:-1])
        idmap[id(o)] = path
    expected = sorted(path for path, cname, rnd in nodes if rnd)
    nonrand_nodes = [p for p, c, r in nodes if not r]
    info["has_nonrand_subtree"] = bool(nonrand_nodes)
    info["has_list"] = any(c.get("objlists") for c in prog["classes"])
    rf = [f for f in types.values() if f["rand"]]
    names = [f["name"] for f in rf]
    env0 = {k: f.get("init", 0) for k, f in types.items()}
    # values written by pre_randomize on random nodes
    for path, cname, rnd in nodes:
        if rnd:
            for fname, v in case["writes"].get(cname, []):
                env0[path + fname] = v
    for ci, call in enumerate(case["calls"]):
        kind = call["kind"]
        use_inline = kind.endswith("_with")
        full = stmts + (inline if use_inline else [])
        r = flat.enumerate_solutions(types, rf, env0, full, limit=1 << 12)
        if r is None:
            return [], info
        allv, sols = r
        del log[:]
        st, exc = flat.do_call(ns, obj, kind, inline if use_inline else None, call["seed"])
        where = "call %d %s(seed=%d)" % (ci, kind, call["seed"])
        if st == "exc":
            reset_library()
            return [V("library_exception", "%s: %s" % (kind, exc.sig), case, where + " raised %r" % (exc,))], info
        events = [(ph, idmap.get(oid, "?unknown object"), vals) for ph, oid, vals in log]
        pre = sorted(p for ph, p, _ in events if ph == "pre")
        post = sorted(p for ph, p, _ in events if ph == "post")
        if pre != expected:
            return [V("pre_randomize_set", "pre_randomize did not run exactly once on exactly the random objects (%s)" % kind, case,
                      "%s: pre ran on %s, expected %s" % (where, pre, expected))], info
        if st == "sf":
            if sols:
                return [V("spurious_solve_failure", kind, case, where + ": solutions exist with the values written in pre_randomize")], info
            continue
        info["returned"] += 1
        if post != expected:
            return [V("post_randomize_set", "post_randomize did not run exactly once on exactly the random objects (%s)" % kind, case,
                      "%s: post ran on %s, expected %s" % (where, post, expected))], info
        phases = [ph for ph, _, _ in events]
        if "post" in phases and "pre" in phases[phases.index("post"):]:
            return [V("callback_order", "a pre_randomize ran after a post_randomize", case, "%s: %s" % (where, [(ph, p) for ph, p, _ in events]))], info
        env = tree.read(obj, types)
        if not sols:
            return [V("returned_on_unsat", kind, case, where)], info
        got = tuple(env[n] for n in names)
        if got not in set(sols):
            return [V("pre_values_not_seen", "result violates the constraints evaluated with the values written in pre_randomize", case,
                      "%s returned %s; constants (after pre_randomize) %s" % (where, cjson({n: env[n] for n in names}),
                                                                              cjson({k: v for k, v in env0.items() if k not in names})))], info
        for k, f in types.items():
            if not f["rand"] and env[k] != env0[k]:
                return [V("constant_changed", kind, case, where + ": %s is %d, expected %d" % (k, env[k], env0[k]))], info
        # values seen in post_randomize are the final ones
        for ph, p, vals in events:
            if ph != "post" or p.startswith("?"):
                continue
            cname = [c for pp, c, r_ in nodes if pp == p][0]
            fl = tree.all_fields(prog, cname)
            final = tuple(env[p + f["name"]] for f in fl)
            if tuple(vals) != final:
                return [V("post_before_final_values", "post_randomize saw values that differ from the final ones", case,
                          "%s: object %r saw %s in post_randomize, final values %s" % (where, p, list(vals), list(final)))], info
        # later calls start from the current state
        for k in types:
            env0[k] = env[k]
        for path, cname, rnd in nodes:
            if rnd:
                for fname, v in case["writes"].get(cname, []):
                    env0[path + fname] = v
    return [], info


def body(case, acc):
    vios, info = run_case(case)
    if case.get("nested_call"):
        acc.case(case, info.get("nested_calls", 0) > 0, sample=NESTED_SRC % {"k0": case["k0"], "lo": case["lo"], "lim": case["lim"]})
        acc.label("pre_randomize makes a nested randomize call")
        acc.label("outer calls that returned after a nested call", info.get("nested_calls", 0))
        return vios
    if case.get("life"):
        acc.case(case, info.get("returned", 0) >= 2, sample=LIFE_SRC)
        acc.label("callback lifecycle (rand_mode in pre_randomize, back references, lists read/extended in post_randomize)")
        for c in case["calls"]:
            acc.label("life call:" + c["form"] + (" +freeze" if "freeze" in c else "") + (" +append" if c.get("append") else ""))
        return vios
    if case.get("cyclic"):
        acc.case(case, info.get("returned", 0) > 0 and len(case["ks"]) >= 2, sample=CYCLIC_SRC)
        acc.label("cyclic object graph")
        for c in case["calls"]:
            acc.label("cyclic call on " + c["target"])
        return vios
    nt = info.get("returned", 0) > 0 and info.get("has_nonrand_subtree") and info.get("has_list")
    acc.case(case, bool(nt), sample=text_of(case))
    for c in case["calls"]:
        acc.label("call:" + c["kind"])
    if info.get("has_nonrand_subtree"):
        acc.label("non-random subtree")
    if info.get("has_list"):
        acc.label("object list")
    if any(case["writes"].values()):
        acc.label("pre_randomize writes a constant")
    if any(c.get("base") for c in case["prog"]["classes"]):
        acc.label("callbacks added by a derived randobj class")
    return vios


def shards(tier):
    return [{"i": i, "n": 120 if tier == "quick" else 4000} for i in range(14)] + \
        [{"kind": "cyclic", "i": 0, "n": 60 if tier == "quick" else 1500},
         {"kind": "nested", "i": 0, "n": 60 if tier == "quick" else 1500},
         {"kind": "life", "i": 0, "n": 80 if tier == "quick" else 2000}]


def run_shard(spec, seed, tier, acc):
    strat = {"cyclic": cyclic_cases, "nested": nested_cases, "life": life_cases}.get(spec.get("kind"), cases)()
    hyp.drive(strat, body, seed, spec["n"], acc)


def replay(case):
    return run_case(case)[0]
