"""C20 - solve_order decouples the earlier variable's distribution from the later one."""
import math

from ..core import hyp, stats
from ..core.util import reset_library, cjson, exc_sig
from ..model import sem, flat, render
from . import solve_engine as E
from . import c14

PROPERTY = "C20"
LEVEL = "exploration"
RULE = ("cases = generated small-domain systems over a (2-4 bits), b (3-5 bits) and optionally c with constraints that "
        "make the number of b-companions depend on a (b <= a, a == v -> b == w, b in [a..a+k], unique, ...), an ordering "
        "directive (single fields, lists of fields, chains a->b->c; a fifth of the systems use an enum for a; a separate family puts a vsc list on the 'before' side and refills it between the draws of one object) and a variant P' in which b's companion counts are "
        "changed while feasible(a) is unchanged.  Oracle: (1) every free draw and two-directional pinned probes against "
        "the enumerated solution set (constraints hold, satisfiability unchanged); (2) pinning a to EACH feasible value must "
        "succeed and to each infeasible value must fail (no choice of a paints the solve into a corner); (3) when the hook "
        "shows a's inferred range is exactly its feasible set (one interval), N seeded draws of P and of P' must each be "
        "uniform over feasible(a) by an exact binomial test per value; (4) the same system without the directive is drawn as "
        "a control and its tail is only reported.  non-trivial = companion counts differ by >= 4x between two feasible "
        "values of a and the uniformity test ran; distinct = distinct canonical case")
ASSUMPTIONS = [
    "uniformity is asserted only when the pre_solve hook shows a single-interval inferred range equal to feasible(a)",
    "exact binomial tails, rejected below 1e-9/2000 per test",
    "ordered variables are unsigned with at most 16 values",
]
LOG_ALPHA = math.log(1e-9 / 2000.0)

F = lambda n: ["f", n]
L = lambda v: ["lit", v]
B = lambda op, l, r: ["bin", op, l, r]


@hyp.composite
def cases(d, force=None):
    wa = d.choice([2, 3, 4])
    wb = d.choice([3, 4, 5])
    fs = [{"name": "a", "kind": "bit", "w": wa, "signed": False, "rand": True, "init": 0},
          {"name": "b", "kind": "bit", "w": wb, "signed": False, "rand": True, "init": 0}]
    enum_a = force is None and d.chance(20)
    if enum_a:
        # the earlier variable is an enum field (four enumerators with the values 0..3)
        wa = 2
        fs[0] = {"name": "a", "kind": "enum", "w": 32, "signed": True, "rand": True, "enum": "EA", "dom": [0, 1, 2, 3], "init": 0}
    has_c = d.chance(50) or force == "const_middle"
    if has_c:
        fs.append({"name": "c", "kind": "bit", "w": d.choice([2, 3]), "signed": False, "rand": True, "init": 0})
    amax = (1 << wa) - 1
    stmts = []
    # bound a to a contiguous interval
    r = d.randint(0, 99) if not enum_a else 99
    AL = (lambda v_: ["elit", v_, "EA", "ABCD"[v_]]) if enum_a else L       # a literal a is compared with
    lo, hi = 0, amax
    if r < 35:
        hi = d.randint(1, amax)
        stmts.append(["expr", B("<=", F("a"), L(hi))])
    elif r < 60:
        lo = d.randint(0, amax - 1)
        hi = d.randint(lo + 1, amax)
        stmts.append(["expr", ["in", F("a"), [["rng", L(lo), L(hi)]]]])
    # couple b to a
    k = d.randint(0, 99) if not enum_a else d.randint(50, 84)
    if k < 30:
        stmts.append(["expr", B("<=", F("b"), F("a"))])
    elif k < 50:
        stmts.append(["expr", B("<", F("b"), B("+", F("a"), L(d.randint(1, 2))))])
    elif k < 70:
        v = d.randint(lo, hi)
        stmts.append(["implies", B("==", F("a"), AL(v)), [["expr", B("==", F("b"), L(d.randint(0, 3)))]]])
    elif k < 85:
        v = d.randint(lo, hi)
        stmts.append(["if", [[B("==", F("a"), AL(v)), [["expr", B("<", F("b"), L(2))]]]], [["expr", B(">=", F("b"), L(0))]]])
    else:
        stmts.append(["expr", ["in", F("b"), [["rng", F("a"), B("+", F("a"), L(d.randint(0, 3)))]]]])
    if has_c:
        stmts.append(["expr", B("<=", F("c"), F("b"))] if (d.chance(60) or enum_a) else ["unique", [F("a"), F("c")]])
    # ordering directive
    o = d.randint(0, 99)
    two_before = has_c and d.chance(40) and force != "const_middle" and not enum_a
    if force == "const_middle":
        o = 50
    if two_before:
        # a and b are independent (each only bounded), c is coupled to them: both must be chosen before c
        stmts = [st for st in stmts if "b" not in sem.fields_of_stmt(st) or "a" not in sem.fields_of_stmt(st)]
        stmts = [st for st in stmts if "c" not in sem.fields_of_stmt(st)]
        stmts.append(["expr", B("<=", F("c"), F("b"))])
        if d.chance(50):
            stmts.append(["expr", B("!=", F("c"), F("a"))])
        if d.chance(50):
            stmts.append(["expr", B("<=", F("b"), L(d.randint(2, (1 << wb) - 1)))])
        order = [d.choice([["order", ["a", "b"], ["c"]], ["order", ["b", "a"], ["c"]]])]
    elif not has_c:
        order = [["order", ["a"], ["b"]]]
    elif o < 20:
        order = [["order", ["a"], ["b", "c"]]]
    elif o < 70:
        # a chain, written head first or tail first
        order = [["order", ["a"], ["b"]], ["order", ["b"], ["c"]]]
        if d.chance(40):
            order.reverse()
        if (d.chance(35) and not enum_a) or force == "const_middle":
            # the middle variable of the chain is not random in the call (a constant with a generated value): a is still
            # ordered before c through it
            fs[1]["rand"] = False
            fs[1]["init"] = d.randint(0, min(amax, (1 << wb) - 1))
            # ... and the last variable's companion count depends on a directly
            stmts.append(["expr", B("<=", F("c"), F("a"))])
            if force == "const_middle":
                # keep feasible(a) equal to its inferred interval (so that uniformity can be asserted): the constant is tied
                # to the others only by an always-true statement
                stmts = [st for st in stmts if "b" not in sem.fields_of_stmt(st)]
                stmts.append(["expr", B("|", B("<=", F("c"), F("b")), B("<=", F("b"), L((1 << wb) - 1)))])
    else:
        order = [["order", ["a"], ["b"]], ["order", ["a"], ["c"]]]
    pos = d.randint(0, len(stmts))
    stmts_o = stmts[:pos] + order + stmts[pos:]
    # variant: change b's companion counts without touching feasible(a): an extra constraint on b alone that keeps
    # at least one companion for every a (checked at run time; otherwise the variant is skipped)
    variant = d.choice([["expr", B("<=", F("b"), L(d.randint(0, 3)))], ["expr", B("!=", F("b"), L(d.randint(0, 2)))],
                        ["expr", B("==", B("&", F("b"), L(1)), L(0))]])
    enums = {"EA": {"int": True, "members": [["A", 0], ["B", 1], ["C", 2], ["D", 3]]}} if enum_a else {}
    prog = {"enums": enums, "classes": [{"name": "T", "fields": fs, "blocks": [{"name": "c0", "stmts": stmts_o}]}]}
    return {"mode": "enum", "prog": prog, "inline": None, "calls": [{"kind": d.choice(["randomize", "randomize_with"]), "seed": d.seed()}],
            "sel": [d.randint(0, 1 << 16) for _ in range(8)], "pseed": d.seed(), "variant": variant, "dseed": d.seed()}


def V(kind, detail, case, extra=None):
    v = {"property": PROPERTY, "kind": kind, "detail": detail, "case": case, "text": E.text_of(case) + "\n# variant adds: " + render.inline_source([case["variant"]], "self").strip()}
    if extra:
        v["text"] += "\n# " + extra
    return v


def histogram(ns, obj, fields, n, seed, var="a"):
    """-> histogram of `var`; the histograms of all fields are kept in histogram.last"""
    obj.set_randstate(flat.mk_randstate(seed))
    hs = {f["name"]: {} for f in fields}
    for i in range(n):
        obj.randomize()
        for f in fields:
            v = int(getattr(obj, f["name"]))
            hs[f["name"]][v] = hs[f["name"]].get(v, 0) + 1
    histogram.last = hs
    return hs[var]


def uniform_check(h, feas, n):
    p = 1.0 / len(feas)
    worst = 0.0
    for v in feas:
        lp = stats.two_sided_log_p(h.get(v, 0), n, p)
        worst = min(worst, lp)
        if lp < LOG_ALPHA:
            return (v, h.get(v, 0), lp), worst
    return None, worst


def run_case(case, n_draws=3000):
    c14.install_hook()
    prog = case["prog"]
    cls = flat.cls_of(prog)
    fields = cls["fields"]
    types = flat.types_of(prog)
    names = [f["name"] for f in fields]
    stmts = cls["blocks"][0]["stmts"]
    info = {}
    # (1) constraints hold / satisfiability unchanged
    vios, einfo = E.run_case(case, None, ("C01", "C02"))
    out = []
    for v in vios:
        out.append(dict(v, property=PROPERTY, detail="ordered system: " + v["detail"]))
    if out:
        return out[:1], info
    env0 = {f["name"]: f["init"] for f in fields}
    rf = [f for f in fields if f["rand"]]          # (a chain's middle variable may be a constant)
    names = [f["name"] for f in rf]
    r = flat.enumerate_solutions(types, rf, env0, stmts)
    allv, sols = r
    if not sols:
        return [], info
    # every generated system orders a before something; a candidate of the structural reducer that lost the directive
    # claims nothing about a's distribution
    orders_ = [st for st in stmts if isinstance(st, list) and st and st[0] == "order"]
    if "a" not in names or not any("a" in st[1] for st in orders_) or any("a" in st[2] for st in orders_):
        return [], info
    ia = names.index("a")
    comp = {}
    for s in sols:
        comp[s[ia]] = comp.get(s[ia], 0) + 1
    feas = sorted(comp)
    info["skew"] = max(comp.values()) / float(min(comp.values()))
    reset_library()
    try:
        ns = flat.build(prog)
        obj = flat.instantiate(ns, prog)
        # (2) no corner: pin a to every value of its type
        for v in sem.domain(types["a"]):
            st, exc = flat.do_call(ns, obj, "randomize_with", flat.pin_stmts(prog, [types["a"]], {"a": v}), case["pseed"])
            if st == "exc":
                reset_library()
                return [V("library_exception", "pin a: " + exc.sig, case, "a == %d raised %r" % (v, exc))], info
            if v in comp and st != "ret":
                return [V("painted_into_corner", "a feasible value of the earlier variable is rejected", case,
                          "randomize_with(a == %d) raised SolveFailure; companions: %d" % (v, comp[v]))], info
            if v not in comp and st == "ret":
                return [V("infeasible_value_accepted", "an infeasible value of the earlier variable is accepted", case,
                          "randomize_with(a == %d) returned %s" % (v, cjson(flat.read_state(ns, obj, fields))))], info
            if st == "ret" and int(obj.a) != v:
                return [V("pin_readback", "a", case, "pinned a == %d, read %d" % (v, int(obj.a)))], info
        # (3) uniformity when the inferred range equals the feasible set
        del c14._captured[:]
        obj.set_randstate(flat.mk_randstate(case["dseed"]))
        obj.randomize()
        cap = c14._captured[-1] if c14._captured else None
        rg = cap["ranges"].get("a") if cap else None
        contiguous = feas == list(range(feas[0], feas[-1] + 1))
        # the values the field is steered over are exactly its feasible values, in intervals of one common length (one
        # interval, or the single-value intervals of an enum domain): the interval is drawn uniformly, then the value in it
        covered = sorted(v_ for a_, b_ in (rg or []) for v_ in range(min(a_, b_), max(a_, b_) + 1))
        pre = bool(rg) and len(set(abs(b_ - a_) for a_, b_ in rg)) == 1 and covered == feas and len(feas) >= 2 \
            and (len(rg) == 1 or types["a"]["kind"] == "enum")
        info["precondition"] = pre
        if pre:
            h = histogram(ns, obj, fields, n_draws, case["dseed"])
            bad, worst = uniform_check(h, feas, n_draws)
            info["uniform_worst_logp"] = worst
            if set(h) - set(feas):
                return [V("infeasible_value_produced", "a", case, "histogram %s" % h)], info
            if bad:
                return [V("not_uniform", "earlier variable is not uniform over its feasible values", case,
                          "%d draws: a=%d seen %d times (expected %.1f), exact two-sided tail e^%.1f; histogram %s; companions %s"
                          % (n_draws, bad[0], bad[1], n_draws / float(len(feas)), bad[2], sorted(h.items()), sorted(comp.items())))], info
            # every other variable that is only ever on the 'before' side must be uniform too when it is independent of
            # the other before-variables and its inferred range equals its feasible set
            orders = [st for st in stmts if st[0] == "order"]
            befores = set(x for st in orders for x in st[1]) - set(x for st in orders for x in st[2])
            for vname in sorted(befores - {"a"}):
                if vname not in names:
                    continue
                iv = names.index(vname)
                fv = sorted(set(s_[iv] for s_ in sols))
                pairs = set((s_[ia], s_[iv]) for s_ in sols)
                indep = len(pairs) == len(feas) * len(fv)
                rgv = cap["ranges"].get(vname)
                if indep and len(fv) >= 2 and rgv and len(rgv) == 1 and sorted(rgv[0]) == [fv[0], fv[-1]] and fv == list(range(fv[0], fv[-1] + 1)):
                    badv, worstv = uniform_check(histogram.last[vname], fv, n_draws)
                    info["second_before_var"] = True
                    if badv:
                        return [V("not_uniform", "a variable listed on the 'before' side is not uniform over its feasible values", case,
                                  "%d draws: %s=%d seen %d times (expected %.1f), tail e^%.1f; histogram %s"
                                  % (n_draws, vname, badv[0], badv[1], n_draws / float(len(fv)), badv[2], sorted(histogram.last[vname].items())))], info
            # variant P': same feasible(a), different companion counts
            stm2 = stmts + [case["variant"]]
            r2 = flat.enumerate_solutions(types, rf, env0, stm2)
            comp2 = {}
            for s in r2[1]:
                comp2[s[ia]] = comp2.get(s[ia], 0) + 1
            if sorted(comp2) == feas and comp2 != comp:
                prog2 = {"enums": prog.get("enums", {}), "classes": [dict(cls, blocks=[{"name": "c0", "stmts": stm2}])]}
                ns2 = flat.build(prog2)
                obj2 = flat.instantiate(ns2, prog2)
                del c14._captured[:]
                obj2.set_randstate(flat.mk_randstate(case["dseed"]))
                obj2.randomize()
                cap2 = c14._captured[-1] if c14._captured else None
                rg2 = cap2["ranges"].get("a") if cap2 else None
                if rg2 and len(rg2) == 1 and sorted(rg2[0]) == [feas[0], feas[-1]]:
                    h2 = histogram(ns2, obj2, fields, n_draws, case["dseed"] + 1)
                    bad2, worst2 = uniform_check(h2, feas, n_draws)
                    info["variant"] = True
                    if bad2:
                        return [V("depends_on_companions", "distribution of the earlier variable changes with the later one's companion counts", case,
                                  "variant with companions %s: a=%d seen %d of %d (expected %.1f), tail e^%.1f; base histogram %s, variant %s"
                                  % (sorted(comp2.items()), bad2[0], bad2[1], n_draws, n_draws / float(len(feas)), bad2[2], sorted(h.items()), sorted(h2.items())))], info
            # (4) control without the directive (reported only)
            if info["skew"] >= 4:
                stm3 = [s for s in stmts if s[0] != "order"]
                prog3 = {"enums": prog.get("enums", {}), "classes": [dict(cls, blocks=[{"name": "c0", "stmts": stm3}])]}
                ns3 = flat.build(prog3)
                obj3 = flat.instantiate(ns3, prog3)
                h3 = histogram(ns3, obj3, fields, min(n_draws, 1500), case["dseed"])
                _, worst3 = uniform_check(h3, feas, min(n_draws, 1500))
                info["control_worst_logp"] = worst3
    except Exception as e:
        reset_library()
        return [V("library_exception", "ordered draw: " + exc_sig(e), case, repr(e))], info
    return [], info


# ------------------------------------------------------------------------------------------------
# family: a LIST on the 'before' side (solve_order(self.l, self.b)): every element is chosen before b, on the first call and
# on every later call of the same object - also after the user refilled the list with the same number of elements
LIST_SRC = """
@vsc.randobj
class T(object):
    def __init__(self):
        self.l = vsc.%(ctor)s
        self.b = vsc.rand_bit_t(4)
    @vsc.constraint
    def c0(self):
%(size)s        with vsc.foreach(self.l, idx=True) as i:
            self.b <= self.l[i] * %(k)d + %(m)d
        vsc.solve_order(self.l, self.b)
"""


@hyp.composite
def list_cases(d):
    return {"listorder": True, "n": d.randint(2, 3), "k": d.randint(1, 4), "m": d.randint(0, 2),
            "refill": d.choice(["none", "same", "same", "randsz"]), "dseed": d.seed()}


def list_source(case):
    if case["refill"] == "randsz":
        return LIST_SRC % {"ctor": "randsz_list_t(vsc.bit_t(2))", "k": case["k"], "m": case["m"],
                           "size": "        self.l.size == %d\n" % case["n"]}
    return LIST_SRC % {"ctor": "rand_list_t(vsc.bit_t(2), sz=%d)" % case["n"], "k": case["k"], "m": case["m"], "size": ""}


def run_list(case, n_draws):
    import enum as _enum
    from ..core.util import import_vsc
    vsc = import_vsc()
    info = {"precondition": False}
    if case.get("refill") not in ("none", "same", "randsz") or not isinstance(case.get("n"), int) or not 2 <= case["n"] <= 3:
        return [], info
    src = list_source(case)
    text = src + "# %d draws on ONE object; between the draws: %s" % (n_draws, {"none": "nothing", "same": "l.clear() and as many appends",
                                                                                  "randsz": "nothing (a random-size list re-creates its elements itself)"}[case["refill"]])
    reset_library()
    try:
        ns = {"vsc": vsc, "enum": _enum}
        exec(compile(src, "<pvs-c20-list>", "exec"), ns)
        o = ns["T"]()
        o.set_randstate(flat.mk_randstate(case["dseed"]))
        n = case["n"]
        hs = [dict() for _ in range(n)]
        k, m = case["k"], case["m"]
        for _ in range(n_draws):
            if case["refill"] == "same":
                o.l.clear()
                for _j in range(n):
                    o.l.append(0)
            o.randomize()
            vals = [int(x) for x in o.l]
            if len(vals) != n or any(int(o.b) > v * k + m for v in vals):
                return [{"property": PROPERTY, "kind": "unsound_value", "detail": "ordered system over a list", "case": case,
                         "text": text + "\n# returned l=%s b=%d" % (vals, int(o.b))}], info
            for j, v in enumerate(vals):
                hs[j][v] = hs[j].get(v, 0) + 1
    except Exception as e:
        ei = flat.defuse(e)
        reset_library()
        return [{"property": PROPERTY, "kind": "library_exception", "detail": "ordered system over a list: " + ei.sig, "case": case,
                 "text": text + "\n# %r" % (ei,)}], info
    # every element value 0..3 is feasible (b = 0 accompanies it) and is steered over exactly 0..3: uniform marginals; the
    # companion counts min(15, v*k+m)+1 differ between the values
    info["precondition"] = True
    info["skew"] = (min(15, 3 * k + m) + 1) / float(min(15, m) + 1)
    for j in range(n):
        bad, worst = uniform_check(hs[j], [0, 1, 2, 3], n_draws)
        if bad:
            return [{"property": PROPERTY, "kind": "not_uniform", "detail": "an element of a list on the 'before' side is not uniform over its feasible values",
                     "case": case, "text": text + "\n# element %d: value %d seen %d times (expected %.1f), tail e^%.1f; histogram %s"
                     % (j, bad[0], bad[1], n_draws / 4.0, bad[2], sorted(hs[j].items()))}], info
    return [], info


def shards(tier):
    return [{"i": i, "n": 4 if tier == "quick" else 120} for i in range(16)] + \
        [{"i": 16 + i, "n": 4 if tier == "quick" else 60, "force": "const_middle"} for i in range(2)] + \
        [{"i": 18 + i, "n": 3 if tier == "quick" else 60, "kind": "list"} for i in range(2)]


def run_shard(spec, seed, tier, acc):
    nd = 1500 if tier == "quick" else 12000

    def body(case, acc):
        if case.get("listorder"):
            vios, info = run_list(case, nd)
            acc.case(case, info.get("precondition") and info.get("skew", 1) >= 4, sample=list_source(case))
            acc.label("family: a list on the 'before' side (refill: %s)" % case["refill"])
            if info.get("precondition"):
                acc.label("uniformity tested")
                acc.label("draws", nd)
            return vios
        vios, info = run_case(case, nd)
        nt = info.get("precondition") and info.get("skew", 1) >= 4
        acc.case(case, bool(nt), sample=E.text_of(case))
        if info.get("precondition"):
            acc.label("uniformity tested")
            acc.label("draws", nd)
        if info.get("variant"):
            acc.label("variant tested")
        if info.get("second_before_var"):
            acc.label("second before-variable tested")
        if info.get("skew", 1) >= 4:
            acc.label("skew >= 4x")
        if "control_worst_logp" in info:
            acc.label("control (no directive) rejected at alpha" if info["control_worst_logp"] < LOG_ALPHA else "control not rejected")
        nord = len([s for s in flat.cls_of(case["prog"])["blocks"][0]["stmts"] if s[0] == "order"])
        acc.label("order directives:%d" % nord)
        return vios
    hyp.drive(list_cases() if spec.get("kind") == "list" else cases(force=spec.get("force")), body, seed, spec["n"], acc, shrink=False)


def replay(case):
    if case.get("listorder"):
        return run_list(case, 3000)[0]
    return run_case(case)[0]
