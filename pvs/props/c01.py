"""C01 - returned values satisfy every active hard constraint and their declared type."""
from ..core import hyp
from . import solve_engine as E

PROPERTY = "C01"
LEVEL = "exploration"
RULE = ("cases = generated flat constraint programs (1-4 scalar/enum fields of width 1..64 both signednesses, 1-2 class "
        "blocks, optional inline block; comparison, arithmetic, bitwise, shift, part-select, in/rangelist, if/else-if/"
        "else, implies, unique, Boolean composition) x current values x call kind x random-state seed; small-domain "
        "programs are judged against the exhaustively enumerated reference solution set, wide ones against a hidden "
        "anchored assignment; every returned state is evaluated by the reference semantics, and pinned probes "
        "(members, single-violation witnesses per statement, non-members, bit-flipped v*) check both directions. "
        "non-trivial = at least one call returned and was checked AND (small domain: satisfiable with the solution set "
        "a proper subset of the value space | wide: a probe ran); distinct = distinct canonical program+calls")
ASSUMPTIONS = [
    "reference semantics: context-width propagation, sign-extension iff both operands of a node are signed (per-node rule)",
    "python int literals within int32; sized literals within their width; ~ only on 1-bit operands; / % with non-zero literal divisor and an unsigned dividend; * / % on operands <= 8 bits",
    "statements that reference no field (literal-only comparisons) are generated too: they must hold like any other",
]
WANT = ("C01",)


def shards(tier):
    n = 12 if tier == "quick" else 16
    per = 220 if tier == "quick" else 6000
    out = [{"kind": "enum", "i": i, "n": per} for i in range(n)]
    out += [{"kind": "wide", "i": i, "n": per} for i in range(4 if tier == "quick" else 8)]
    return out


def body(case, acc):
    vios, info = E.run_case(case, acc, WANT)
    if case["mode"] == "enum":
        nt = info.get("returned", 0) > 0 and 0 < info.get("nsol", 0) < info.get("space", 0)
    else:
        nt = info.get("returned", 0) > 0 and info.get("probes", 0) > 0
    acc.case(case, nt, sample=E.text_of(case))
    E.classify(case, info, acc)
    return vios


def run_shard(spec, seed, tier, acc):
    strat = E.enum_cases() if spec["kind"] == "enum" else E.wide_cases()
    hyp.drive(strat, body, seed, spec["n"], acc, shrink=True)


def replay(case):
    vios, _ = E.run_case(case, None, WANT)
    return vios
