"""C10 - coverpoint bins count exactly the samples whose value they contain."""
from ..core import hyp
from ..core.util import exc_sig, reset_library, cjson
from ..model import cov

PROPERTY = "C10"
LEVEL = "exploration"
RULE = ("cases = generated coverpoint specifications over bit_t/int_t (w<=8) and enum types: 1-4 entries among bin / "
        "bin_array (count absent, [] , [n] or n), values and list/tuple ranges (overlapping, adjacent, unordered), "
        "auto-bins with auto_bin_max, ignore/illegal bins, iff by field or callable, optionally ONE bins dictionary shared by two "
        "coverpoints; each specification is sampled with a "
        "generated permutation of EVERY value of the type plus repeats, with the iff toggling; after every sample the "
        "per-bin increment vector must equal the reference membership vector.  A 'wide types' family covers bit_t/int_t of 12-64 "
        "bits (values and ranges at the type's extremes, around zero, at powers of two; counted arrays over huge ranges, "
        "auto-bins, ignore/illegal bins) against an interval-list reference, sampling every endpoint of every reference bin "
        "and exclusion with both neighbours.  non-trivial = the specification has an "
        "array/auto partition with a remainder, or an exclusion that removes values from a regular bin, or overlapping "
        "items; distinct = distinct canonical specification+sample sequence")
ASSUMPTIONS = [
    "reference partition: ascending distinct values, floor(|V|/n) per bin, remainder in the last bin; one bin per value when n is absent or >= |V|",
    "sample values are in-type (the sample path does not mask); bin names are not asserted here (C11/C13)",
    "bin_array count 0 and the nested 'programmatic' bin_array form are not generated",
]

ENUMS = {
    "E0": {"int": True, "members": [["A", 0], ["B", 1], ["C", 2], ["D", 3]]},
    "E1": {"int": True, "members": [["A", -3], ["B", 5], ["C", 100]]},
    "E2": {"int": False, "members": [["X", 0], ["Y", 1], ["Z", 2]]},
}


def gen_items(d, lo, hi, nmax=3, allow_overlap=True):
    items = []
    for _ in range(d.randint(1, nmax)):
        if d.chance(50):
            items.append(d.randint(lo, hi))
        else:
            a = d.randint(lo, hi)
            b = d.randint(a, min(hi + 2, a + d.randint(0, 9)))
            items.append([a, b] if d.chance(60) else {"t": [a, b]})
    if not allow_overlap:
        seen = set()
        out = []
        for it in items:
            v = cov.values([it])
            if v & seen:
                continue
            seen |= v
            out.append(it)
        items = out or [d.randint(lo, hi)]
    return items


@hyp.composite
def cases(d):
    tk = d.weighted([(6, "bit"), (3, "int"), (2, "enum")])
    enums = {}
    if tk == "enum":
        en = d.choice(sorted(ENUMS))
        enums = {en: ENUMS[en]}
        t = {"kind": "enum", "enum": en}
    else:
        w = d.weighted([(2, 3), (2, 4), (3, 5), (1, 1), (1, 2), (2, 6), (1, 8)])
        if tk == "int" and w < 2:
            w = 2
        t = {"kind": tk, "w": w}
    tv = cov.type_values(t, enums)
    lo, hi = min(tv), max(tv)
    cp = {"name": "cp", "target": "a"}
    if d.chance(25):
        cp["bins"] = None
        if tk == "enum":
            cp["enum_auto"] = True
    elif tk == "enum":
        # explicit bins over enum values are given as integers of the internal value
        cp["bins"] = None
        cp["enum_auto"] = True
    else:
        bins = []
        for i in range(d.randint(1, 4)):
            if d.chance(40):
                bins.append({"name": "b%d" % i, "kind": "bin", "items": gen_items(d, lo, hi)})
            else:
                n = d.choice([None, 1, 2, 3, 4, 5, 7])
                bins.append({"name": "b%d" % i, "kind": "arr", "n": n, "nstyle": d.choice(["list", "int"]) if n else "list",
                             "items": gen_items(d, lo, hi)})
        cp["bins"] = bins
    if d.chance(40) and tk != "enum":
        cp["ignore"] = [{"name": "ig%d" % i, "items": gen_items(d, lo, hi, 2)} for i in range(d.randint(1, 2))]
    if d.chance(30) and tk != "enum":
        cp["illegal"] = [{"name": "il%d" % i, "items": gen_items(d, lo, hi, 2)} for i in range(d.randint(1, 2))]
    if tk == "enum" and d.chance(40):
        vals = [m[1] for m in enums[t["enum"]]["members"]]
        cp["ignore"] = [{"name": "ig0", "items": [d.choice(vals)]}]
    if tk != "enum" and d.chance(25):
        cp["target_style"] = "callable"
        if d.chance(40):
            cp["boom"] = True       # some samples make the user's callable raise (see below)
    abm = d.choice([64, 1, 2, 3, 4, 5, 8])
    iff = d.choice([None, None, "field", "callable"])
    if iff:
        cp["iff"] = {iff: "en"}
    # sample sequence: every value of the type in a generated order, plus repeats
    order = d.sample(tv, len(tv))
    for _ in range(d.randint(0, 6)):
        order.append(d.choice(tv))
    samples = [[v, (1 if (not iff or d.chance(70)) else 0)] for v in order]
    if cp.get("boom"):
        # sample() calls during which the target callable raises (the caller catches the exception): the samples AFTER
        # them must be counted like any other
        for _ in range(d.randint(1, 3)):
            samples.insert(d.randint(1, len(samples)), [d.choice(tv), 1, "raise"])
    cg = {"name": "CG", "params": [{"name": "a", "type": t}] + ([{"name": "en", "type": {"kind": "bit", "w": 1}}] if iff else []),
          "options": {"auto_bin_max": abm}, "cps": [cp]}
    objs = None
    if tk != "enum" and not cp.get("target_style") and d.chance(25):
        # the covergroup samples an OBJECT (with_sample(dict(it=Item()))): the coverpoint targets it.a, the iff reads it.en;
        # the samples pass one of a few item objects (their fields assigned before the call) or a new object each
        cg["params"] = [{"name": "it", "type": {"kind": "obj", "cls": "Item"}}]
        cg["item"] = t
        cp["target"] = "it.a"
        if iff:
            cp["iff"] = {iff: "it.en"}
        objs = [d.randint(-1, 2) for _ in samples]
    if cp.get("bins") and d.chance(30):
        # ONE bins dictionary (the same specification objects) given to two coverpoints of the covergroup: building the
        # first must not change what the second gets
        cg["pre_lines"] = ["shared = " + cov.dict_src(cp["bins"])]
        cp["bins_expr"] = "shared"
        cp2 = dict(cp, name="cp2")
        if d.chance(60):
            # ... and the two coverpoints exclude different values: what the first one removes must not be missing from the second
            cp2.pop("ignore", None)
            cp2.pop("illegal", None)
            if d.chance(50):
                cp2["ignore"] = [{"name": "ig0", "items": gen_items(d, lo, hi, 2)}]
        cg["cps"].append(cp2)
    case = {"cg": cg, "enums": enums, "samples": samples}
    if objs is not None:
        case["objs"] = objs
    return case


def item_source(case):
    t = case["cg"].get("item")
    if not t:
        return ""
    return ("@vsc.randobj\nclass Item(object):\n    def __init__(self):\n        self.a = %s\n        self.en = vsc.bit_t(1)\n\n"
            % cov.type_src(t))


def text_of(case):
    return cov.enums_source(case["enums"]) + item_source(case) + cov.cg_source(case["cg"]) + "# samples (value, iff): %s%s" % (
        cjson(case["samples"]), ("\n# item object passed with each sample (-1 = a new one): %s" % cjson(case["objs"])) if case.get("objs") else "")


_PROP = [PROPERTY]


def V(kind, detail, case, extra=None):
    v = {"property": _PROP[0], "kind": kind, "detail": detail, "case": case, "text": text_of(case)}
    if extra:
        v["text"] += "\n# " + extra
    return v


def run_case(case, prop=PROPERTY):
    _PROP[0] = prop
    cg = case["cg"]
    cp = cg["cps"][0]
    enums = case["enums"]
    t = cg.get("item") or cg["params"][0]["type"]
    if t.get("kind") == "obj":
        return [], {}
    tv = cov.type_values(t, enums)
    refs = {c_["name"]: cov.ref_bins(c_, tv, cg["options"]["auto_bin_max"]) for c_ in cg["cps"]}
    reg, ign, ill = refs[cp["name"]]
    reset_library()
    try:
        ns = cov.build([cg], enums, item_source(case))
        o = ns["CG"]()
        models = [(c_["name"], cov.cp_model(o, c_["name"])) for c_ in cg["cps"]]
        pool = [ns["Item"]() for _ in range(3)] if cg.get("item") else None
    except Exception as e:
        reset_library()
        return [V("library_exception", "construction: " + exc_sig(e), case, repr(e)[:200])], {}
    info = {"nbins": len(reg)}
    for cname, m in models:
        h = cov.hits(m)
        if [len(x) for x in h] != [len(x) for x in refs[cname]]:
            return [V("bin_count", "regular/ignore/illegal bin counts differ from the reference", case,
                      "coverpoint %s: library %s, reference %s" % (cname, [len(x) for x in h], [len(x) for x in refs[cname]]))], info
    has_iff = bool(cp.get("iff"))
    objs = case.get("objs") or []

    def do_sample(k_, v_, en_):
        if pool is None:
            if has_iff:
                o.sample(v_, en_)
            else:
                o.sample(v_)
            return
        oi = objs[k_] if k_ < len(objs) and isinstance(objs[k_], int) else 0
        item = ns["Item"]() if oi < 0 else pool[oi % len(pool)]
        item.a = v_
        item.en = en_
        o.sample(item)
    for k_smp, smp in enumerate(case["samples"]):
        v, en = smp[0], smp[1]
        if len(smp) > 2:
            # the user's callable raises during this sample() call; what this call counted is not judged
            ns["BOOM"][0] = True
            try:
                if has_iff:
                    o.sample(v, en)
                else:
                    o.sample(v)
            except RuntimeError:
                pass
            except Exception as e:
                ns["BOOM"][0] = False
                reset_library()
                return [V("library_exception", "sample: " + exc_sig(e), case, "sample(%r) with a raising callable raised %r" % (v, e))], info
            ns["BOOM"][0] = False
            info["raised"] = info.get("raised", 0) + 1
            continue
        before = [cov.hits(m) for _, m in models]
        try:
            arg = v
            if t["kind"] == "enum":
                spec = enums[t["enum"]]
                arg = getattr(ns[t["enum"]], [mm[0] for mm in spec["members"] if mm[1] == v][0])
            if pool is not None:
                do_sample(k_smp, v, en)
            elif has_iff:
                o.sample(arg, en)
            else:
                o.sample(arg)
        except Exception as e:
            reset_library()
            return [V("library_exception", "sample: " + exc_sig(e), case, "sample(%r) raised %r" % (v, e))], info
        gate = en if has_iff else 1
        for (cname, m), bef in zip(models, before):
            after = cov.hits(m)
            reg_, ign_, ill_ = refs[cname]
            for which, ref, b, a in (("regular", reg_, bef[0], after[0]), ("ignore", ign_, bef[1], after[1]),
                                     ("illegal", ill_, bef[2], after[2])):
                exp = [(1 if (gate and v in s) else 0) for s in ref]
                got = [x - y for x, y in zip(a, b)]
                if got != exp:
                    return [V("count_mismatch", "%s bins" % which, case,
                              "coverpoint %s, sample value %d (iff=%d): increments %s, reference %s (reference bins %s)"
                              % (cname, v, gate, got, exp, [sorted(s) for s in ref]))], info
    return [], info


# ------------------------------------------------------------------------------------------------
# family: WIDE types (12..64 bits).  The values cannot be enumerated: the reference works on interval lists, and the
# sample sequence consists of every endpoint of every reference bin / exclusion with its two neighbours, the type's
# extremes, zero and generated values.
WIDE_CW = [12, 16, 24, 31, 32, 33, 48, 63, 64]


def gen_wide_items(d, lo, hi, nmax=3, small=False):
    """values and ranges placed at the type's boundaries, around zero, at powers of two and anywhere"""
    def point():
        k = d.randint(0, 5)
        if k == 0:
            return lo + d.randint(0, 6)
        if k == 1:
            return hi - d.randint(0, 6)
        if k == 2:
            return max(lo, min(hi, d.randint(-4, 12)))
        if k == 3:
            p_ = (1 << d.randint(1, 63)) + d.randint(-2, 2)
            return max(lo, min(hi, p_ if d.chance(70) else -p_))
        return d.randint(lo, hi)
    items = []
    for _ in range(d.randint(1, nmax)):
        if d.chance(40):
            items.append(point())
        else:
            a = point()
            if small or d.chance(60):
                b = min(hi, a + d.randint(0, 9))
            else:
                b = min(hi, a + d.randint(10, max(10, (hi - lo) // d.choice([2, 3, 7, 1000, 1 << 20]))))
            items.append([a, b] if d.chance(60) else {"t": [a, b]})
    return items


@hyp.composite
def wide_cases(d):
    tk = d.weighted([(6, "bit"), (4, "int")])
    w = d.choice(WIDE_CW)
    t = {"kind": tk, "w": w}
    lo, hi = (-(1 << (w - 1)), (1 << (w - 1)) - 1) if tk == "int" else (0, (1 << w) - 1)
    cp = {"name": "cp", "target": "a"}
    if d.chance(25):
        cp["bins"] = None
    else:
        bins = []
        for i in range(d.randint(1, 4)):
            if d.chance(40):
                bins.append({"name": "b%d" % i, "kind": "bin", "items": gen_wide_items(d, lo, hi)})
            else:
                n = d.choice([None, 1, 2, 3, 4, 5, 7, 16])
                # an array without a count has one bin per value: small value sets only
                bins.append({"name": "b%d" % i, "kind": "arr", "n": n, "nstyle": d.choice(["list", "int"]) if n else "list",
                             "items": gen_wide_items(d, lo, hi, small=(n is None))})
        cp["bins"] = bins
    if d.chance(40):
        cp["ignore"] = [{"name": "ig%d" % i, "items": gen_wide_items(d, lo, hi, 2)} for i in range(d.randint(1, 2))]
    if d.chance(30):
        cp["illegal"] = [{"name": "il%d" % i, "items": gen_wide_items(d, lo, hi, 2)} for i in range(d.randint(1, 2))]
    if d.chance(20):
        cp["target_style"] = "callable"
    abm = d.choice([64, 1, 2, 3, 5, 8, 16])
    iff = d.choice([None, None, "field", "callable"])
    if iff:
        cp["iff"] = {iff: "en"}
    reg, ign, ill = cov.ref_bins_iv(cp, (lo, hi), abm)
    pts = set([lo, hi, max(lo, min(hi, 0))])
    for ivs in reg[:24] + reg[-8:] + ign + ill:
        for a, b in ivs[:4] + ivs[-2:]:
            for x in (a - 1, a, a + 1, b - 1, b, b + 1):
                if lo <= x <= hi:
                    pts.add(x)
    pts = sorted(pts)
    if len(pts) > 70:
        pts = d.sample(pts, 70)
    order = d.sample(pts, len(pts))
    for _ in range(d.randint(2, 8)):
        order.append(d.randint(lo, hi) if d.chance(60) else d.choice(order))
    samples = [[v, (1 if (not iff or d.chance(70)) else 0)] for v in order]
    cg = {"name": "CG", "params": [{"name": "a", "type": t}] + ([{"name": "en", "type": {"kind": "bit", "w": 1}}] if iff else []),
          "options": {"auto_bin_max": abm}, "cps": [cp]}
    return {"wide": True, "cg": cg, "enums": {}, "samples": samples}


def run_wide(case, prop=PROPERTY):
    _PROP[0] = prop
    cg = case["cg"]
    cp = cg["cps"][0]
    t = cg["params"][0]["type"]
    w = t["w"]
    lo, hi = (-(1 << (w - 1)), (1 << (w - 1)) - 1) if t["kind"] == "int" else (0, (1 << w) - 1)
    for b in (cp.get("bins") or []):
        if b["kind"] == "arr" and b.get("n") is None and cov.iv_count(cov.iv_norm(b["items"])) > 200:
            return [], {}        # (not a generated shape)
    reg, ign, ill = cov.ref_bins_iv(cp, (lo, hi), cg["options"]["auto_bin_max"])
    reset_library()
    try:
        ns = cov.build([cg], {})
        o = ns["CG"]()
        m = cov.cp_model(o, "cp")
    except Exception as e:
        reset_library()
        return [V("library_exception", "construction: " + exc_sig(e), case, repr(e)[:200])], {}
    info = {"nbins": len(reg)}
    h = cov.hits(m)
    if [len(x) for x in h] != [len(reg), len(ign), len(ill)]:
        return [V("bin_count", "regular/ignore/illegal bin counts differ from the reference", case,
                  "library %s, reference %s" % ([len(x) for x in h], [len(reg), len(ign), len(ill)]))], info
    has_iff = bool(cp.get("iff"))
    for v, en in case["samples"]:
        if not (isinstance(v, int) and lo <= v <= hi):
            continue
        bef = cov.hits(m)
        try:
            if has_iff:
                o.sample(v, en)
            else:
                o.sample(v)
        except Exception as e:
            reset_library()
            return [V("library_exception", "sample: " + exc_sig(e), case, "sample(%r) raised %r" % (v, e))], info
        gate = en if has_iff else 1
        after = cov.hits(m)
        for which, ref, b, a in (("regular", reg, bef[0], after[0]), ("ignore", ign, bef[1], after[1]), ("illegal", ill, bef[2], after[2])):
            exp = [(1 if (gate and cov.iv_contains(s_, v)) else 0) for s_ in ref]
            got = [x - y for x, y in zip(a, b)]
            if got != exp:
                hit_e = [i for i, x in enumerate(exp) if x]
                hit_g = [i for i, x in enumerate(got) if x]
                return [V("count_mismatch", "%s bins" % which, case,
                          "sample value %d (iff=%d): bins incremented %s, reference %s (reference bins there: %s)"
                          % (v, gate, hit_g, hit_e, [ref[i] for i in (hit_e + hit_g)[:3]]))], info
    return [], info


def nontrivial_wide(case):
    cg = case["cg"]
    cp = cg["cps"][0]
    excl = cov.iv_norm([i for b in (cp.get("ignore") or []) + (cp.get("illegal") or []) for i in b["items"]])
    if cp.get("bins") is None:
        return True          # 2^w values never divide evenly once anything is excluded; partitions of the whole type count too
    for b in cp["bins"]:
        vals = cov.iv_norm(b["items"])
        if cov.iv_sub(vals, excl) != vals:
            return True
        if sum(cov.iv_count(cov.iv_norm([i])) for i in b["items"]) != cov.iv_count(vals):
            return True
        if b["kind"] == "arr" and b.get("n") and b["n"] < cov.iv_count(vals) and cov.iv_count(vals) % b["n"] != 0:
            return True
    return False


def nontrivial(case):
    cg = case["cg"]
    cp = cg["cps"][0]
    t = cg.get("item") or cg["params"][0]["type"]
    tv = cov.type_values(t, case["enums"])
    excl = set()
    for b in (cp.get("ignore") or []) + (cp.get("illegal") or []):
        excl |= cov.values(b["items"])
    if cp.get("bins") is None:
        n = cg["options"]["auto_bin_max"]
        vals = set(tv) - excl
        if excl & set(tv):
            return True
        return (not cp.get("enum_auto")) and n < len(vals) and len(vals) % n != 0
    for b in cp["bins"]:
        vals = cov.values(b["items"])
        if vals & excl:
            return True
        if sum(len(cov.values([i])) for i in b["items"]) != len(vals):
            return True   # overlapping items
        if b["kind"] == "arr" and b.get("n") and b["n"] < len(vals) and len(vals) % b["n"] != 0:
            return True
    return False


def body(case, acc):
    if case.get("wide"):
        vios, info = run_wide(case)
        acc.case(case, nontrivial_wide(case), sample=text_of(case), n=1)
        t_ = case["cg"]["params"][0]["type"]
        acc.label("family:wide types (12-64 bits, interval reference)")
        acc.label("wide:%s%d" % (t_["kind"], t_["w"]))
        acc.label("wide:samples", len(case["samples"]))
        acc.label("wide:bins:auto" if case["cg"]["cps"][0].get("bins") is None else "wide:bins:explicit")
        return vios
    vios, info = run_case(case)
    cg = case["cg"]
    cp = cg["cps"][0]
    acc.case(case, nontrivial(case), sample=text_of(case), n=1)
    acc.label("samples", len(case["samples"]))
    acc.label("type:" + (cg.get("item") or cg["params"][0]["type"])["kind"])
    if cg.get("item"):
        acc.label("sampling: an object per sample (pool of 3 and new ones)")
    acc.label("bins:auto" if cp.get("bins") is None else "bins:explicit")
    if cp.get("ignore"):
        acc.label("has ignore bins")
    if cp.get("illegal"):
        acc.label("has illegal bins")
    if cp.get("iff"):
        acc.label("iff:" + list(cp["iff"])[0])
    if cp.get("target_style"):
        acc.label("target:" + cp["target_style"])
    if cp.get("boom"):
        acc.label("sample() calls during which the user's callable raised", info.get("raised", 0))
    for b in cp.get("bins") or []:
        acc.label("bin kind:" + b["kind"] + ("" if b["kind"] == "bin" else (":n" if b.get("n") else ":unbounded")))
    return vios


def shards(tier):
    n = 16
    per = 250 if tier == "quick" else 8000
    return [{"i": i, "n": per} for i in range(n)] + \
        [{"kind": "wide", "i": i, "n": 200 if tier == "quick" else 6000} for i in range(4 if tier == "quick" else 8)]


def run_shard(spec, seed, tier, acc):
    hyp.drive(wide_cases() if spec.get("kind") == "wide" else cases(), body, seed, spec["n"], acc)
    acc.exhaustive = None


def replay(case):
    if case.get("wide"):
        return run_wide(case)[0]
    return run_case(case)[0]
