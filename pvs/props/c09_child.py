"""Child process of the C09 check: executes a batch of scenarios under one variant and prints the value traces.

stdin: JSON {"variant": {...}, "scenarios": [...]} ; stdout (last line): JSON list of traces.
variant: {"noise": "none"|"other"|"global"|"churn", "diag": "off"|"debug"|"sfdebug"|"srcinfo", "gseed": int}
(PYTHONHASHSEED and VSC_CAPTURE_SRCINFO come from the environment.)
"""
import json
import os
import random
import sys


def main():
    import gc
    gc.disable()          # (pyboolector crashes when the cyclic collector finalises nodes after their solver: collect only
                          #  at scenario boundaries, after failed calls were defused and scrubbed)
    req = json.loads(sys.stdin.read())
    real_stdout = sys.stdout
    sys.stdout = open(os.devnull, "w")
    dn = os.open(os.devnull, os.O_WRONLY)
    saved_fd = os.dup(1)
    os.dup2(dn, 1)
    from pvs.core.util import import_vsc, reset_library
    vsc = import_vsc()
    from pvs.model import render, flat
    variant = req["variant"]
    out = []
    for sc in req["scenarios"]:
        try:
            out.append(run_scenario(vsc, render, flat, sc, variant))
        except Exception as e:
            out.append(["harness-exception", repr(e)[:200]])
            flat.defuse(e)
        reset_library()
        gc.collect()
    os.dup2(saved_fd, 1)
    real_stdout.write(json.dumps(out) + "\n")
    real_stdout.flush()


NOISE_SRC = '''
@vsc.randobj
class Noise(object):
    def __init__(self):
        self.p = vsc.rand_bit_t(8)
        self.q = vsc.rand_bit_t(8)
    @vsc.constraint
    def c(self):
        self.p < self.q
'''


def run_scenario(vsc, render, flat, sc, variant):
    from pvs.model.rand_helpers import mk_randstate as _mk
    sv = sc.get("strval")

    def mk_randstate(n):
        return _mk(n, sv)
    prog = sc["prog"]
    if variant["diag"] == "srcinfo":
        src = render.program_source(prog).replace("@vsc.randobj\n", "@vsc.randobj(srcinfo=True)\n")
    else:
        src = render.program_source(prog)
    import enum as _enum
    ns = {"vsc": vsc, "enum": _enum}
    exec(compile(src + NOISE_SRC, "<pvs-c09>", "exec"), ns)
    random.seed(sc["gseed"] if sc["state"] == "global" else variant["gseed"])
    cls = prog["classes"][-1]
    names = [f["name"] for f in cls["fields"]]
    lists = [l["name"] for l in cls.get("lists", [])]
    objs = [ns[cls["name"]]()]
    noise = ns["Noise"]()
    noise.set_randstate(mk_randstate(12345))
    if sc["state"] == "explicit":
        objs[0].set_randstate(mk_randstate(sc["seed"]))
    trace = []
    kw = {}
    if variant["diag"] == "debug":
        kw = {"debug": 1}
    elif variant["diag"] == "sfdebug":
        kw = {"solve_fail_debug": 1}
    junk = []
    for op in sc["ops"]:
        k = op[0]
        # ---- unrelated activity between calls
        nz = variant["noise"]
        if nz == "other":
            noise.randomize()
            other = ns["Noise"]()
            other.set_randstate(mk_randstate(777))
            other.randomize()
        elif nz == "global" and sc["state"] == "explicit":
            for _ in range(3):
                random.random()
            random.seed(op[-1] if isinstance(op[-1], int) else 5)
        elif nz == "churn":
            junk.append([object() for _ in range(257)])
            junk.append({i: str(i) for i in range(101)})
            if len(junk) > 6:
                del junk[:3]
        try:
            if k == "new":
                o = ns[cls["name"]]()
                if sc["state"] == "explicit":
                    o.set_randstate(mk_randstate(op[1]))
                objs.append(o)
                trace.append(["new"])
                continue
            o = objs[op[1] % len(objs)]
            if k == "rand":
                o.randomize(**kw)
            elif k == "rwith":
                render.call_inline(ns, o, op[2], "randomize_with", kw=kw or None)
            elif k == "reseed":
                o.set_randstate(mk_randstate(op[2]))
                trace.append(["reseed"])
                continue
            elif k == "unsat":
                render.call_inline(ns, o, [["expr", ["bin", "<", ["f", names[0]], ["lit", 0]]],
                                           ["expr", ["bin", ">", ["f", names[0]], ["lit", 0]]]], "randomize_with", kw=kw or None)
            vals = [int(getattr(o, n)) for n in names] + [[int(x) for x in getattr(o, l)] for l in lists]
            trace.append(vals)
        except Exception as e:
            # a failing call produces no values; which exception it raises under which diagnostic flag is not C09's
            # subject (C02 judges exception types at default flags)
            trace.append(["failed"])
            flat.defuse(e)
            for o_ in objs + [noise]:
                flat.scrub(o_)
    return trace


if __name__ == "__main__":
    main()
