"""C12 - instance and type coverage aggregate consistently and stay within 0..100."""
from ..core import hyp
from ..core.util import exc_sig, reset_library, cjson
from ..model import cov

PROPERTY = "C12"
LEVEL = "exploration"
RULE = ("cases = a generated covergroup class whose constructor parameter (partitioned range or value list) selects the bin "
        "set of one coverpoint (=> shapes; some shapes are prefixes of others), a second fixed coverpoint, optionally a cross, at_least/weight options at "
        "covergroup, coverpoint and cross level (weights incl. 0), and a generated history of operations: create an "
        "instance of a variant / sample instance i with generated values; after EVERY operation every live instance is "
        "compared with a dict-based model: own hit vectors, type hit vectors = bin-wise sum over same-shape instances, "
        "get_inst_coverage()/get_coverage() = weight-weighted mean of the share of bins that reached at_least (tolerance "
        "1e-3), within 0..100, non-decreasing.  non-trivial = >=2 shapes, >=2 instances of one shape and samples "
        "interleaved across instances; distinct = distinct canonical class+history")
ASSUMPTIONS = [
    "a coverpoint/cross without its own weight or at_least option inherits the covergroup's (the library's documented option resolution)",
    "options are set inside __init__ only; two shapes differ in bin count or value sets, never only in names",
    "at least one coverpoint/cross has a positive weight; coverage compared with tolerance 1e-3 (the library rounds to 4 places)",
    "type-level hit vectors are read through the type model reachable from the instance model (model getters)",
]

# constructor argument -> bin set of cp1.  ("part", n, hi): bin_array([n], [0, hi]);  ("vals", [v...]): bin_array([], v...)
# (several variants are prefix-related: the bins of one are the first bins of another)
VARIANTS = [["part", 2, 7], ["part", 4, 7], ["part", 2, 11], ["part", 3, 7], ["part", 2, 9], ["part", 1, 15], ["part", 16, 15],
            ["part", 3, 11], ["part", 4, 15], ["part", 1, 3],
            ["vals", [1, 2, 4]], ["vals", [1, 2, 4, 8]], ["vals", [1, 2]], ["vals", [2, 4, 8]], ["vals", [1, 2, 4, 8, 13]]]
# ("wild", pattern): one wildcard bin; several patterns agree on value & mask and differ in the mask only ("0b10xx" / "0b1000")
WILD_VARIANTS = [["wild", "0b10xx"], ["wild", "0b1000"], ["wild", "0b100x"], ["wild", "0bx1x0"], ["wild", "0b0100"], ["wild", "0bxx00"]]
CP1_EXPR = ("{'x': (vsc.bin_array([spec[1]], [0, spec[2]]) if spec[0] == 'part' else vsc.wildcard_bin(spec[1]) if spec[0] == 'wild' "
            "else vsc.bin_array([], *spec[1]))}")


def variant_bins(v):
    if not isinstance(v[0], str):       # (cases saved before the value-list style existed: [n, hi])
        v = ["part", v[0], v[1]]
    if v[0] == "part":
        return [set(x) for x in cov.partition(range(0, v[2] + 1), v[1])]
    if v[0] == "wild":
        return [{x for x in range(16) if cov.wild_match(x, [v[1]])}]
    return [{x} for x in v[1]]


@hyp.composite
def cases(d):
    nvar = d.randint(1, 3)
    variants = d.sample(VARIANTS, nvar)
    if nvar >= 2 and d.chance(20):
        # wildcard bins given by the constructor argument: patterns with the same compared value and different masks
        variants = d.sample(WILD_VARIANTS, nvar)
    elif nvar >= 2 and d.chance(35):
        # force a prefix-related pair
        variants[:2] = d.choice([[["vals", [1, 2, 4]], ["vals", [1, 2, 4, 8]]], [["vals", [1, 2, 4, 8]], ["vals", [1, 2]]],
                                 [["part", 2, 7], ["part", 3, 11]], [["part", 4, 15], ["part", 3, 11]], [["part", 1, 3], ["part", 2, 7]]])
    opts = {}
    if d.chance(50):
        opts["at_least"] = d.choice([1, 2, 3])
    if d.chance(30):
        opts["weight"] = d.choice([1, 2, 5])
    cp1o, cp2o, xo = {}, {}, {}
    if d.chance(40):
        cp1o["weight"] = d.choice([1, 2, 0, 3])
    if d.chance(30):
        cp2o["weight"] = d.choice([1, 3, 2])
    if d.chance(30):
        cp1o["at_least"] = d.choice([1, 2])
    if d.chance(20):
        cp2o["at_least"] = d.choice([1, 2, 4])
    has_cross = d.chance(40)
    if has_cross and d.chance(40):
        xo["weight"] = d.choice([1, 0, 2])
    if has_cross and d.chance(30):
        xo["at_least"] = d.choice([1, 2])
    cg = {"name": "CG", "ctor_args": ["spec"],
          "params": [{"name": "a", "type": {"kind": "bit", "w": 4}}, {"name": "b", "type": {"kind": "bit", "w": 4}}],
          "options": opts,
          "cps": [{"name": "cp1", "target": "a", "bins": [], "bins_expr": CP1_EXPR, "options": cp1o or None},
                  {"name": "cp2", "target": "b", "bins": [{"name": "y", "kind": "bin", "items": [1, 2]},
                                                          {"name": "z", "kind": "bin", "items": [[5, 9]]}],
                   "options": cp2o or None}]}
    if has_cross:
        cg["crosses"] = [{"name": "x0", "cps": ["cp1", "cp2"], "options": xo or None}]
    gated = d.chance(35)
    if gated:
        # the first coverpoint has a sampling condition of its own (a field or a callable): while it is false neither the
        # coverpoint nor a cross over it counts - in the instance and in the type
        cg["params"].append({"name": "en", "type": {"kind": "bit", "w": 1}})
        cg["cps"][0]["iff"] = {d.choice(["field", "callable"]): "en"}
    ops = [["new", 0]]
    ninst = 1
    for _ in range(d.randint(3, 30)):
        if ninst < 5 and d.chance(18):
            ops.append(["new", d.randint(0, nvar - 1)])
            ninst += 1
        else:
            ops.append(["sample", d.randint(0, ninst - 1), d.randint(0, 15), d.randint(0, 15)] + ([1 if d.chance(65) else 0] if gated else []))
    return {"cg": cg, "variants": [list(v) for v in variants], "ops": ops}


def text_of(case):
    return cov.cg_source(case["cg"]) + "# variants (constructor argument spec): %s\n# ops: %s" % (cjson(case["variants"]), cjson(case["ops"]))


def V(kind, detail, case, extra=None):
    v = {"property": PROPERTY, "kind": kind, "detail": detail, "case": case, "text": text_of(case)}
    if extra:
        v["text"] += "\n# " + extra
    return v


def resolved(cg, item):
    """(weight, at_least) of a coverpoint/cross spec under the covergroup's options"""
    co = cg.get("options") or {}
    io = item.get("options") or {}
    return (io.get("weight", co.get("weight", 1)), io.get("at_least", co.get("at_least", 1)))


class Model:
    def __init__(self, case):
        self.case = case
        self.cg = case["cg"]
        self.inst = []       # dict(shape, h1, h2, hx)
        self.b2 = [{1, 2}, {5, 6, 7, 8, 9}]

    def new(self, variant):
        b1 = variant_bins(variant)
        shape = tuple(tuple(sorted(s)) for s in b1)
        self.inst.append({"shape": shape, "b1": b1, "h1": [0] * len(b1), "h2": [0, 0], "hx": [0] * (len(b1) * 2)})

    def sample(self, i, a, b, en=1):
        m = self.inst[i]
        k1 = [k for k, s in enumerate(m["b1"]) if a in s] if en else []
        k2 = [k for k, s in enumerate(self.b2) if b in s]
        for k in k1:
            m["h1"][k] += 1
        for k in k2:
            m["h2"][k] += 1
        if k1 and k2:
            m["hx"][k1[0] * 2 + k2[0]] += 1

    def type_hits(self, i):
        shape = self.inst[i]["shape"]
        same = [m for m in self.inst if m["shape"] == shape]
        n1 = len(self.inst[i]["h1"])
        return ([sum(m["h1"][k] for m in same) for k in range(n1)],
                [sum(m["h2"][k] for m in same) for k in range(2)],
                [sum(m["hx"][k] for m in same) for k in range(n1 * 2)])

    def coverage(self, h1, h2, hx):
        cg = self.cg
        items = [(cg["cps"][0], h1), (cg["cps"][1], h2)]
        if cg.get("crosses"):
            items.append((cg["crosses"][0], hx))
        num = den = 0.0
        per = []
        for spec, h in items:
            w, al = resolved(cg, spec)
            c = 100.0 * sum(1 for x in h if x >= al) / len(h)
            per.append(c)
            num += w * c
            den += w
        return (num / den if den else None), per


def run_case(case):
    cg = case["cg"]
    reset_library()
    try:
        ns = cov.build([cg])
    except Exception as e:
        reset_library()
        return [V("library_exception", "construction: " + exc_sig(e), case, repr(e)[:200])], {}
    model = Model(case)
    objs = []
    last_cov = {}
    info = {"shapes": 0, "interleaved": False, "max_same_shape": 0}
    last_sampled = None
    has_cross = bool(cg.get("crosses"))
    for step, op in enumerate(case["ops"]):
        try:
            if op[0] == "new":
                v = case["variants"][op[1]]
                objs.append(ns["CG"](tuple(v)) if isinstance(v[0], str) else ns["CG"](v[0], v[1]))
                model.new(v)
            else:
                if case["cg"]["cps"][0].get("iff"):
                    en_ = op[4] if len(op) > 4 else 1
                    objs[op[1]].sample(op[2], op[3], en_)
                    model.sample(op[1], op[2], op[3], en_)
                else:
                    objs[op[1]].sample(op[2], op[3])
                    model.sample(op[1], op[2], op[3])
                if last_sampled is not None and last_sampled != op[1]:
                    info["interleaved"] = True
                last_sampled = op[1]
        except Exception as e:
            reset_library()
            return [V("library_exception", "%s: %s" % (op[0], exc_sig(e)), case, "step %d %s raised %r" % (step, op, e))], info
        # invariants over every live instance
        for i, o in enumerate(objs):
            m = model.inst[i]
            try:
                cm = o.get_model()
                got1 = [cm.coverpoint_l[0].get_bin_hits(k) for k in range(cm.coverpoint_l[0].get_n_bins())]
                got2 = [cm.coverpoint_l[1].get_bin_hits(k) for k in range(cm.coverpoint_l[1].get_n_bins())]
                gotx = [cm.cross_l[0].get_bin_hits(k) for k in range(cm.cross_l[0].get_n_bins())] if has_cross else None
                tm = cm.type_cg
                t1 = [tm.coverpoint_l[0].get_bin_hits(k) for k in range(tm.coverpoint_l[0].get_n_bins())]
                t2 = [tm.coverpoint_l[1].get_bin_hits(k) for k in range(tm.coverpoint_l[1].get_n_bins())]
                tx = [tm.cross_l[0].get_bin_hits(k) for k in range(tm.cross_l[0].get_n_bins())] if has_cross else None
                ic = o.get_inst_coverage()
                tc = o.get_coverage()
                cpi = [o.cp1.get_inst_coverage(), o.cp2.get_inst_coverage()]
            except Exception as e:
                reset_library()
                return [V("library_exception", "query: " + exc_sig(e), case, "step %d instance %d: %r" % (step, i, e))], info
            where = "step %d (%s), instance %d" % (step, cjson(op), i)
            if got1 != m["h1"] or got2 != m["h2"] or (has_cross and gotx != m["hx"]):
                return [V("instance_hits", "an instance's hit counts differ from its own samples", case,
                          "%s: library %s %s %s, model %s %s %s" % (where, got1, got2, gotx, m["h1"], m["h2"], m["hx"]))], info
            e1, e2, ex = model.type_hits(i)
            if t1 != e1 or t2 != e2 or (has_cross and tx != ex):
                return [V("type_hits", "type hit counts are not the bin-wise sum over same-shape instances", case,
                          "%s: library type %s %s %s, model %s %s %s" % (where, t1, t2, tx, e1, e2, ex))], info
            eic, per = model.coverage(m["h1"], m["h2"], m["hx"])
            etc, _ = model.coverage(e1, e2, ex)
            for name, got, exp in (("get_inst_coverage", ic, eic), ("get_coverage", tc, etc),
                                   ("cp1.get_inst_coverage", cpi[0], per[0]), ("cp2.get_inst_coverage", cpi[1], per[1])):
                if not (0.0 <= got <= 100.0):
                    return [V("coverage_range", name, case, "%s: %s() = %r" % (where, name, got))], info
                if exp is not None and abs(got - exp) > 1e-3:
                    return [V("coverage_value", name, case, "%s: %s() = %r, model %r (hits %s %s %s)"
                              % (where, name, got, exp, m["h1"], m["h2"], m["hx"]))], info
                key = (i, name)
                if key in last_cov and got < last_cov[key] - 1e-9:
                    return [V("coverage_decreased", name, case, "%s: %s() went from %r to %r" % (where, name, last_cov[key], got))], info
                last_cov[key] = got
    shapes = {}
    for m in model.inst:
        shapes[m["shape"]] = shapes.get(m["shape"], 0) + 1
    info["shapes"] = len(shapes)
    info["max_same_shape"] = max(shapes.values())
    return [], info


def body(case, acc):
    vios, info = run_case(case)
    nt = info.get("shapes", 0) >= 2 and info.get("max_same_shape", 0) >= 2 and info.get("interleaved")
    acc.case(case, nt, sample=text_of(case))
    acc.label("ops", len(case["ops"]))
    if case["cg"]["cps"][0].get("iff"):
        acc.label("coverpoint with its own iff (gated samples)")
    cg = case["cg"]
    if cg.get("crosses"):
        acc.label("has cross")
    o = cg.get("options") or {}
    if o.get("at_least", 1) > 1 or any((c.get("options") or {}).get("at_least", 1) > 1 for c in cg["cps"]):
        acc.label("at_least > 1 somewhere")
    if any("weight" in (c.get("options") or {}) for c in cg["cps"] + cg.get("crosses", [])):
        acc.label("explicit coverpoint/cross weight")
    if any((c.get("options") or {}).get("weight") == 0 for c in cg["cps"] + cg.get("crosses", [])):
        acc.label("weight 0 somewhere")
    acc.label("shapes:%d" % info.get("shapes", 0))
    return vios


def shards(tier):
    per = 150 if tier == "quick" else 5000
    return [{"i": i, "n": per} for i in range(16)]


def run_shard(spec, seed, tier, acc):
    hyp.drive(cases(), body, seed, spec["n"], acc)


def replay(case):
    return run_case(case)[0]
