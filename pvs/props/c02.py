"""C02 - SolveFailure is raised exactly when the hard constraints are unsatisfiable."""
from ..core import hyp
from . import solve_engine as E
from . import c04
from . import c17

PROPERTY = "C02"
LEVEL = "exploration"
RULE = ("cases = generated flat constraint programs (1-4 scalar/enum fields of width 1..64 both signednesses, 1-2 class "
        "blocks, optional inline block; comparison, arithmetic, bitwise, shift, part-select, in/rangelist, if/else-if/"
        "else, implies, unique, Boolean composition) x current values x call kind x random-state seed; small-domain "
        "programs are judged against the exhaustively enumerated reference solution set, wide ones against a hidden "
        "anchored assignment; every returned state is evaluated by the reference semantics, and pinned probes "
        "(members, single-violation witnesses per statement, non-members, bit-flipped v*) check both directions; a third "
        "family takes list programs (C04's generator without random-size lists, most foreach statements carrying an if/else-if/else "
        "chain whose conditions mix non-random scalars, the foreach index, random scalars and elements - the conditions "
        "the library folds to constants before solving) and judges SolveFailure / return / other exception against the "
        "enumerated solution set over scalar and element values; a fourth family makes the outer call after pre_randomize has "
        "itself randomized the random sub-object (nested call), which must not change what the outer call may return. "
        "non-trivial = at least one call returned and was checked AND (small domain: satisfiable with the solution set "
        "a proper subset of the value space | wide: a probe ran); distinct = distinct canonical program+calls")
ASSUMPTIONS = [
    "reference semantics: context-width propagation, sign-extension iff both operands of a node are signed (per-node rule)",
    "python int literals within int32; sized literals within their width; ~ only on 1-bit operands; / % with non-zero literal divisor and an unsigned dividend; * / % on operands <= 8 bits",
    "statements that reference no field (literal-only comparisons) are generated too: they must hold like any other",
]
WANT = ("C02",)


def shards(tier):
    n = 12 if tier == "quick" else 16
    per = 220 if tier == "quick" else 6000
    out = [{"kind": "enum", "i": i, "n": per} for i in range(n)]
    out += [{"kind": "wide", "i": i, "n": per} for i in range(4 if tier == "quick" else 8)]
    out += [{"kind": "foreach", "i": i, "n": 90 if tier == "quick" else 2500} for i in range(6 if tier == "quick" else 8)]
    out += [{"kind": "nested", "i": 0, "n": 60 if tier == "quick" else 2000}]
    return out


C02_KINDS = ("spurious_solve_failure", "returned_on_unsat", "library_exception")


@hyp.composite
def foreach_cases(d):
    case = c04._cases(d, p_fold=60, no_randsz=True)
    case["mode"] = "foreach"
    return case


def run_foreach(case):
    vios, info = c04.run_case(case)
    out = []
    for v in vios:
        if v["kind"] in C02_KINDS:
            out.append(dict(v, property=PROPERTY))
    return out, info


def run_nested(case):
    vios, info = c17.run_nested(case)
    return [dict(v, property=PROPERTY) for v in vios if v["kind"] in C02_KINDS], info


def body_nested(case, acc):
    vios, info = run_nested(case)
    acc.case(case, info.get("nested_calls", 0) > 0, sample=c17.NESTED_SRC % {"k0": case["k0"], "lo": case["lo"], "lim": case["lim"]})
    acc.label("family:outer call after a nested randomize in pre_randomize")
    return vios


def body_foreach(case, acc):
    vios, info = run_foreach(case)
    folds = sum(1 for s in case["prog"]["classes"][0]["blocks"][0]["stmts"] if s[0] == "foreach" and any(b[0] == "if" for b in s[4]))
    acc.case(case, info.get("returned", 0) > 0 and folds > 0 and info.get("len2", False), sample=c04.text_of(case))
    acc.label("family:foreach with if/else chains")
    acc.label("if/else chains inside foreach", folds)
    return vios


def body(case, acc):
    if case.get("mode") == "foreach":
        return body_foreach(case, acc)
    if case.get("nested_call"):
        return body_nested(case, acc)
    vios, info = E.run_case(case, acc, WANT)
    if case["mode"] == "enum":
        nt = info.get("returned", 0) > 0 and 0 < info.get("nsol", 0) < info.get("space", 0)
    else:
        nt = info.get("returned", 0) > 0 and info.get("probes", 0) > 0
    acc.case(case, nt, sample=E.text_of(case))
    E.classify(case, info, acc)
    return vios


def run_shard(spec, seed, tier, acc):
    strat = {"enum": E.enum_cases, "wide": E.wide_cases, "foreach": foreach_cases, "nested": c17.nested_cases}[spec["kind"]]()
    hyp.drive(strat, body, seed, spec["n"], acc, shrink=True)


def replay(case):
    if case.get("mode") == "foreach":
        return run_foreach(case)[0]
    if case.get("nested_call"):
        return run_nested(case)[0]
    vios, _ = E.run_case(case, None, WANT)
    return vios
