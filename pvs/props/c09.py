"""C09 - random stability: results depend only on seed, model and call history."""
import json
import os
import subprocess
import sys

from ..core import hyp
from ..core.util import reset_library, cjson, exc_sig, import_vsc, VERIF, REPO_SRC
from ..model import sem, gen, flat, render

PROPERTY = "C09"
LEVEL = "exploration"
RULE = ("(1) cross-process metamorphic: generated scenarios (class with several rand sets, a list with foreach and with "
        "constant-subscript element references that merge rand sets, dist, "
        "solve_order, soft; explicit RandState seed or global random.seed; history of randomize / randomize_with / new "
        "instance / reseed / unsatisfiable call) are executed in fresh child processes under a baseline and under variants "
        "covering every level of PYTHONHASHSEED {0,1,4242}, global random.seed {1,2} (explicit-state scenarios), unrelated "
        "activity {none, other objects randomised, draws from the global random module, allocation churn} and diagnostics "
        "{off, debug=1, solve_fail_debug=1, srcinfo=True, VSC_CAPTURE_SRCINFO=1}; all value traces must be identical.  "
        "(2) snapshot histories in-process: randomize, failing calls, snap=get_randstate(), set_randstate(snap), one RandState seeding "
        "several objects, mutating a state object after handing it over, an object that never gets an explicit state (snapshot taken before its first call); restoring a snapshot must replay exactly the "
        "values that followed it and snapshots must be independent copies.  non-trivial = scenario with >=2 rand sets, an "
        "ordering directive or dist and >=5 calls compared under >=6 variants / a history with a restore after >=2 draws; "
        "distinct = distinct canonical scenario")
ASSUMPTIONS = [
    "memory layout is approximated by hash-seed variation and allocation churn (id()-keyed containers are not perturbed by PYTHONHASHSEED)",
    "global-random noise is applied only to scenarios with an explicit RandState (without one the global module is the state)",
    "traces are compared as values, never as printed text; a failing call is recorded as 'failed' whatever it raises (with solve_fail_debug=1 the diagnostics builder raises TypeError on some unsatisfiable systems instead of SolveFailure - noted, outside this property)",
]

VARIANTS_QUICK = [
    {"hash": "1", "gseed": 2, "noise": "other", "diag": "debug", "env": {}},
    {"hash": "4242", "gseed": 1, "noise": "global", "diag": "sfdebug", "env": {}},
    {"hash": "0", "gseed": 2, "noise": "churn", "diag": "srcinfo", "env": {}},
    {"hash": "1", "gseed": 1, "noise": "none", "diag": "off", "env": {"VSC_CAPTURE_SRCINFO": "1"}},
    {"hash": "4242", "gseed": 2, "noise": "other", "diag": "off", "env": {}},
    {"hash": "0", "gseed": 1, "noise": "global", "diag": "debug", "env": {}},
]
BASELINE = {"hash": "0", "gseed": 1, "noise": "none", "diag": "off", "env": {}}


def all_variants():
    out = []
    for h in ("0", "1", "4242"):
        for g in (1, 2):
            for nz in ("none", "other", "global", "churn"):
                for dg, env in (("off", {}), ("debug", {}), ("sfdebug", {}), ("srcinfo", {}), ("off", {"VSC_CAPTURE_SRCINFO": "1"})):
                    v = {"hash": h, "gseed": g, "noise": nz, "diag": dg, "env": env}
                    if v != BASELINE:
                        out.append(v)
    return out


@hyp.composite
def scenarios(d):
    fs = []
    for i in range(d.randint(2, 5)):
        w = d.choice([2, 3, 4, 8])
        sg = d.chance(25)
        f = {"name": "f%d" % i, "kind": "int" if sg else "bit", "w": w, "signed": sg, "rand": i < 2 or d.chance(85)}
        f["init"] = gen.rand_in_type(d, f)
        fs.append(f)
    enums = {}
    if d.chance(45):
        # a random enum field that the statements below usually do not mention (drawn outside every rand set)
        enums = {"E1": {"int": True, "members": [["A", 0], ["B", 1], ["C", 5], ["D", 9]]}}
        fs.append({"name": "e0", "kind": "enum", "w": 32, "signed": True, "rand": True, "enum": "E1", "dom": [0, 1, 5, 9], "init": 0})
    g = gen.G(d, [f for f in fs if f["kind"] != "enum" or d.chance(30)], enums, mul_max_w=4)
    stmts = []
    for _ in range(d.randint(1, 3)):
        stmts.append(g.field_stmt(1))
    rf = [f for f in fs if f["rand"] and not f["signed"]]
    if len(rf) >= 2 and d.chance(50):
        a, b = d.sample(rf, 2)
        stmts.append(["order", [a["name"]], [b["name"]]])
    if rf and d.chance(50):
        t = d.choice(rf)
        hi = (1 << t["w"]) - 1
        stmts.append(["dist", ["f", t["name"]], [[["lit", 0], ["lit", 1]], [["rng", ["lit", 1], ["lit", min(hi, 3)]], ["lit", 3]],
                                                 [["lit", hi], ["lit", 2]]] if hi > 3 else [[["lit", 0], ["lit", 1]], [["lit", hi], ["lit", 2]]]])
    if d.chance(40):
        stmts.append(["soft", g.cmp(0)])
    lists = []
    blocks = [{"name": "c0", "stmts": stmts}]
    if d.chance(50):
        lists.append({"name": "l", "elem": {"kind": "bit", "w": 4}, "mode": "fixed", "size": d.randint(2, 4)})
        blocks.append({"name": "c1", "stmts": [["foreach", "l", "i", None,
                                                [["expr", ["bin", "<", ["el", "l", ["iv", "i"], None], ["lit", d.randint(5, 15)]]]]]]})
        if d.chance(60):
            # statements naming single elements by a constant subscript next to scalar fields of another rand set: the
            # order in which rand sets meet and merge decides the order of fields and solver variables
            rs = [f for f in fs if f["rand"]]
            j = d.randint(0, lists[0]["size"] - 1)
            elj = ["el", "l", ["lit", j], None]
            extra = [["expr", ["bin", d.choice(["!=", "<=", ">="]), ["f", rs[0]["name"]], ["f", rs[1]["name"]]]],
                     ["expr", ["bin", d.choice([">", ">=", "!="]), elj, ["lit", d.randint(0, 3)]]],
                     ["expr", ["bin", "!=", ["f", d.choice(rs[:2])["name"]], elj]]]
            if d.chance(50):
                extra.append(["expr", ["bin", "!=", ["el", "l", ["lit", (j + 1) % lists[0]["size"]], None], ["f", d.choice(rs)["name"]]]])
            blocks.append({"name": "c2", "stmts": extra})
    cls = {"name": "T", "fields": fs, "lists": lists, "blocks": blocks}
    ops = []
    for _ in range(d.randint(3, 10)):
        r = d.randint(0, 99)
        if r < 55:
            ops.append(["rand", d.randint(0, 2)])
        elif r < 75:
            ops.append(["rwith", d.randint(0, 2), [g.field_stmt(0)]])
        elif r < 85:
            ops.append(["new", d.seed()])
        elif r < 93:
            ops.append(["reseed", d.randint(0, 2), d.seed()])
        else:
            ops.append(["unsat", d.randint(0, 2)])
    return {"prog": {"enums": enums, "classes": [cls]}, "state": d.choice(["explicit", "explicit", "global"]), "seed": d.seed(),
            "gseed": d.seed(), "ops": ops,
            # the documented two-argument form RandState.mkFromSeed(seed, "string") in half of the scenarios
            "strval": d.choice([None, None, "abc", "inst.path[3]", ""])}


def run_child(scs, variant, timeout=600):
    env = dict(os.environ)
    env["PYTHONHASHSEED"] = variant["hash"]
    env["PYTHONPATH"] = VERIF + os.pathsep + REPO_SRC + (os.pathsep + env["PYTHONPATH"] if env.get("PYTHONPATH") else "")
    env["PYTHONDONTWRITEBYTECODE"] = "1"
    env.pop("VSC_CAPTURE_SRCINFO", None)
    env.update(variant.get("env") or {})
    req = json.dumps({"variant": {"noise": variant["noise"], "diag": variant["diag"], "gseed": variant["gseed"]}, "scenarios": scs})
    p = subprocess.run([sys.executable, "-m", "pvs.props.c09_child"], input=req, capture_output=True, text=True, env=env,
                       timeout=timeout, cwd=VERIF)
    if p.returncode != 0:
        raise RuntimeError("child failed rc=%d: %s" % (p.returncode, p.stderr[-600:]))
    lines = [l for l in p.stdout.splitlines() if l.strip()]
    return json.loads(lines[-1])


def text_of(sc):
    return render.program_source(sc["prog"]) + "# state: %s seed=%s gseed=%s\n# ops: %s" % (sc["state"], sc["seed"], sc["gseed"], cjson(sc["ops"]))


def V(kind, detail, case, extra=None):
    sc = case["scenario"] if "scenario" in case else case
    v = {"property": PROPERTY, "kind": kind, "detail": detail, "case": case, "text": text_of(sc) if "prog" in sc else cjson(sc)}
    if extra:
        v["text"] += "\n# " + extra
    return v


def vkey(v):
    return "hash=%s gseed=%s noise=%s diag=%s%s" % (v["hash"], v["gseed"], v["noise"], v["diag"], " VSC_CAPTURE_SRCINFO=1" if v.get("env") else "")


def compare(scs, variants, acc):
    base = run_child(scs, BASELINE)
    vios = []
    for v in variants:
        got = run_child(scs, v)
        acc.label("variant:" + vkey(v))
        for i, (a, b) in enumerate(zip(base, got)):
            if a != b and not any(x["case"]["scenario"] is scs[i] for x in vios):
                k = 0
                while k < min(len(a), len(b)) and a[k] == b[k]:
                    k += 1
                factor = []
                for key in ("hash", "gseed", "noise", "diag"):
                    if v[key] != BASELINE[key]:
                        factor.append(key)
                if v.get("env"):
                    factor.append("VSC_CAPTURE_SRCINFO")
                # isolate: which single factor is enough?
                single = []
                try:
                    for key in list(factor):
                        v1 = dict(BASELINE)
                        if key == "VSC_CAPTURE_SRCINFO":
                            v1["env"] = v["env"]
                        else:
                            v1[key] = v[key]
                        if run_child([scs[i]], v1)[0] != a:
                            single.append(key)
                except Exception:
                    pass
                if single:
                    factor = ["%s alone" % "/".join(single)]
                    v = dict(BASELINE)
                    k0 = single[0]
                    if k0 == "VSC_CAPTURE_SRCINFO":
                        v["env"] = {"VSC_CAPTURE_SRCINFO": "1"}
                    else:
                        v[k0] = [x for x in variants if x[k0] != BASELINE[k0]][0][k0]
                    b = run_child([scs[i]], v)[0]
                vios.append(V("trace_differs", "values differ between processes that differ only in: %s" % "+".join(factor),
                              {"scenario": scs[i], "variant": v},
                              "variant %s: first difference at op #%d: baseline %s, variant %s" % (vkey(v), k, a[k] if k < len(a) else None, b[k] if k < len(b) else None)))
    return base, vios


# ------------------------------------------------------------------------------------------------
# (2) snapshot histories
@hyp.composite
def snap_cases(d):
    ops = []
    for _ in range(d.randint(4, 14)):
        r = d.randint(0, 99)
        if r < 12:
            # a call whose inline constraint bounds the size of the random-size list from above (0) or below (1): the
            # elements a larger solve left behind take no part in a later, smaller one
            ops.append(["randw", d.randint(0, 1), d.randint(0, 1)])
        elif r < 38:
            ops.append(["rand", d.randint(0, 1)])
        elif r < 45:
            ops.append(["fail", d.randint(0, 1)])       # a call that raises SolveFailure (contradictory inline constraint)
        elif r < 52:
            ops.append(["gnoise", d.seed()])            # unrelated use of Python's global random module
        elif r < 60:
            ops.append(["snap", d.randint(0, 1)])
        elif r < 80:
            ops.append(["restore", d.randint(0, 1), d.randint(0, 3)])
        elif r < 90:
            ops.append(["share", d.seed()])
        else:
            ops.append(["mutate_after_handover", d.randint(0, 1), d.seed()])
    case = {"kind": "snap", "seed": d.seed(), "ops": ops}
    if d.chance(35):
        # the second object never gets an explicit state: it runs on the default state derived from Python's global random
        # seed, whenever that happens first (a randomize call or a get_randstate() before any call)
        case["default1"] = True
        if d.chance(60):
            ops.insert(d.randint(0, 2), ["snap", 1])
    return case


SNAP_SRC = '''
class E1(enum.IntEnum):
    A = 0
    B = 1
    C = 5
    D = 9

@vsc.randobj
class T(object):
    def __init__(self):
        self.e = vsc.rand_enum_t(E1)
        self.a = vsc.rand_bit_t(8)
        self.b = vsc.rand_bit_t(8)
        self.c = vsc.rand_bit_t(4)
        self.l = vsc.rand_list_t(vsc.bit_t(4), sz=3)
        self.r = vsc.randsz_list_t(vsc.bit_t(3))
    @vsc.constraint
    def ab(self):
        self.r.size <= 4
        self.a < self.b
        vsc.solve_order(self.a, self.b)
        vsc.dist(self.c, [vsc.weight(1, 1), vsc.weight(vsc.rng(4, 9), 2)])
'''


def run_snap(case):
    vsc = import_vsc()
    from ..model.rand_helpers import mk_randstate
    import enum as _enum
    reset_library()
    ns = {"vsc": vsc, "enum": _enum}
    exec(compile(SNAP_SRC, "<pvs-c09-snap>", "exec"), ns)
    objs = [ns["T"](), ns["T"]()]
    import random as _random_mod
    _random_mod.seed(case["seed"])
    for i, o in enumerate(objs):
        if i == 1 and case.get("default1"):
            continue
        o.set_randstate(mk_randstate(case["seed"] + i))
    snaps = []          # (object index, snapshot, values that followed so far)
    info = {"restores_after_draws": 0}

    def vals(o):
        return (int(o.a), int(o.b), int(o.c), tuple(int(x) for x in o.l), int(o.e), tuple(int(x) for x in o.r))

    def txt(extra):
        return SNAP_SRC + "# seed %d\n# ops: %s\n# %s" % (case["seed"], cjson(case["ops"]), extra)
    following = {0: [], 1: []}       # per object: list of lists being recorded

    def failing_call(o):
        try:
            with o.randomize_with() as it:
                it.a == 1
                it.a == 2
        except vsc.SolveFailure as e:
            from ..model import flat
            flat.defuse(e)
            flat.scrub(o)
            return True
        return False
    def call(o, w):
        if w is None:
            o.randomize()
        elif w == 0:
            with o.randomize_with() as it:
                it.r.size <= 1
        else:
            with o.randomize_with() as it:
                it.r.size >= 3
    for step, op in enumerate(case["ops"]):
        k = op[0]
        if k == "gnoise":
            import random as _random
            _random.seed(op[1])
            _random.random()
            continue
        if k == "fail":
            o = objs[op[1]]
            if not failing_call(o):
                return [], info          # (C02's subject)
            info["fails"] = info.get("fails", 0) + 1
            for rec in following[op[1]]:
                rec.append("FAIL")
        elif k in ("rand", "randw"):
            o = objs[op[1]]
            call(o, op[2] if k == "randw" else None)
            v = (op[2] if k == "randw" else None, vals(o))
            for rec in following[op[1]]:
                rec.append(v)
        elif k == "snap":
            rec = []
            snaps.append((op[1], objs[op[1]].get_randstate(), rec))
            following[op[1]].append(rec)
        elif k == "restore":
            if not snaps:
                continue
            oi, st, rec = snaps[op[2] % len(snaps)]
            tgt = objs[op[1]]
            n = len(rec)
            tgt.set_randstate(st)
            # everything recorded for this target from older snapshots is cut off here
            following[op[1]] = []
            replay = []
            for j in range(n):
                if rec[j] == "FAIL":
                    failing_call(tgt)
                    replay.append("FAIL")
                    continue
                call(tgt, rec[j][0])
                replay.append((rec[j][0], vals(tgt)))
            if n >= 2:
                info["restores_after_draws"] += 1
            if replay != rec:
                return [{"property": PROPERTY, "kind": "snapshot_replay", "detail": "restoring a snapshot does not replay the values that followed it",
                         "case": case, "text": txt("step %d %s: after set_randstate(snapshot) got %s, the values that followed the snapshot were %s"
                                                  % (step, op, replay[:3], rec[:3]))}], info
            # the snapshot must still be usable (set_randstate copies its argument): replay once more on the other object
            other = objs[1 - op[1]]
            other.set_randstate(st)
            following[1 - op[1]] = []
            replay2 = []
            for j in range(n):
                if rec[j] == "FAIL":
                    failing_call(other)
                    replay2.append("FAIL")
                    continue
                call(other, rec[j][0])
                replay2.append((rec[j][0], vals(other)))
            if replay2 != rec:
                return [{"property": PROPERTY, "kind": "snapshot_not_independent", "detail": "a RandState used to seed one replay cannot seed a second one",
                         "case": case, "text": txt("step %d %s: second replay from the same snapshot got %s, expected %s" % (step, op, replay2[:3], rec[:3]))}], info
        elif k == "share":
            st = mk_randstate(op[1])
            seqs = []
            for o in objs:
                o.set_randstate(st)
                following[objs.index(o)] = []
                s = []
                for _ in range(2):
                    o.randomize()
                    s.append(vals(o))
                seqs.append(s)
            if seqs[0] != seqs[1]:
                return [{"property": PROPERTY, "kind": "shared_state_not_copied", "detail": "one RandState seeding two objects gives different sequences",
                         "case": case, "text": txt("step %d: %s vs %s" % (step, seqs[0], seqs[1]))}], info
        elif k == "mutate_after_handover":
            st = mk_randstate(op[2])
            ref = ns["T"]()
            ref.set_randstate(mk_randstate(op[2]))
            ref.randomize()
            o = objs[op[1]]
            o.set_randstate(st)
            following[op[1]] = []
            st.randint(0, 1000)            # advance the caller's state object after handing it over
            st.rand_u()
            o.randomize()
            if vals(o) != vals(ref):
                return [{"property": PROPERTY, "kind": "set_randstate_aliases_argument", "detail": "mutating a RandState after set_randstate changes the object's sequence",
                         "case": case, "text": txt("step %d: got %s, expected %s" % (step, vals(o), vals(ref)))}], info
            snap = o.get_randstate()
            snap.randint(0, 1000)          # advancing the returned snapshot must not affect the object
            ref.randomize()
            o.randomize()
            if vals(o) != vals(ref):
                return [{"property": PROPERTY, "kind": "get_randstate_aliases_state", "detail": "mutating the object returned by get_randstate changes the object's sequence",
                         "case": case, "text": txt("step %d: got %s, expected %s" % (step, vals(o), vals(ref)))}], info
    return [], info


# ------------------------------------------------------------------------------------------------
def shards(tier):
    out = [{"kind": "xproc", "i": i, "n": 12 if tier == "quick" else 60, "full": tier != "quick"} for i in range(12)]
    out += [{"kind": "snap", "i": i, "n": 60 if tier == "quick" else 2000} for i in range(4)]
    return out


def run_shard(spec, seed, tier, acc):
    if spec["kind"] == "snap":
        def body(case, acc):
            vios, info = run_snap(case)
            acc.case(case, info.get("restores_after_draws", 0) > 0, sample=cjson(case))
            acc.label("snapshot history")
            if case.get("default1"):
                acc.label("snapshot history: object on the default (global-seed) state")
            return vios
        hyp.drive(snap_cases(), body, seed, spec["n"], acc)
        return
    # cross-process: collect a batch of scenarios, then run children
    batch = []

    def collect(case, acc_):
        batch.append(case)
        return []
    from ..core.acc import Acc
    hyp.drive(scenarios(), collect, seed, spec["n"], Acc(), shrink=False, shallow=False)
    if spec.get("full"):
        allv = all_variants()
        # every shard takes a slice of the full matrix
        variants = [v for j, v in enumerate(allv) if j % 12 == spec["i"]] + VARIANTS_QUICK[:2]
    else:
        variants = VARIANTS_QUICK
    base, vios = compare(batch, variants, acc)
    from ..core import findings
    for sc, tr in zip(batch, base):
        cls = sc["prog"]["classes"][0]
        st = [s for b in cls["blocks"] for s in b["stmts"]]
        ncalls = len([t for t in tr if t not in (["new"], ["reseed"])])
        nt = ncalls >= 5 and any(s[0] in ("order", "dist") for s in st) and len(variants) >= 6
        acc.case(sc, nt, sample=text_of(sc) + "\n# baseline trace: %s" % cjson(tr)[:300])
        acc.label("state:" + sc["state"] + ("+string" if sc.get("strval") is not None and sc["state"] == "explicit" else ""))
        if any(t and t[0] == "harness-exception" for t in [tr] if isinstance(tr, list) and tr and isinstance(tr[0], str)):
            acc.label("harness exception in child")
    for v in vios:
        key = findings.tolerated(v["property"], v["kind"], v["detail"], v["case"])
        if key is not None:
            acc.tolerated[key] += 1
        else:
            # reduce: drop ops while the two processes still differ (bounded)
            acc.violations.append(v)
            break


def replay(case):
    if case.get("kind") == "snap":
        return run_snap(case)[0]
    sc, v = case["scenario"], case["variant"]
    from ..core.acc import Acc
    _, vios = compare([sc], [v], Acc())
    return vios
