"""C14 - no legal value is starved: inferred value ranges over-approximate the solutions."""
from ..core import hyp, findings
from ..core.util import exc_sig, reset_library, cjson
from ..model import sem, gen, flat, render
from . import solve_engine as E

PROPERTY = "C14"
LEVEL = "exploration"
RULE = ("cases = small-domain flat constraint programs (as C01/C02) with a generated sequence of 2-4 calls (so that values "
        "left by earlier calls are in the fields); for every call the value ranges the library inferred for steering "
        "(observed through the PYVSC_VERIF pre_solve hook) are compared with the projection of the exhaustively "
        "enumerated reference solution set onto each random field: every feasible value must lie in the inferred range, "
        "and a field no statement mentions must have exactly its type range.  A secondary coupon check on tiny programs "
        "draws until every member of the solution set must have appeared.  non-trivial = some field's feasible set is a "
        "proper subset of its type range and its inferred range is a proper subset of the type range too; distinct = "
        "distinct canonical program+calls")
ASSUMPTIONS = [
    "the inferred range of a field is the union of the [lo, hi] intervals of bound_m[field].domain.range_l at the pre_solve hook (an interval written hi<lo is read as [hi, lo], as the swizzler's randint does)",
    "dist-constrained fields are steered by their weights, not by the inferred range, and are skipped",
    "coupon check: each member of the solution set has probability >= 1/R per draw (R = product of inferred range sizes); N = R*(ln|S|+28) draws",
]

_captured = []


def _listener(kind, payload):
    if kind != "pre_solve":
        return
    bm = payload["bound_m"]
    ri = payload["rand_info"]
    rec = {"ranges": {}, "unconstrained": [], "sets": []}
    for f, b in bm.items():
        try:
            rec["ranges"][f.name] = [[int(r[0]), int(r[1])] for r in b.domain.range_l]
        except Exception:
            rec["ranges"][getattr(f, "name", "?")] = None
    try:
        rec["unconstrained"] = [f.name for f in ri.unconstrained()]
        for rs in ri.randsets():
            rec["sets"].append({"fields": sorted(f.name for f in rs.all_fields()), "nconstraints": len(rs.constraints())})
    except Exception:
        pass
    _captured.append(rec)


def install_hook():
    from vsc.impl import verif_hook
    if not verif_hook.enabled:
        verif_hook.enabled = True
    if _listener not in verif_hook.listeners:
        verif_hook.listeners.append(_listener)


@hyp.composite
def cases(d):
    case = d._draw(E.enum_cases(max_bits=9, nfields=3))
    # a sequence of calls so that previous values matter
    calls = [{"kind": d.choice(E.KINDS), "seed": d.seed()} for _ in range(d.randint(2, 4))]
    case["calls"] = calls
    # bounding statements: the shapes range inference acts on (comparison with a literal / another field, in-ranges)
    cls = flat.cls_of(case["prog"])
    rfs = [f for f in cls["fields"] if f["rand"] and f["kind"] != "enum"]
    if rfs and d.chance(70):
        extra = []
        for _ in range(d.randint(1, 2)):
            f = d.choice(rfs)
            lo, hi = sem.type_range(f)
            r = d.randint(0, 99)
            nonr = [x for x in cls["fields"] if not x["rand"] and x["kind"] != "enum"]
            if r < 25:
                extra.append(["expr", ["bin", d.choice(["<", "<=", ">", ">=", "==", "!="]), ["f", f["name"]], ["lit", d.randint(lo, hi)]]])
            elif r < 40:
                # mirrored form: a constant expression on the LEFT of the random field
                if nonr and d.chance(50):
                    left = ["bin", d.choice(["+", "-"]), ["f", d.choice(nonr)["name"]], ["lit", d.randint(0, 2)]]
                elif f["signed"]:
                    left = ["slit", d.randint(lo, hi), f["w"]]
                else:
                    left = ["ulit", d.randint(lo, hi), f["w"]]
                extra.append(["expr", ["bin", d.choice(["<", "<=", ">", ">=", "=="]), left, ["f", f["name"]]]])
            elif r < 70:
                items = []
                for _ in range(d.randint(1, 3)):
                    a = d.randint(lo, hi)
                    items.append(["rng", ["lit", a], ["lit", d.randint(a, hi)]] if d.chance(60) else ["lit", a])
                extra.append(["expr", ["in", ["f", f["name"]], items]])
            elif len(rfs) > 1:
                g2 = d.choice([x for x in rfs if x is not f])
                extra.append(["expr", ["bin", d.choice(["<", "<=", ">", "=="]), ["f", f["name"]],
                                       ["f", g2["name"]] if d.chance(60) else ["bin", "+", ["f", g2["name"]], ["lit", d.randint(0, 2)]]]])
        blk = d.choice(cls["blocks"])
        for e in extra:
            blk["stmts"].insert(d.randint(0, len(blk["stmts"])), e)
    # optionally set random fields to out-of-solution "previous" values first (they are just current values)
    return case


def _walk_exprs(e, fn):
    fn(e)
    k = e[0]
    if k == "bin":
        _walk_exprs(e[2], fn)
        _walk_exprs(e[3], fn)
    elif k == "not":
        _walk_exprs(e[1], fn)
    elif k == "in":
        _walk_exprs(e[1], fn)
        for it in e[2]:
            if it[0] == "rng":
                _walk_exprs(it[1], fn)
                _walk_exprs(it[2], fn)
            else:
                _walk_exprs(it, fn)


def _walk_stmts(stmts, fn):
    for s in stmts:
        k = s[0]
        if k in ("expr", "soft"):
            _walk_exprs(s[1], fn)
        elif k == "if":
            for c, body in s[1]:
                _walk_exprs(c, fn)
                _walk_stmts(body, fn)
            _walk_stmts(s[2] or [], fn)
        elif k == "implies":
            _walk_exprs(s[1], fn)
            _walk_stmts(s[2], fn)
        elif k == "unique":
            for e in s[1]:
                _walk_exprs(e, fn)


def all_stmts(case):
    cls = flat.cls_of(case["prog"])
    return [s for b in cls["blocks"] for s in b["stmts"]] + list(case.get("inline") or [])


@findings.predicate("mixed_sign_comparison")
def pred_mixed_sign(case, field=None):
    """some relational comparison / in-range compares operands of different signedness (the solver compares
    them unsigned at the context width; the library's range inference works on unbounded integers).
    With field: the comparison references that field."""
    types = flat.types_of(case["prog"])
    c = sem.Ctx(types, {})
    hit = []

    def can_be_negative(x):
        """a signed operand whose value can be negative: negative literal, signed field, or arithmetic over such"""
        k = x[0]
        if k in ("lit", "slit", "elit"):
            return x[1] < 0
        if k == "f":
            return types[x[1]]["signed"]
        if k == "bin":
            return can_be_negative(x[2]) or can_be_negative(x[3]) or x[1] == "-"
        return False

    def mixed(a, b):
        # the solver compares unsigned (not both operands signed) while some term is negative in plain integer
        # arithmetic: a negative literal, a signed field or a subtraction anywhere inside either operand
        sa, sb = sem.signed(a, c), sem.signed(b, c)
        if sa and sb:
            return False
        return can_be_negative(a) or can_be_negative(b)

    def fn(e):
        if e[0] == "bin" and e[1] in sem.CMP:
            if mixed(e[2], e[3]):
                hit.append(e)
        elif e[0] == "in":
            for it in e[2]:
                ops = [it[1], it[2]] if it[0] == "rng" else [it]
                for o in ops:
                    if mixed(e[1], o):
                        hit.append(e)
    _walk_stmts(all_stmts(case), fn)
    if field is not None:
        # the comparison is in the field's constraint set: connected through statements that share fields
        # (inferred bounds propagate along those, e.g. f0 <= f2 with f2 < -8)
        comp = {field}
        stmts = [sem.fields_of_stmt(st) for st in all_stmts(case)]
        changed = True
        while changed:
            changed = False
            for fs in stmts:
                if fs & comp and not fs <= comp:
                    comp |= fs
                    changed = True
        hit = [e for e in hit if sem.fields_of_expr(e) & comp]
    return bool(hit)


@findings.predicate("wrapping_arithmetic_in_comparison")
def pred_wrap(case):
    """a comparison / in has an arithmetic or shift operand (+ - * << on fields): the solver wraps at the context
    width, range inference does not"""
    hit = []

    def has_arith(e):
        if e[0] == "bin" and e[1] in ("+", "-", "*", "<<"):
            return True
        if e[0] == "bin":
            return has_arith(e[2]) or has_arith(e[3])
        return False

    def fn(e):
        if e[0] == "bin" and e[1] in sem.CMP and (has_arith(e[2]) or has_arith(e[3])):
            hit.append(e)
        elif e[0] == "in" and (has_arith(e[1]) or any(has_arith(x) for it in e[2] for x in (it[1:3] if it[0] == "rng" else [it]))):
            hit.append(e)
    _walk_stmts(all_stmts(case), fn)
    return bool(hit)


def shape_of(case, field=None):
    out = []
    if field is not None and pred_mixed_sign(case, field):
        out.append("mixed-sign comparison in the starved field's constraint set")
    elif pred_mixed_sign(case):
        out.append("mixed-sign elsewhere")
    if pred_wrap(case):
        out.append("wrapping-arith")
    return "+".join(out) or "plain"


@hyp.composite
def clean_cases(d):
    """unsigned-only programs (first written to stay clear of the mixed-sign finding, since repaired; constant
    arithmetic that wraps at the comparison's width is generated on purpose): every starved value is a violation.  Comparisons are written in both orientations, with constant
    expressions (sized literals, non-random field + k) on either side."""
    n = d.randint(1, 3)
    fs = []
    for i in range(n):
        f = {"name": "f%d" % i, "kind": "bit", "w": d.choice([2, 3, 3, 4]), "signed": False, "rand": True}
        f["init"] = gen.rand_in_type(d, f)
        fs.append(f)
    nr = []
    for i in range(d.randint(0, 2)):
        f = {"name": "n%d" % i, "kind": "bit", "w": 3, "signed": False, "rand": False}
        f["init"] = d.randint(0, 5)
        nr.append(f)
    while sum(f["w"] for f in fs) > 9:
        max(fs, key=lambda f: f["w"])["w"] -= 1
    for f in fs:
        f["init"] = f["init"] & ((1 << f["w"]) - 1)
    stmts = []
    for _ in range(d.randint(1, 4)):
        f = d.choice(fs)
        hi = (1 << f["w"]) - 1

        def const():
            r = d.randint(0, 99)
            if nr and r < 15:
                # arithmetic over constants that wraps at the width of the comparison for the solver (3 - 5, 5 + 6 on
                # 3-bit fields, a shift): the inferred range has to use the wrapped value, or none
                g, g2 = d.choice(nr), d.choice(nr)
                k_ = d.randint(0, 3)
                if k_ == 0:
                    return ["bin", "-", ["f", g["name"]], ["f", g2["name"]]]
                if k_ == 1:
                    return ["bin", "+", ["f", g["name"]], ["f", g2["name"]]]
                if k_ == 2:
                    return ["bin", "-", ["f", g["name"]], ["ulit", d.randint(0, 7), 3]]
                return ["bin", "<<", ["f", g["name"]], ["lit", d.randint(0, 3)]]
            if nr and r < 40:
                g = d.choice(nr)
                return ["bin", "+", ["f", g["name"]], ["lit", d.randint(0, 2)]] if d.chance(60) else ["f", g["name"]]
            if r < 70:
                return ["ulit", d.randint(0, hi), f["w"]]
            return ["lit", d.randint(0, hi)]
        r = d.randint(0, 99)
        op = d.choice(["<", "<=", ">", ">=", "==", "!="])
        if r < 35:
            stmts.append(["expr", ["bin", op, ["f", f["name"]], const()]])
        elif r < 65:
            c_ = const()
            if c_[0] == "lit":
                c_ = ["ulit", c_[1], f["w"]]       # a Python int cannot be the left operand
            stmts.append(["expr", ["bin", op, c_, ["f", f["name"]]]])
        elif r < 85:
            items = []
            for _ in range(d.randint(1, 3)):
                a = d.randint(0, hi)
                items.append(["rng", ["lit", a], ["lit", d.randint(a, hi)]] if d.chance(60) else ["lit", a])
            stmts.append(["expr", ["in", ["f", f["name"]], items]])
        elif len(fs) > 1:
            g2 = d.choice([x for x in fs if x is not f])
            stmts.append(["expr", ["bin", d.choice(["<", "<=", ">", ">="]), ["f", f["name"]], ["f", g2["name"]]]])
    if d.chance(45):
        # a multi-interval domain (in-list with gaps) met by bounds that sit exactly on, just inside and just outside
        # the interval ends - literals, a non-random field holding the value, or another field with its own small domain
        f = max(fs, key=lambda x: x["w"])
        hi = (1 << f["w"]) - 1
        pts = sorted(set(d.sample(list(range(0, hi + 1)), min(hi + 1, d.randint(3, 6)))))
        ivs = []
        i = 0
        while i + 1 < len(pts):
            if not ivs or pts[i] > ivs[-1][1] + 1:
                ivs.append([pts[i], pts[i + 1]] if d.chance(75) else [pts[i], pts[i]])
            i += 2
        if not ivs:
            ivs = [[0, min(1, hi)]]
        items = [["rng", ["lit", a], ["lit", b]] if a != b else ["lit", a] for a, b in ivs]
        stmts.insert(d.randint(0, len(stmts)), ["expr", ["in", ["f", f["name"]], d.sample(items, len(items))]])
        ends = sorted(set(x for a, b in ivs for x in (a - 1, a, a + 1, b - 1, b, b + 1) if 0 <= x <= hi))
        for bi in range(d.randint(1, 2)):
            k = d.choice(ends)
            r = d.randint(0, 99)
            op = d.choice([">=", ">", "<=", "<", ">=", "<="])
            if bi == 0 or d.chance(50):
                # the bound that leaves exactly ONE value of an interval: its last value for a lower bound, its first
                # value for an upper bound
                a_, b_ = d.choice(ivs)
                k = {">=": b_, ">": b_ - 1, "<=": a_, "<": a_ + 1}[op]
                k = min(max(k, 0), hi)
            mir = {">=": "<=", ">": "<", "<=": ">=", "<": ">"}[op]
            if r < 35:
                st = ["bin", op, ["f", f["name"]], ["lit", k]]
            elif r < 60:
                st = ["bin", mir, ["ulit", k, f["w"]], ["f", f["name"]]]
            elif r < 80 and nr and k <= 7:
                nr[0]["init"] = k
                st = ["bin", op, ["f", f["name"]], ["f", nr[0]["name"]]] if d.chance(50) else ["bin", mir, ["f", nr[0]["name"]], ["f", f["name"]]]
            elif len(fs) > 1:
                g2 = [x for x in fs if x is not f][0]
                k2 = [x for x in ends if x <= (1 << g2["w"]) - 1] or [0]
                vals = sorted(set(d.sample(k2, min(len(k2), d.randint(1, 2)))))
                stmts.append(["expr", ["in", ["f", g2["name"]], [["lit", v] for v in vals]]])
                st = ["bin", op, ["f", f["name"]], ["f", g2["name"]]]
            else:
                st = ["bin", op, ["f", f["name"]], ["lit", k]]
            stmts.insert(d.randint(0, len(stmts)), ["expr", st])
    if nr and d.chance(45):
        # an in-list whose bounds are non-random fields: the inferred range has to follow their CURRENT values
        f = d.choice(fs)
        hi = (1 << f["w"]) - 1
        g = d.choice(nr)
        k = d.randint(0, 2)
        if k == 0:
            items = [["rng", ["lit", 0], ["f", g["name"]]]]
        elif k == 1:
            items = [["rng", ["f", g["name"]], ["lit", hi]]]
        else:
            items = [["f", g["name"]], ["lit", d.randint(0, hi)]]
        stmts.insert(d.randint(0, len(stmts)), ["expr", ["in", ["f", f["name"]], items]])
    if not stmts:
        stmts.append(["expr", ["bin", "<=", ["f", fs[0]["name"]], ["lit", 2]]])
    prog = {"enums": {}, "classes": [{"name": "T", "fields": fs + nr, "blocks": [{"name": "c0", "stmts": stmts}]}]}
    calls = [{"kind": d.choice(["randomize", "randomize_with", "vsc.randomize"]), "seed": d.seed()} for _ in range(d.randint(1, 3))]
    if nr:
        for c_ in calls[1:]:
            if d.chance(60):
                # the non-random fields are assigned new values between the calls
                c_["set"] = {g["name"]: d.randint(0, 7) for g in nr if d.chance(70)}
    return {"mode": "enum", "prog": prog, "inline": None, "clean": True,
            "calls": calls,
            "sel": [d.randint(0, 1 << 16) for _ in range(8)], "pseed": d.seed()}


@hyp.composite
def signed_cases(d):
    """signed fields whose domain is a list of single values and short ranges on both sides of zero, optionally met by a
    bound: every listed value that the other statements allow has to come out (coupon check over the tiny solution set)"""
    n = d.randint(1, 2)
    fs = []
    for i in range(n):
        f = {"name": "f%d" % i, "kind": "int", "w": d.choice([3, 4, 4, 5]), "signed": True, "rand": True, "init": 0}
        fs.append(f)
    stmts = []
    for f in fs:
        lo, hi = sem.type_range(f)
        items = []
        for _ in range(d.randint(2, 4)):
            a = d.randint(lo, hi)
            if d.chance(70):
                items.append(["lit", a])
            else:
                items.append(["rng", ["lit", a], ["lit", min(hi, a + d.randint(1, 2))]])
        stmts.append(["expr", ["in", ["f", f["name"]], items]])
    if d.chance(50):
        f = d.choice(fs)
        lo, hi = sem.type_range(f)
        stmts.append(["expr", ["bin", d.choice(["<", "<=", ">", ">=", "!="]), ["f", f["name"]], ["lit", d.randint(lo, hi)]]])
    if n > 1 and d.chance(40):
        stmts.append(["expr", ["bin", d.choice(["<", "<=", "!="]), ["f", "f0"], ["f", "f1"]]])
    prog = {"enums": {}, "classes": [{"name": "T", "fields": fs, "blocks": [{"name": "c0", "stmts": stmts}]}]}
    calls = [{"kind": "randomize", "seed": d.seed()} for _ in range(d.randint(1, 2))]
    return {"mode": "enum", "prog": prog, "inline": None, "signed_lists": True, "calls": calls,
            "sel": [2 * d.randint(0, 1 << 15)] + [d.randint(0, 1 << 16) for _ in range(7)], "pseed": d.seed()}


@hyp.composite
def ordered_cases(d):
    """three 2-bit fields in one rand set, an ordering directive over two of them (or a chain over all three), loose
    constraints: every feasible value of EVERY field - also of the one no directive mentions - has to come out"""
    fs = [{"name": "f%d" % i, "kind": "bit", "w": 2, "signed": False, "rand": True, "init": 0} for i in range(3)]
    x, y, z = d.sample(["f0", "f1", "f2"], 3)
    stmts = [["expr", ["bin", d.choice(["<", "<=", "!="]), ["bin", "+", ["bin", "+", ["f", x], ["f", y]], ["f", z]], ["lit", d.randint(5, 9)]]]]
    if d.chance(40):
        stmts.append(["expr", ["bin", d.choice(["!=", "<=", ">="]), ["f", z], ["f", d.choice([x, y])]]])
    stmts.append(["order", [x], [y]])
    if d.chance(25):
        stmts.append(["order", [y], [z]])
    prog = {"enums": {}, "classes": [{"name": "T", "fields": fs, "blocks": [{"name": "c0", "stmts": stmts}]}]}
    return {"mode": "enum", "prog": prog, "inline": None, "marginal": True, "calls": [{"kind": "randomize", "seed": d.seed()}],
            "sel": [1] + [d.randint(0, 1 << 16) for _ in range(7)], "pseed": d.seed()}


def V(kind, detail, case, extra=None):
    v = {"property": PROPERTY, "kind": kind, "detail": detail, "case": case, "text": E.text_of(case)}
    if extra:
        v["text"] += "\n# " + extra
    return v


def in_ranges(v, ranges):
    for lo, hi in ranges:
        if lo > hi:
            lo, hi = hi, lo
        if lo <= v <= hi:
            return True
    return False


def run_case(case):
    install_hook()
    prog = case["prog"]
    cls = flat.cls_of(prog)
    fields = cls["fields"]
    types = flat.types_of(prog)
    rf = [f for f in fields if f["rand"]]
    names = [f["name"] for f in rf]
    env0 = {f["name"]: f["init"] for f in fields}
    class_stmts = [s for b in cls["blocks"] for s in b["stmts"]]
    inline = case.get("inline") or []
    info = {"checked_fields": 0, "nontrivial": False}
    reset_library()
    try:
        ns = flat.build(prog)
        obj = flat.instantiate(ns, prog)
    except Exception as e:
        reset_library()
        return [], info          # construction failures belong to C02
    mentioned_cls = set()
    for s in class_stmts:
        mentioned_cls |= sem.fields_of_stmt(s)
    mentioned_inl = set()
    for s in inline:
        mentioned_inl |= sem.fields_of_stmt(s)
    last = None
    for call in case["calls"]:
        kind = call["kind"]
        for sn, sv in (call.get("set") or {}).items():
            if sn in types and not types[sn]["rand"] and isinstance(sv, int) and sem.in_type(sv, types[sn]):
                setattr(obj, sn, sv)
                env0[sn] = sv
                info["sets"] = info.get("sets", 0) + 1
        use_inline = kind.endswith("_with") and bool(inline)
        stmts = class_stmts + (inline if use_inline else [])
        r = flat.enumerate_solutions(types, rf, env0, stmts)
        if r is None:
            return [], info
        allv, sols = r
        del _captured[:]
        st, exc = flat.do_call(ns, obj, kind, inline if kind.endswith("_with") else None, call["seed"])
        if st == "exc":
            reset_library()
            return [], info      # C02's business
        if not _captured:
            info["no_hook_payload"] = info.get("no_hook_payload", 0) + 1
            continue
        cap = _captured[-1]
        if not sols:
            continue
        mentioned = mentioned_cls | (mentioned_inl if use_inline else set())
        for j, f in enumerate(rf):
            ranges = cap["ranges"].get(f["name"])
            if ranges is None:
                continue
            feas = sorted(set(s[j] for s in sols))
            dom = list(sem.domain(f))
            info["checked_fields"] += 1
            if f["name"] not in mentioned:
                # a field no constraint mentions ranges over its whole type
                missing = [v for v in dom if not in_ranges(v, ranges)]
                if missing:
                    return [V("unmentioned_field_range", "a field no constraint mentions is not given its whole type range", case,
                              "%s(seed=%d): field %s inferred %s, type values missing e.g. %s" % (kind, call["seed"], f["name"], ranges, missing[:6]))], info
                continue
            starved = [v for v in feas if not in_ranges(v, ranges)]
            if starved:
                return [V("feasible_value_outside_inferred_range", "inferred range misses a feasible value [%s]" % shape_of(case, f["name"]), case,
                          "%s(seed=%d): field %s inferred range %s, feasible values %s, outside: %s (current values %s)"
                          % (kind, call["seed"], f["name"], ranges, feas, starved, cjson(flat.read_state(ns, obj, fields))))], info
            if len(feas) < len(dom) and any(not in_ranges(v, ranges) for v in dom):
                info["nontrivial"] = True
        last = (cap, sols, stmts)
    # secondary: coupon check on tiny unsigned programs (every member of the solution set must be produced)
    if last is None:
        return [], info
    cap, sols, stmts = last
    has_soft = '"soft"' in cjson(class_stmts) or '"soft"' in cjson(inline)     # softs legitimately keep solutions away
    sel0 = ([x for x in (case.get("sel") or []) if isinstance(x, int)] or [1])[0]     # (the reducer may have emptied the list)
    if (sel0 % 2 == 0 and 2 <= len(sols) <= 24 and len(rf) <= 3 and not has_soft
            and not (case.get("inline") and len(stmts) > len(class_stmts))) \
            and all(f["kind"] != "enum" for f in rf):
        R = 1
        for f in rf:
            rg = cap["ranges"].get(f["name"])
            if not rg:
                # no inferred range captured for this field (e.g. a list element): it is steered over its whole type
                R *= len(sem.domain(f))
                continue
            k = len(rg)
            mx = max([abs(b - a) + 1 for a, b in rg] or [1])
            R *= max(1, k * mx)
        if R <= 32:
            import math
            N = int(math.ceil(R * (math.log(len(sols)) + 28)))
            seen = set()
            obj.set_randstate(flat.mk_randstate(case["pseed"]))
            for _ in range(N):
                try:
                    obj.randomize()
                except Exception:
                    reset_library()
                    return [], info
                env = flat.read_state(ns, obj, fields)
                seen.add(tuple(env[nm] for nm in names))
                if len(seen) >= len(sols) and set(sols) <= seen:
                    break
            info["coupon"] = 1
            missing = [s_ for s_ in sols if s_ not in seen]
            if missing:
                return [V("solution_never_produced", "coupon check: a member of the solution set never appeared [%s]" % shape_of(case), case,
                          "%d seeded draws (R=%d, |S|=%d): never produced %s of fields %s" % (N, R, len(sols), missing[:4], names))], info
    elif case.get("marginal") and not has_soft and sols:
        # per-field version for solution sets too large to collect: every feasible VALUE of every random field must appear.
        # A value v of field f is produced at least whenever the patterns drawn for all fields form a solution with f = v:
        # probability >= 1/R per draw, R = product of the sizes of the ranges the fields are steered over
        R = 1
        for f in rf:
            rg = cap["ranges"].get(f["name"])
            R *= len(sem.domain(f)) if not rg else max(1, len(rg) * max(abs(b - a) + 1 for a, b in rg))
        if R <= 64:
            import math
            nvals = sum(len(set(s_[j] for s_ in sols)) for j in range(len(rf)))
            N = int(math.ceil(R * (math.log(nvals) + 28)))
            seen = [set() for _ in rf]
            want = [set(s_[j] for s_ in sols) for j in range(len(rf))]
            obj.set_randstate(flat.mk_randstate(case["pseed"]))
            for _ in range(N):
                try:
                    obj.randomize()
                except Exception:
                    reset_library()
                    return [], info
                env = flat.read_state(ns, obj, fields)
                for j, nm in enumerate(names):
                    seen[j].add(env[nm])
                if all(w_ <= s_ for w_, s_ in zip(want, seen)):
                    break
            info["coupon"] = 1
            info["marginal_coupon"] = 1
            for j, nm in enumerate(names):
                miss = sorted(want[j] - seen[j])
                if miss:
                    return [V("solution_never_produced", "coupon check: a feasible value of a field never appeared [%s]" % shape_of(case), case,
                              "%d seeded draws (R=%d): field %s never took %s although solutions with these values exist; seen %s"
                              % (N, R, nm, miss, sorted(seen[j])))], info
    return [], info


def has_dist(case):
    return False


def body(case, acc):
    vios, info = run_case(case)
    acc.case(case, info.get("nontrivial", False), sample=E.text_of(case))
    acc.label("fields checked", info.get("checked_fields", 0))
    if info.get("coupon"):
        acc.label("coupon checks")
    if case.get("clean"):
        acc.label("unsigned-only family (no tolerance applies)")
    if info.get("no_hook_payload"):
        acc.label("calls without hook payload", info["no_hook_payload"])
    for c in case["calls"]:
        acc.label("call:" + c["kind"])
    return vios


def shards(tier):
    per = 220 if tier == "quick" else 6000
    return [{"i": i, "n": per} for i in range(12)] + [{"kind": "clean", "i": i, "n": per} for i in range(4)] + \
        [{"kind": "signed", "i": i, "n": 100 if tier == "quick" else 3000} for i in range(2)] + \
        [{"kind": "ordered", "i": i, "n": 6 if tier == "quick" else 150} for i in range(2)]


def run_shard(spec, seed, tier, acc):
    strat = {"clean": clean_cases, "signed": signed_cases, "ordered": ordered_cases}.get(spec.get("kind"), cases)()
    hyp.drive(strat, body, seed, spec["n"], acc)


def replay(case):
    return run_case(case)[0]
