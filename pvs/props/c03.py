"""C03 - a call changes only what is random in it; everything else acts as a constant.

Hypothesis RuleBasedStateMachine over one generated object: assignments, rand_mode toggles, rangelist / list
edits interleaved with randomize calls of every kind; a dict model holds the current values, modes and contents.
"""
import hypothesis
from hypothesis import strategies as st
from hypothesis.stateful import RuleBasedStateMachine, rule, initialize, precondition

from ..core import hyp
from ..core.util import reset_library, cjson, exc_sig, import_vsc
from ..model import sem, gen, flat, render

PROPERTY = "C03"
LEVEL = "exploration"
RULE = ("stateful (RuleBasedStateMachine): one object with scalar fields a,b (rand), c (non-rand), d (rand), a rand_attr "
        "sub-object s1.x, an attr (non-random) sub-object s2.y / s2.z (enum), a non-random enum field e, a non-random list nl used in 'in', a mutable vsc.rangelist "
        "member; generated class constraints over all of them.  Rules: assign any field; toggle rand_mode of a declared-"
        "random scalar (and assign rand_mode on the declared non-random c / e, which must stay constants); replace the rangelist content; append/assign the list; obj.randomize(); obj.randomize_with(inline); "
        "vsc.randomize(obj); vsc.randomize_with(obj); free-standing vsc.randomize(f..)/vsc.randomize_with(f..) over a "
        "subset of the object's fields.  After every call (success or SolveFailure): every field that is not random for the "
        "call reads what the model holds; on success the state satisfies the reference evaluated with the CURRENT non-random "
        "values, rangelist and list contents; SolveFailure iff the enumerated solution set is empty.  non-trivial = the "
        "history has a mode toggle or a rangelist/list edit between two calls and two calls with different solution sets; "
        "distinct = distinct canonical history")
ASSUMPTIONS = [
    "values of fields that ARE random for a failed call are unspecified and not compared",
    "rand_mode is driven on scalar fields only (inside vsc.raw_mode()); the rangelist and the list are kept non-empty",
    "free-standing calls over a field subset apply only their inline constraints (the object itself is not passed)",
]

FIELDS = [
    {"name": "a", "kind": "bit", "w": 3, "signed": False, "rand": True, "init": 0},
    {"name": "b", "kind": "int", "w": 3, "signed": True, "rand": True, "init": 0},
    {"name": "c", "kind": "bit", "w": 3, "signed": False, "rand": False, "init": 2},
    {"name": "d", "kind": "bit", "w": 2, "signed": False, "rand": True, "init": 0},
    {"name": "s1.x", "kind": "bit", "w": 3, "signed": False, "rand": True, "init": 0},
    {"name": "s2.y", "kind": "bit", "w": 3, "signed": False, "rand": True, "init": 3},   # declared rand, but s2 is attr()
    {"name": "q[0]", "kind": "bit", "w": 2, "signed": False, "rand": True, "init": 0},    # element of a fixed-size random list
    # enum-typed constants: declared non-random / declared random inside the non-random sub-object
    {"name": "e", "kind": "enum", "w": 32, "signed": True, "rand": False, "enum": "E1", "dom": [0, 1, 5], "init": 1},
    {"name": "g", "kind": "int", "w": 3, "signed": True, "rand": False, "init": -3},      # a signed constant
    {"name": "s2.z", "kind": "enum", "w": 32, "signed": True, "rand": True, "enum": "E1", "dom": [0, 1, 5], "init": 5},
]
ENUMS = {"E1": {"int": True, "members": [["A", 0], ["B", 1], ["C", 5]]}}
TOGGLE = ["a", "b", "d", "s1.x"]
NONRAND_TOGGLE = ["c", "e", "g"]      # rand_mode assigned on fields DECLARED non-random: must not make them random
ASSIGNABLE = [f for f in FIELDS]

CLASS_SRC = '''
class E1(enum.IntEnum):
    A = 0
    B = 1
    C = 5

@vsc.randobj
class S1(object):
    def __init__(self):
        self.x = vsc.rand_bit_t(3)

@vsc.randobj
class S2(object):
    def __init__(self):
        self.y = vsc.rand_bit_t(3)
        self.z = vsc.rand_enum_t(E1)
        self.rz = vsc.randsz_list_t(vsc.bit_t(3))    # a random-size list inside the NON-random sub-object
        self.rz.append(5)
        self.rz.append(2)
    @vsc.constraint
    def cz(self):
        self.rz.size.inside(vsc.rangelist(vsc.rng(1, 4)))

@vsc.randobj
class T(object):
    def __init__(self):
        self.a = vsc.rand_bit_t(3)
        self.b = vsc.rand_int_t(3)
        self.c = vsc.bit_t(3)
        self.d = vsc.rand_bit_t(2)
        self.e = vsc.enum_t(E1)
        self.g = vsc.int_t(3)
        self.s1 = vsc.rand_attr(S1())
        self.s2 = vsc.attr(S2())
        self.nl = vsc.list_t(vsc.bit_t(3))
        self.rl = vsc.rangelist((0, 7))
        self.q = vsc.rand_list_t(vsc.bit_t(2), sz=1)
    @vsc.constraint
    def c0(self):
%s
    @vsc.constraint
    def c1(self):
%s
'''


def types():
    t = {f["name"]: f for f in FIELDS}
    t["nl[]"] = {"kind": "bit", "w": 3, "signed": False}
    return t


@hyp.composite
def programs(d):
    g = gen.G(d, FIELDS, ENUMS, mul_max_w=3)
    stmts = [g.field_stmt(1) for _ in range(d.randint(1, 3))]
    extra = []
    if d.chance(70):
        extra.append(["rl_in", d.choice(["a", "d", "s1.x"])])
    if d.chance(60):
        extra.append(["nl_in", d.choice(["a", "b", "d"])])
    if d.chance(30):
        extra.append(["rz_in", d.choice(["a", "d"])])     # membership in the random-size list of the NON-random sub-object (it holds [5, 2])
    if d.chance(45):
        extra.append(["fe_rl"])          # foreach element of the random list: it in the mutable rangelist
    if d.chance(45):
        extra.append(["fe_nl", d.choice(["a", "d"])])   # foreach index of the NON-random list: field != nl[i]
    if d.chance(40):
        # if/else inside foreach whose condition compares the signed b (a constant whenever its rand_mode is off) or the
        # constant c with an unsigned literal wider than the field: folded before solving when no operand is random
        extra.append(["fe_if", d.choice(["g", "g", "b", "c"]), d.choice(["<", "<=", ">", ">=", "=="]), d.randint(0, 12)])
    return {"stmts": stmts, "extra": extra}


def source(prog):
    out = []
    render.rbody(prog["stmts"], "self", 2, out)
    c0 = "\n".join(out)
    lines = []
    for e in prog["extra"]:
        if e[0] == "rl_in":
            lines.append("        self.%s.inside(self.rl)" % e[1])
        elif e[0] == "nl_in":
            lines.append("        self.%s.inside(self.nl)" % e[1])
        elif e[0] == "rz_in":
            lines.append("        self.%s.inside(self.s2.rz)" % e[1])
        elif e[0] == "fe_rl":
            lines.append("        with vsc.foreach(self.q) as it:")
            lines.append("            it.inside(self.rl)")
        elif e[0] == "fe_if":
            lines.append("        with vsc.foreach(self.q, idx=True) as i:")
            lines.append("            with vsc.if_then(self.%s %s vsc.unsigned(%d, 6)):" % (e[1], e[2], e[3]))
            lines.append("                self.q[i] < 2")
            lines.append("            with vsc.else_then:")
            lines.append("                self.q[i] >= 2")
        else:
            lines.append("        with vsc.foreach(self.nl, idx=True) as i:")
            lines.append("            self.%s != self.nl[i]" % e[1])
    if not lines:
        lines = ["        pass"]
    return CLASS_SRC % (c0, "\n".join(lines))


def getp(obj, key):
    from ..model import tree
    return tree.getp(obj, key)


def setp(obj, key, v):
    if key.endswith("]"):
        name, idx = key[:-1].split("[")
        getattr(obj, name)[int(idx)] = v
        return
    from ..model import tree
    tree.setp(obj, key, v)


def rawp(vsc, obj, key):
    with vsc.raw_mode():
        cur = obj
        for part in key.split("."):
            cur = getattr(cur, part)
        return cur


class Session:
    """library object + dict model; step(op) applies one operation and returns violations"""

    def __init__(self, prog):
        self.vsc = import_vsc()
        self.prog = prog
        self.history = []
        self.types = types()
        reset_library()
        import enum as _enum
        self.ns = {"vsc": self.vsc, "enum": _enum}
        self.src = source(prog)
        exec(compile(self.src, "<pvs-c03>", "exec"), self.ns)
        self.obj = self.ns["T"]()
        self.val = {}
        for f in FIELDS:
            self.setf(f["name"], f["init"])
            self.val[f["name"]] = f["init"]
        self.mode = {k: True for k in TOGGLE}
        self.rl = [[0, 7]]
        self.nl = [1]
        self.obj.nl.append(1)
        self.info = {"edits_between_calls": 0, "calls": 0, "solsets": set(), "pending_edit": False}

    def setf(self, key, v):
        if self.types[key]["kind"] == "enum":
            v = self.ns[self.types[key]["enum"]](v)
        setp(self.obj, key, v)

    # -- reference ---------------------------------------------------------------------------
    def class_stmts(self):
        out = list(self.prog["stmts"])
        for e in self.prog["extra"]:
            items = [["rng", ["lit", it[0]], ["lit", it[1]]] if isinstance(it, list) else ["lit", it] for it in self.rl]
            if e[0] == "rl_in":
                out.append(["expr", ["in", ["f", e[1]], items]])
            elif e[0] == "nl_in":
                out.append(["expr", ["inl", ["f", e[1]], "nl"]])     # elements are bit_t(3) fields, not literals
            elif e[0] == "rz_in":
                out.append(["expr", ["in", ["f", e[1]], [["ulit", 5, 3], ["ulit", 2, 3]]]])     # (the list's bit_t(3) elements 5 and 2)
            elif e[0] == "fe_rl":
                out.append(["expr", ["in", ["f", "q[0]"], items]])
            elif e[0] == "fe_if":
                out.append(["if", [[["bin", e[2], ["f", e[1]], ["ulit", e[3], 6]],
                                    [["expr", ["bin", "<", ["f", "q[0]"], ["lit", 2]]]]]],
                            [["expr", ["bin", ">=", ["f", "q[0]"], ["lit", 2]]]]])
            else:
                for i in range(len(self.nl)):
                    out.append(["expr", ["bin", "!=", ["f", e[1]], ["el", "nl", ["lit", i], None]]])
        return out

    def random_for_object_call(self):
        out = []
        for f in FIELDS:
            n = f["name"]
            if not f["rand"] or n.startswith("s2."):
                continue
            if self.mode.get(n, True) and (not n.startswith("s1.") or self.mode.get("s1", True)):
                out.append(f)       # (a field of the sub-object s1 is random only while s1's own rand_mode is on)
        return out

    def V(self, kind, detail, extra):
        case = {"prog": self.prog, "history": list(self.history)}
        text = self.src + "\n# history:\n" + "\n".join("#   " + cjson(op) for op in self.history) + "\n# " + extra
        return {"property": PROPERTY, "kind": kind, "detail": detail, "case": case, "text": text}

    # -- operations --------------------------------------------------------------------------
    def step(self, op):
        self.history.append(op)
        k = op[0]
        vsc = self.vsc
        if k == "assign":
            self.setf(op[1], op[2])
            self.val[op[1]] = op[2]
            self.info["pending_edit"] = True
            return []
        if k == "mode":
            try:
                rawp(vsc, self.obj, op[1]).rand_mode = bool(op[2])
            except Exception as e:
                ei = flat.defuse(e)
                return [self.V("library_exception", "rand_mode assignment: " + ei.sig, "rand_mode of %s = %s raised %r" % (op[1], bool(op[2]), ei))]
            if op[1] in TOGGLE or op[1] == "s1":
                self.mode[op[1]] = bool(op[2])
            self.info["pending_edit"] = True
            self.info["toggled"] = True
            return []
        if k == "rl":
            self.obj.rl.clear()
            self.obj.rl.extend([tuple(it) if isinstance(it, list) else it for it in op[1]])
            self.rl = list(op[1])
            self.info["pending_edit"] = True
            self.info["edited"] = True
            return []
        if k == "nl":
            if op[1] == "append":
                self.obj.nl.append(op[2])
                self.nl.append(op[2])
            else:
                self.obj.nl = list(op[2])
                self.nl = list(op[2])
            self.info["pending_edit"] = True
            self.info["edited"] = True
            return []
        if k == "call":
            _, kind, inline, seed = op
            randf = self.random_for_object_call()
            stmts = self.class_stmts() + (inline or [])
            return self.judge(kind, inline, seed, randf, stmts, [self.obj])
        if k == "fcall":
            _, keys, inline, seed = op
            randf = [f for f in FIELDS if f["name"] in keys]
            stmts = list(inline or [])
            args = [rawp(vsc, self.obj, key) for key in keys]
            return self.judge("vsc.randomize_with" if inline is not None else "vsc.randomize", inline, seed, randf, stmts, args)
        raise ValueError(op)

    def judge(self, kind, inline, seed, randf, stmts, args):
        vsc = self.vsc
        names = [f["name"] for f in randf]
        env = dict(self.val)
        env["#nl"] = len(self.nl)
        for i, v in enumerate(self.nl):
            env["nl[%d]" % i] = v
        r = flat.enumerate_solutions(self.types, randf, env, stmts, limit=1 << 14)
        allv, sols = r
        before = dict(self.val)
        self.info["calls"] += 1
        if self.info["pending_edit"] and self.info["calls"] > 1:
            self.info["edits_between_calls"] += 1
        self.info["pending_edit"] = False
        self.info["solsets"].add(hash(tuple(sols)))
        try:
            if kind == "randomize":
                self.obj.set_randstate(flat.mk_randstate(seed))
                self.obj.randomize()
            elif kind == "randomize_with":
                self.obj.set_randstate(flat.mk_randstate(seed))
                render.call_inline(self.ns, self.obj, inline or [], "randomize_with")
            elif kind == "vsc.randomize":
                vsc.randomize(*args, randstate=flat.mk_randstate(seed))
            else:
                render.call_inline(self.ns, self.obj, inline or [], "vsc.randomize_with", args=args,
                                   randstate=flat.mk_randstate(seed))
            st_ = "ret"
        except vsc.SolveFailure as e:
            flat.defuse(e)
            flat.scrub(self.obj)
            st_ = "sf"
        except Exception as e:
            ei = flat.defuse(e)
            flat.scrub(self.obj)
            reset_library()
            return [self.V("library_exception", "%s: %s" % (kind, ei.sig), "%r" % ei)]
        now = {f["name"]: getp(self.obj, f["name"]) for f in FIELDS}
        vios = []
        for f in FIELDS:
            n = f["name"]
            if n in names:
                continue
            if now[n] != before[n]:
                vios.append(self.V("nonrandom_changed", "%s%s" % (kind, " (failed call)" if st_ == "sf" else ""),
                                   "field %s is not random for this call but changed from %d to %d" % (n, before[n], now[n])))
                self.val[n] = now[n]
        try:
            rz = [int(x) for x in self.obj.s2.rz]
            rz_len = (len(self.obj.s2.rz), self.obj.s2.rz.size)
        except Exception as e_:
            rz, rz_len = repr(e_), None
        if rz != [5, 2] or rz_len != (2, 2):
            vios.append(self.V("nonrandom_changed", "%s%s" % (kind, " (failed call)" if st_ == "sf" else ""),
                               "the random-size list s2.rz of the non-random sub-object held [5, 2], now %s (len, size = %s)" % (rz, rz_len)))
        if vios:
            return vios[:1]
        if st_ == "sf":
            if sols:
                return [self.V("spurious_solve_failure", kind, "solutions exist for the random fields %s given the current "
                               "constants %s, rangelist %s, list %s" % (names, cjson(before), self.rl, self.nl))]
            # random fields after a failed call: unspecified; re-read them into the model
            for n in names:
                self.val[n] = now[n]
            return []
        if not sols:
            for n in names:
                self.val[n] = now[n]
            return [self.V("returned_on_unsat", kind, "no assignment of %s satisfies the constraints under the current constants %s, "
                           "rangelist %s, list %s; returned %s" % (names, cjson(before), self.rl, self.nl, cjson(now)))]
        got = tuple(now[n] for n in names)
        for n in names:
            self.val[n] = now[n]
        for n in names:
            if not sem.in_type(now[n], self.types[n]):
                return [self.V("out_of_type", kind, "%s=%r" % (n, now[n]))]
        if got not in set(sols):
            return [self.V("stale_constant", kind, "result %s violates the constraints evaluated with the current constants %s, "
                           "rangelist %s, list %s" % (cjson(dict(zip(names, got))), cjson({k: v for k, v in before.items() if k not in names}), self.rl, self.nl))]
        return []


# ------------------------------------------------------------------------------------------------
def inline_strategy(d, keys):
    # (free-standing calls over field subsets may name every field of the object, list elements included: what is not
    #  passed is a constant)
    g = gen.G(d, [f for f in FIELDS], ENUMS, mul_max_w=3)
    return [g.field_stmt(0) for _ in range(d.randint(1, 2))]


@hyp.composite
def op_assign(d):
    f = d.choice(FIELDS)
    return ["assign", f["name"], gen.rand_in_type(d, f)]


@hyp.composite
def op_mode(d):
    return ["mode", d.choice(TOGGLE + NONRAND_TOGGLE + ["s1", "s1"]) if d.chance(35) else d.choice(TOGGLE), d.randint(0, 1)]


@hyp.composite
def op_rl(d):
    items = []
    for _ in range(d.randint(1, 3)):
        if d.chance(50):
            items.append(d.randint(0, 7))
        else:
            a = d.randint(0, 7)
            items.append([a, d.randint(a, 7)])
    return ["rl", items]


@hyp.composite
def op_nl(d):
    if d.chance(50):
        return ["nl", "append", d.randint(0, 7)]
    return ["nl", "assign", [d.randint(0, 7) for _ in range(d.randint(1, 3))]]


@hyp.composite
def op_call(d):
    kind = d.choice(["randomize", "randomize_with", "vsc.randomize", "vsc.randomize_with"])
    inline = inline_strategy(d, None) if kind.endswith("_with") else None
    if inline is not None and d.chance(15):
        inline.append(["expr", ["bin", "<", ["f", "a"], ["lit", 0]]])     # deliberately unsatisfiable
    return ["call", kind, inline, d.seed()]


@hyp.composite
def op_fcall(d):
    keys = d.sample(["a", "b", "c", "d", "s1.x"], d.randint(1, 3))
    inline = None
    if d.chance(60):
        inline = inline_strategy(d, keys)
    return ["fcall", sorted(keys), inline, d.seed()]


def make_machine(acc):
    class Machine(RuleBasedStateMachine):
        def __init__(self):
            super().__init__()
            self.s = None

        @initialize(prog=programs())
        def init(self, prog):
            self.s = Session(prog)

        def do(self, op):
            vios = self.s.step(op)
            from ..core import findings
            keep = []
            for v in vios:
                key = findings.tolerated(v["property"], v["kind"], v["detail"], v["case"])
                if key is not None:
                    acc.tolerated[key] += 1
                else:
                    keep.append(v)
            if keep:
                type(self)._last["v"] = keep[0]
                if hyp.PROVISIONAL is not None and not type(self)._last.get("sent"):
                    type(self)._last["sent"] = True
                    try:
                        hyp.PROVISIONAL(keep[0])
                    except Exception:
                        pass
                raise hyp.MachineViolation(keep[0])

        @rule(op=op_assign())
        def assign(self, op):
            self.do(op)

        @rule(op=op_mode())
        def mode(self, op):
            self.do(op)

        @rule(op=op_rl())
        def rl(self, op):
            self.do(op)

        @rule(op=op_nl())
        def nl(self, op):
            self.do(op)

        @rule(op=op_call())
        def call(self, op):
            self.do(op)

        @rule(op=op_fcall())
        def fcall(self, op):
            self.do(op)

        def teardown(self):
            if self.s is not None:
                i = self.s.info
                nt = i["edits_between_calls"] > 0 and len(i["solsets"]) >= 2 and (i.get("toggled") or i.get("edited"))
                acc.case({"prog": self.s.prog, "history": self.s.history}, bool(nt),
                         sample=self.s.src + "\n# history: " + cjson(self.s.history))
                acc.label("steps", len(self.s.history))
                acc.label("calls", i["calls"])
                for op in self.s.history:
                    acc.label("op:" + op[0] + (":" + op[1] if op[0] == "call" else ""))
            reset_library()
    return Machine


def shards(tier):
    return [{"i": i, "n": 25 if tier == "quick" else 700, "steps": 20} for i in range(16)]


def run_shard(spec, seed, tier, acc):
    M = make_machine(acc)
    import os
    hyp.run_machine(M, seed, spec["n"], spec["steps"], acc, shrink=(os.environ.get("PVS_HYP_SHRINK", "1") != "0"))
    # structural reduction of the failing history (drop operations while the same signature fails)
    if acc.violations:
        v = acc.violations[-1]

        def sig(case):
            vs = replay(case)
            return (vs[0]["kind"], vs[0]["detail"]) if vs else None
        small = hyp.reduce_case(v["case"], sig, 15.0)
        vs = replay(small)
        if vs:
            acc.violations[-1] = vs[0]


def replay(case):
    s = Session(case["prog"])
    for op in case["history"]:
        vios = s.step(op)
        if vios:
            return vios
    return []
