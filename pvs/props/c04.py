"""C04 - list constraints hold on exactly the list the user sees."""
import itertools

from ..core import hyp, findings
from ..core.util import reset_library, cjson, exc_sig, import_vsc
from ..model import sem, gen, flat, render

PROPERTY = "C04"
LEVEL = "exploration"
RULE = ("cases = generated classes with 1-2 scalar lists (2-3 bit elements; fixed-size rand_list_t incl. size 0 and 1, "
        "randsz_list_t with a top-level size bound, non-random list_t) plus a random and a non-random scalar; statements: "
        "size bounds / size tied to a field, foreach by item, by index, by both, nested over two lists, index arithmetic "
        "under an index guard (if_then(i > 0): l[i] .. l[i-1]), sum, unique, unique_vec, 'x in list', constant "
        "subscripts; a history of calls interleaved with append / extend / clear / assign / setitem.  Oracle: (size, "
        "elements) of every list after a successful call lies in the reference solution set enumerated over sizes 0..4 x "
        "element values; S_ref non-empty => no failure, empty => SolveFailure; len(l) == l.size == len(list(l)); l[i] == "
        "i-th iterated value; a fixed-size list keeps its length; later edits act on exactly the exposed list (model = "
        "Python list).  A 'big list' family goes beyond what can be enumerated: fixed-size lists of 3-10 elements of 4-32 "
        "bits (both signednesses) generated solution-first (hidden assignment v*, every statement - foreach by item / index "
        "/ neighbour, sum in narrow and wide contexts, unique, membership, constant subscripts, element slices, if/else on "
        "the index - kept only if the reference says it holds at v*): calls must return a state the reference accepts, "
        "and v* plus perturbations of it (bit flip, boundary value, swap, copy, +-1; chosen so that the reference rejects "
        "some and accepts one) are pinned inline and must be accepted / rejected exactly as the reference says.  "
        "non-trivial = a returned list has length >= 2 and some statement couples two elements or size and "
        "elements; distinct = distinct canonical case")
ASSUMPTIONS = [
    "index arithmetic only under the index guards the documentation/tests use; an unguarded out-of-range subscript is user error and not generated",
    "a random-size list always has a top-level size bound (<= 4)",
    "sum is compared with literals / fields through the documented context-width rule (sum width = element width + clog2(size))",
]

MAXSZ = 4


def gen_list(d, name):
    w = d.choice([1, 2, 2, 3])      # 1-bit elements: a unique over more than two of them is unsatisfiable
    sg = d.chance(15)
    mode = d.weighted([(4, "fixed"), (4, "randsz"), (2, "nonrand")])
    l = {"name": name, "elem": {"kind": "int" if sg else "bit", "w": w, "signed": sg}, "mode": mode}
    if mode != "randsz":
        l["size"] = d.weighted([(1, 0), (2, 1), (3, 2), (3, 3), (1, 4)])
    lo, hi = (-(1 << (w - 1)), (1 << (w - 1)) - 1) if sg else (0, (1 << w) - 1)
    l["init"] = [d.randint(lo, hi) for _ in range(l.get("size", 0))]
    return l


def L(v):
    return ["lit", v]


def el(l, idx):
    return ["el", l, idx, None]


def fold_val(d, n, scal, depth, leaf_it):
    """value expression over the scalars, the index, the current element and small literals (conditions of if/else
    chains inside foreach: those built only from non-random operands are folded by the library before solving)"""
    r = d.randint(0, 99)
    if depth <= 0 or r < 45:
        k = d.randint(0, 99)
        if k < 35:
            return ["f", d.choice(scal)]
        if k < 60:
            return ["iv", "i"]
        if k < 80:
            return leaf_it
        if k < 88:
            return ["ulit", d.randint(0, 12), d.randint(4, 6)]       # an unsigned operand wider than every field
        return L(d.randint(0, 4))
    op = d.choice(["+", "-", "&", "|", "^", "|", "&", "<<", ">>", "*"])
    l = fold_val(d, n, scal, depth - 1, leaf_it)
    if l[0] == "lit":
        l = ["f", d.choice(scal)]
    if op in ("<<", ">>"):
        return ["bin", op, l, L(d.randint(0, 3))]
    if op == "*":
        return ["bin", op, l, L(d.randint(0, 3))]
    return ["bin", op, l, fold_val(d, n, scal, depth - 1, leaf_it)]


def fold_cond(d, n, scal, depth, leaf_it):
    r = d.randint(0, 99)
    if depth > 0 and r < 14:
        # a condition without any random operand (always folded): constants of both signednesses, the index, and an
        # unsigned literal that is wider than the fields
        consts = [["f", x] for x in scal if x != "s0"] + [["iv", "i"]]
        a = d.choice(consts)
        if d.chance(40):
            a = ["bin", d.choice(["+", "-", "^"]), a, d.choice(consts)]
        b = ["ulit", d.randint(0, 12), d.randint(4, 6)] if d.chance(60) else d.choice(consts)
        return ["bin", d.choice(["==", "!=", "<", "<=", ">", ">="]), a, b]
    if depth <= 0 or r < 70:
        l = fold_val(d, n, scal, 2, leaf_it)
        if l[0] == "lit":
            l = ["f", d.choice(scal)]
        return ["bin", d.choice(["==", "!=", "<", "<=", ">", ">="]), l, fold_val(d, n, scal, 1, leaf_it)]
    if r < 80:
        return ["not", fold_cond(d, n, scal, depth - 1, leaf_it)]
    return ["bin", d.choice(["&", "|"]), fold_cond(d, n, scal, depth - 1, leaf_it), fold_cond(d, n, scal, depth - 1, leaf_it)]


def fold_foreach(d, l, scal):
    """foreach over l with an if / else-if / else chain whose conditions mix non-random scalars, the index, random
    scalars and elements"""
    n = l["name"]
    emax = (1 << l["elem"]["w"]) - 1
    leaf_it = el(n, ["iv", "i"])

    def leafstmt():
        return ["expr", ["bin", d.choice(["==", "!=", "<", "<=", ">", ">="]), leaf_it,
                         L(d.randint(0, emax)) if d.chance(70) else ["f", d.choice(scal)]]]
    arms = [[fold_cond(d, n, scal, 1, leaf_it), [leafstmt()]] for _ in range(d.randint(1, 3))]
    els = [leafstmt()] if d.chance(50) else None
    body = [["if", arms, els]]
    if d.chance(30):
        body.insert(0, leafstmt())
    return ["foreach", n, "i", None, body]


def gen_stmts(d, lists, scal, p_fold=12):
    """list-specific statement generator"""
    out = []
    names = [l["name"] for l in lists]
    byname = {l["name"]: l for l in lists}
    for l in lists:
        if l["mode"] == "randsz":
            r = d.randint(0, 99)
            hi = d.randint(1, MAXSZ)
            if r < 40:
                out.append(["expr", ["bin", "<=", ["sz", l["name"]], L(hi)]])
            elif r < 75:
                lo = d.randint(0, hi)
                out.append(["expr", ["in", ["sz", l["name"]], [["rng", L(lo), L(hi)]]]])
            else:
                out.append(["expr", ["bin", "<=", ["sz", l["name"]], L(hi)]])
                out.append(["expr", ["bin", "==", ["sz", l["name"]], ["f", d.choice(scal)]]])
            if d.chance(25):
                # size constraints under a condition: they apply only when the condition holds, the other sizes stay possible
                cond = ["bin", d.choice(["<", ">=", "=="]), ["f", d.choice(scal)], L(d.randint(0, 4))]
                lo2 = d.randint(0, 2)
                then_ = [["expr", ["in", ["sz", l["name"]], [["rng", L(lo2), L(d.randint(lo2, 3))]]]]]
                else_ = [["expr", ["bin", d.choice([">=", ">", "!="]), ["sz", l["name"]], L(d.randint(0, 3))]]] if d.chance(70) else None
                out.append(["if", [[cond, then_]], else_] if d.chance(75) else ["implies", cond, then_])
            if l["elem"]["w"] == 1 and d.chance(50):
                # at most two 1-bit elements can differ: the elements the list is grown by for solving must not count
                out.append(["uniql", l["name"]])
    for _ in range(d.randint(1, 4)):
        l = d.choice(lists)
        n = l["name"]
        emax = (1 << l["elem"]["w"]) - 1
        if d.chance(p_fold):
            out.append(fold_foreach(d, l, scal))
            continue
        if d.chance(10):
            # bodies that need more than a plain copy when the foreach is unrolled: a slice of the element, a unique
            # among element and scalar, the list's own sum, and a foreach under a top-level if/else or implies
            k2 = d.randint(0, 4)
            w_ = l["elem"]["w"]
            if k2 == 4:
                # foreach -> if/implies -> foreach: the inner loop stays under the condition
                inner = d.choice(lists)
                imax = (1 << inner["elem"]["w"]) - 1
                cond = ["bin", d.choice(["<", ">=", "=="]), el(n, ["iv", "i"]), L(d.randint(0, emax))] if d.chance(70) else \
                    ["bin", d.choice(["<", ">="]), ["f", "s0"], L(d.randint(1, 6))]
                ibody = [["foreach", inner["name"], "j", None, [["expr", ["bin", d.choice(["==", "!=", "<=", ">"]), el(inner["name"], ["iv", "j"]), L(d.randint(0, imax))]]]]]
                out.append(["foreach", n, "i", None, [["if", [[cond, ibody]], None] if d.chance(60) else ["implies", cond, ibody]]])
                continue
            if k2 == 0:
                hi_ = d.randint(0, w_ - 1)
                lo_ = d.randint(0, hi_)
                out.append(["foreach", n, "i", None, [["expr", ["bin", d.choice(["==", "!=", "<="]), ["pse", el(n, ["iv", "i"]), hi_, lo_],
                                                               L(d.randint(0, (1 << (hi_ - lo_ + 1)) - 1))]]]])
            elif k2 == 1:
                out.append(["foreach", n, "i", None, [["unique", [el(n, ["iv", "i"]), ["f", "s0"]]]]])
            elif k2 == 2:
                out.append(["foreach", n, "i", None, [["expr", ["bin", d.choice(["<=", "<", "!="]), el(n, ["iv", "i"]), ["sum", n]]]]])
            else:
                body1 = [["foreach", n, "i", None, [["expr", ["bin", d.choice(["<", "<=", "!="]), el(n, ["iv", "i"]), L(d.randint(1, emax))]]]]]
                body2 = [["foreach", n, "i", None, [["expr", ["bin", d.choice([">", ">=", "!="]), el(n, ["iv", "i"]), L(d.randint(0, emax - 1))]]]]]
                cond = ["bin", d.choice(["==", "<", ">="]), ["f", d.choice(scal)], L(d.randint(0, 4))]
                out.append(["if", [[cond, body1]], body2 if d.chance(60) else None] if d.chance(70) else ["implies", cond, body1])
            continue
        r = d.randint(0, 99)
        if r < 14:
            out.append(["foreach", n, None, "it", [["expr", ["bin", d.choice(["<", "<=", "!=", ">"]), ["it", "it"], L(d.randint(0, emax))]]]])
        elif r < 24:
            out.append(["foreach", n, None, "it", [["expr", ["bin", d.choice(["!=", "<=", ">="]), ["it", "it"], ["f", d.choice(scal)]]]]])
        elif r < 36:
            out.append(["foreach", n, "i", None, [["expr", ["bin", d.choice(["<=", ">=", "!="]), el(n, ["iv", "i"]), ["iv", "i"]]]]])
        elif r < 50:
            op = d.choice([">", ">=", "!=", "<"])
            nb = [["expr", ["bin", op, el(n, ["iv", "i"]), el(n, ["bin", "-", ["iv", "i"], L(1)])]]]
            guard = ["bin", ">", ["iv", "i"], L(0)]
            # (the index guard is an if_then or, just as naturally, an implies)
            out.append(["foreach", n, "i", None, [["if", [[guard, nb]], None] if d.chance(60) else ["implies", guard, nb]]])
        elif r < 54:
            out.append(["foreach", n, "i", "it", [["expr", ["bin", d.choice([">=", "!="]), ["it", "it"], ["iv", "i"]]]]])
        elif r < 58:
            # an arithmetic expression on the left of a subscript
            out.append(["foreach", n, "i", None, [["expr", ["bin", d.choice(["<", "<=", ">", ">="]),
                                                            ["bin", d.choice(["+", "^"]), ["f", d.choice(scal)], L(d.randint(0, 2))], el(n, ["iv", "i"])]]]])
        elif r < 66 and len(lists) > 1:
            m = [x for x in names if x != n][0]
            out.append(["foreach", n, None, "p", [["foreach", m, None, "q", [["expr", ["bin", "!=", ["it", "p"], ["it", "q"]]]]]]])
        elif r < 76:
            k = d.randint(0, emax * 2)
            se = ["sum", n]
            if d.chance(30):
                # the sum as an operand of a further operation: its width follows the list's length from call to call
                se = ["bin", d.choice(["+", "-", "^"]), se, L(d.randint(0, 2)) if d.chance(60) else ["f", d.choice(scal)]]
            out.append(["expr", ["bin", d.choice(["==", "<=", ">=", "!="]), se, L(k) if d.chance(70) else ["f", d.choice(scal)]]])
        elif r < 80:
            k = d.choice([0, 1, 2, 3, 4, 6, 8, 9, 12, 27])
            out.append(["expr", ["bin", d.choice(["==", "<=", ">=", "!="]), ["prod", n], L(k) if d.chance(70) else ["f", d.choice(scal)]]])
        elif r < 84:
            out.append(["uniql", n])
        elif r < 88 and len(lists) > 1 and all(x["mode"] != "randsz" for x in lists) and lists[0].get("size") == lists[1].get("size") \
                and lists[0]["elem"] == lists[1]["elem"]:
            out.append(["uvec", names])
        elif r < 94 and (l["mode"] == "randsz" or l.get("size", 0) >= 1):
            # (membership in a random-size list: only the elements within the solved size are members)
            out.append(["expr", ["inl", ["f", scal[0]], n]])
        elif l["mode"] != "randsz" and l.get("size", 0) >= 1:
            j = d.randint(0, l["size"] - 1)
            out.append(["expr", ["bin", d.choice(["==", "!=", "<"]), el(n, L(j)), L(d.randint(0, emax))]])
        else:
            out.append(["foreach", n, None, "it", [["expr", ["bin", "<=", ["it", "it"], L(emax)]]]])
    return out


def _cases(d, p_fold=12, no_randsz=False):
    lists = [gen_list(d, "l")]
    if d.chance(35):
        lists.append(gen_list(d, "m"))
    if no_randsz:
        for l in lists:
            if l["mode"] == "randsz":
                l["mode"] = "fixed"
                l["size"] = d.randint(1, 3)
                l["init"] = [0] * l["size"]
    fields = [{"name": "s0", "kind": "bit", "w": 3, "signed": False, "rand": True, "init": 0},
              {"name": "n0", "kind": "bit", "w": 3, "signed": False, "rand": False, "init": d.randint(0, 4)},
              # a SIGNED constant (negative in half of the cases): folded conditions must extend it the way the solver does
              {"name": "m0", "kind": "int", "w": 3, "signed": True, "rand": False, "init": d.randint(-4, 3)}]
    stmts = gen_stmts(d, lists, ["s0", "n0", "m0"], p_fold)
    ops = [["call", d.seed()]]
    for _ in range(d.randint(0, 5)):
        r = d.randint(0, 99)
        l = d.choice(lists)
        w = l["elem"]["w"]
        lo, hi = (-(1 << (w - 1)), (1 << (w - 1)) - 1) if l["elem"]["signed"] else (0, (1 << w) - 1)
        if r < 45:
            ops.append(["call", d.seed()])
        elif r < 60:
            ops.append(["append", l["name"], d.randint(lo, hi)])
        elif r < 68:
            ops.append(["extend", l["name"], [d.randint(lo, hi) for _ in range(d.randint(1, 2))]])
        elif r < 76:
            ops.append(["clear", l["name"]])
        elif r < 88:
            ops.append(["assign", l["name"], [d.randint(lo, hi) for _ in range(d.randint(0, 3))]])
        else:
            ops.append(["setitem", l["name"], d.randint(0, 3), d.randint(lo, hi)])
    ops.append(["call", d.seed()])
    cls = {"name": "T", "fields": fields, "lists": lists, "blocks": [{"name": "c0", "stmts": stmts}]}
    return {"prog": {"enums": {}, "classes": [cls]}, "ops": ops}


cases = hyp.composite(_cases)


def text_of(case):
    return render.program_source(case["prog"]) + "# initial list contents: %s\n# ops: %s" % (
        cjson({l["name"]: l["init"] for l in case["prog"]["classes"][0]["lists"]}), cjson(case["ops"]))


def shape_of(case):
    cls = case["prog"]["classes"][0]
    stmts = cls["blocks"][0]["stmts"]
    lists = {l["name"]: l for l in cls["lists"]}
    flags = []
    randsz = [n for n, l in lists.items() if l["mode"] == "randsz"]

    def refs_elems(s, n):
        k = s[0]
        if k == "foreach":
            return s[1] == n or any(refs_elems(b, n) for b in s[4])
        if k in ("uniql",):
            return s[1] == n
        if k == "uvec":
            return n in s[1]
        if k == "expr":
            return n in sem.fields_of_expr(s[1]) and s[1][0] != "sz" and not _only_size(s[1], n)
        if k == "if":
            return any(any(refs_elems(b, n) for b in body) for c, body in s[1]) or any(refs_elems(b, n) for b in (s[2] or []))
        if k == "implies":
            return any(refs_elems(b, n) for b in s[2])
        if k == "unique":
            return any(n in sem.fields_of_expr(e_) for e_ in s[1])
        return False
    for n in randsz:
        if any(refs_elems(s, n) for s in stmts):
            flags.append("randsz-size-coupled-to-elements")
            break
    return flags


def _only_size(e, n):
    k = e[0]
    if k == "sz":
        return True
    if k in ("sum", "prod", "el", "inl"):
        return False
    if k == "bin":
        return _only_size(e[2], n) and _only_size(e[3], n)
    if k == "in":
        return _only_size(e[1], n)
    return True


def V(kind, detail, case, extra=None):
    v = {"property": PROPERTY, "kind": kind, "detail": detail, "case": case, "text": text_of(case)}
    if extra:
        v["text"] += "\n# " + extra
    return v


def enumerate_lists(types, lists, cur, fields, env_scal, stmts):
    """-> list of solutions; a solution = (s0 value, tuple per list of element tuple).  Random: s0, elements of rand
    lists, size of randsz lists."""
    opts = []
    for l in lists:
        n = l["name"]
        dom = list(sem.domain(types[n + "[]"]))
        if l["mode"] == "nonrand":
            opts.append([tuple(cur[n])])
        elif l["mode"] == "fixed":
            opts.append(list(itertools.product(dom, repeat=len(cur[n]))))
        else:
            o = []
            for sz in range(0, MAXSZ + 1):
                o.extend(itertools.product(dom, repeat=sz))
            opts.append(o)
    total = 8
    for o in opts:
        total *= len(o)
    if total > 60000:
        return None
    sols = []
    env = dict(env_scal)
    c = sem.Ctx(types, env)
    for s0 in range(8):
        env["s0"] = s0
        for combo in itertools.product(*opts):
            for k in [k for k in env if "[" in k or k.startswith("#")]:
                del env[k]
            for l, elems in zip(lists, combo):
                env["#" + l["name"]] = len(elems)
                for i, v in enumerate(elems):
                    env["%s[%d]" % (l["name"], i)] = v
            try:
                ok = all(sem.holds(s, c) for s in stmts)
            except KeyError:
                ok = False       # subscript outside the list: not a valid assignment for this statement set
            if ok:
                sols.append((s0, combo))
    return sols


def const_subscripts_ok(stmts, cur, lists):
    mode = {l["name"]: l["mode"] for l in lists}
    ok = [True]

    def ex(e):
        if not isinstance(e, list) or not e:
            return
        if e[0] == "el" and e[2][0] == "lit":
            if mode.get(e[1]) != "randsz" and e[2][1] >= len(cur[e[1]]):
                ok[0] = False
        for x in e[1:]:
            if isinstance(x, list):
                ex(x)
    for s in stmts:
        ex(s)
        if s[0] == "uvec":
            # documented precondition: all vectors of the same (non-zero) size
            sizes = set(len(cur[n]) for n in s[1])
            if len(sizes) != 1 or 0 in sizes:
                ok[0] = False
    return ok[0]


def run_case(case):
    if case.get("objlist"):
        return run_objlist(case)
    if case.get("biglist"):
        return run_biglist(case)
    prog = case["prog"]
    cls = prog["classes"][0]
    lists = cls["lists"]
    if any((not isinstance(op, list)) or not op or op[0] not in ("call", "append", "extend", "clear", "assign", "setitem")
           or (op[0] != "call" and len(op) < (2 if op[0] == "clear" else 3)) for op in case["ops"]):
        return [], {}
    stmts = cls["blocks"][0]["stmts"]
    if not all(sem.well_formed(s) for s in stmts):
        return [], {}
    types = {f["name"]: f for f in cls["fields"]}
    for l in lists:
        types[l["name"] + "[]"] = l["elem"]
    info = {"returned": 0, "len2": False}
    if any(l["mode"] != "randsz" and len(l.get("init", [])) != l.get("size", 0) for l in lists):
        return [], info          # not a generated shape (the structural reducer shortened an initial list)
    def bounds_size(s_, n_):
        """top-level statement that bounds the size of list n_ from above by a literal (what every generated random-size
        list has: the structural reducer may have removed it)"""
        if s_[0] != "expr":
            return False
        e_ = s_[1]
        if e_[0] == "bin" and e_[1] == "<=" and e_[2] == ["sz", n_] and e_[3][0] == "lit":
            return True
        return e_[0] == "in" and e_[1] == ["sz", n_] and all(i_[0] == "rng" and i_[2][0] == "lit" for i_ in e_[2])
    if not lists or any(l["mode"] == "randsz" and not any(bounds_size(s, l["name"]) for s in stmts) for l in lists):
        return [], info
    reset_library()
    try:
        ns = render.build(prog)
        obj = ns["T"]()
        for f_ in cls["fields"][1:]:
            setattr(obj, f_["name"], f_["init"])
        cur = {}
        for l in lists:
            lo = getattr(obj, l["name"])
            if l["mode"] != "randsz":
                for i, v in enumerate(l["init"]):
                    lo[i] = v
            cur[l["name"]] = list(l["init"]) if l["mode"] != "randsz" else []
    except Exception as e:
        reset_library()
        return [V("library_exception", "construction: " + exc_sig(e), case, repr(e)[:300])], info
    n0 = cls["fields"][1]["init"]
    consts = {f_["name"]: f_["init"] for f_ in cls["fields"][1:]}

    def lib_list(name):
        lo = getattr(obj, name)
        return lo

    for step, op in enumerate(case["ops"]):
        where = "step %d %s" % (step, cjson(op))
        k = op[0]
        try:
            if k == "append":
                lib_list(op[1]).append(op[2])
                cur[op[1]].append(op[2])
            elif k == "extend":
                lib_list(op[1]).extend(op[2])
                cur[op[1]].extend(op[2])
            elif k == "clear":
                lib_list(op[1]).clear()
                cur[op[1]] = []
            elif k == "assign":
                setattr(obj, op[1], list(op[2]))
                cur[op[1]] = list(op[2])
            elif k == "setitem":
                if op[2] < len(cur[op[1]]):
                    lib_list(op[1])[op[2]] = op[3]
                    cur[op[1]][op[2]] = op[3]
        except Exception as e:
            reset_library()
            return [V("library_exception", "%s: %s" % (k, exc_sig(e)), case, where + " raised %r" % (e,))], info
        if k != "call":
            # edits act on exactly the exposed list
            for l in lists:
                lo = lib_list(l["name"])
                got = [int(x) for x in lo]
                if got != cur[l["name"]] or len(lo) != len(cur[l["name"]]):
                    return [V("edit_on_wrong_list", "an edit did not act on exactly the exposed list", case,
                              where + ": list %s reads %s, model %s" % (l["name"], got, cur[l["name"]]))], info
            continue
        if any(len(cur[l["name"]]) > MAXSZ for l in lists if l["mode"] != "randsz"):
            return [], info      # outside the enumerated size range
        if not const_subscripts_ok(stmts, cur, lists):
            return [], info      # an edit made a constant subscript / membership operand invalid: user error, not judged
        if any('"prod"' in cjson(s_) for s_ in stmts) and any(l["mode"] != "randsz" and not cur[l["name"]] for l in lists
                                                              if ('["prod","%s"]' % l["name"]) in cjson(stmts)):
            return [], info      # the product of an empty list is not specified (the library says 0): not judged
        sols = enumerate_lists(types, lists, cur, cls["fields"], dict(consts, s0=0), stmts)
        if sols is None:
            return [], info
        st, exc = flat.do_call(ns, obj, "randomize", None, op[1])
        if st == "exc":
            reset_library()
            return [V("library_exception", "randomize: " + exc.sig, case, where + " raised %r" % (exc,))], info
        if st == "sf":
            if sols:
                return [V("spurious_solve_failure", "randomize", case, where + ": %d solutions exist, e.g. %s (lists before the call: %s)"
                          % (len(sols), sols[0], cjson(cur)))], info
            # the values of random elements after a failed call are unspecified, the list itself is not: it exposes the
            # elements it held before the call (a random-size list is not left grown)
            for l in lists:
                lo = lib_list(l["name"])
                try:
                    got = [int(x) for x in lo]
                    ok_ = len(lo) == lo.size == len(got) == len(cur[l["name"]])
                except Exception as e_:
                    got, ok_ = repr(e_), False
                if not ok_:
                    return [V("length_disagree", "after a failed call the list does not expose the elements it held before", case,
                              where + " raised SolveFailure: list %s held %d elements, now len=%d size=%d iterated=%s"
                              % (l["name"], len(cur[l["name"]]), len(lo), lo.size, got))], info
                if l["mode"] != "nonrand":
                    cur[l["name"]] = got
            info["continued_after_failure"] = info.get("continued_after_failure", 0) + 1
            continue
        info["returned"] += 1
        # read back through every access path
        state = []
        for l in lists:
            lo = lib_list(l["name"])
            n = len(lo)
            try:
                it = [int(x) for x in lo]
                ix = [int(lo[i]) for i in range(n)]
            except Exception as e_:
                return [V("length_disagree", "len(), size and iteration disagree", case,
                          where + ": list %s len=%d size=%d, reading the elements raised %r" % (l["name"], n, lo.size, e_))], info
            if not (n == lo.size == len(it)):
                return [V("length_disagree", "len(), size and iteration disagree", case,
                          where + ": list %s len=%d size=%d iterated=%d" % (l["name"], n, lo.size, len(it)))], info
            if it != ix:
                return [V("index_iter_disagree", "indexing and iteration disagree", case, where + ": %s vs %s" % (ix, it))], info
            if l["mode"] == "fixed" and n != len(cur[l["name"]]):
                return [V("fixed_size_changed", "a fixed-size list changed its length", case,
                          where + ": list %s had %d elements, now %d" % (l["name"], len(cur[l["name"]]), n))], info
            if l["mode"] == "nonrand" and it != cur[l["name"]]:
                return [V("nonrandom_list_changed", "a non-random list changed", case, where + ": %s -> %s" % (cur[l["name"]], it))], info
            for v in it:
                if not sem.in_type(v, l["elem"]):
                    return [V("element_out_of_type", l["name"], case, where + ": %s" % it)], info
            state.append(tuple(it))
            if n >= 2:
                info["len2"] = True
        s0 = int(obj.s0)
        for cn, cv in consts.items():
            if int(getattr(obj, cn)) != cv:
                return [V("nonrandom_changed", cn, case, where)], info
        if not sols:
            return [V("returned_on_unsat", "randomize", case, where + " returned s0=%d lists=%s" % (s0, state))], info
        if (s0, tuple(state)) not in set(sols):
            env = dict(consts, s0=s0)
            for l, elems in zip(lists, state):
                env["#" + l["name"]] = len(elems)
                for i, v in enumerate(elems):
                    env["%s[%d]" % (l["name"], i)] = v
            try:
                bad = sem.first_false(stmts, types, env)
            except KeyError:
                bad = "?"
            return [V("list_constraint_violated", "a list constraint does not hold on the list the user sees", case,
                      where + " returned s0=%d lists=%s; statement #%s is false over exactly these elements" % (s0, [list(x) for x in state], bad))], info
        for l, elems in zip(lists, state):
            cur[l["name"]] = list(elems)
    return [], info




# ------------------------------------------------------------------------------------------------
# family: lists of OBJECTS - the list facade keeps the Python objects, the model keeps their field models; every edit
# (append, clear, l[k] = obj) and every random-size truncation has to keep the two aligned
OBJ_SRC = """
@vsc.randobj
class E(object):
    def __init__(self, tag):
        self.tag = tag
        self.a = vsc.rand_bit_t(3)
        self.r = vsc.randsz_list_t(vsc.bit_t(3))      # a random-size list owned by the element
    @vsc.constraint
    def ce(self):
        self.a != 7
        self.r.size.inside(vsc.rangelist(vsc.rng(1, 3)))

@vsc.randobj
class T(object):
    def __init__(self, n):
        self.rebuild = None
        self.k = vsc.bit_t(2)
        self.l = vsc.%(ctor)s(E(-1))
        for i in range(n):
            self.l.append(E(i))
        self.m = vsc.randsz_list_t(E(-1))
        for i in range(%(n2)d):
            self.m.append(E(50 + i))
    def pre_randomize(self):
        if self.rebuild is not None:
            # the list is rebuilt for this call: the new objects are random in it, their own block applies
            self.made = [E(self.rebuild[0] + i) for i in range(self.rebuild[1])]
            if len(self.rebuild) > 2 and self.rebuild[2] and len(self.l) == len(self.made):
                # (same length: the objects are replaced one by one through item assignment)
                for i, e in enumerate(self.made):
                    self.l[i] = e
            else:
                self.l.clear()
                for e in self.made:
                    self.l.append(e)
            self.rebuild = None
    @vsc.constraint
    def c0(self):
%(size_stmt)s        with vsc.foreach(self.l, idx=True) as i:
            self.l[i].a %(op)s i + self.k
"""
OBJ_OPS = {"==": lambda a, b: a == b, "!=": lambda a, b: a != b, "<": lambda a, b: a < b, "<=": lambda a, b: a <= b,
           ">": lambda a, b: a > b, ">=": lambda a, b: a >= b}


@hyp.composite
def objlist_cases(d):
    mode = d.choice(["rand_list_t", "rand_list_t", "randsz_list_t", "list_t"])
    n = d.randint(0, 4)
    case = {"objlist": True, "ctor": mode, "n": n, "op": d.choice(["==", "!=", "<", "<=", ">", ">="]), "k": d.randint(0, 3)}
    if mode == "randsz_list_t":
        lo = d.randint(0, 2)
        case["size"] = [lo, d.randint(lo, 4)]
    ops = [["call", d.seed()]]
    for _ in range(d.randint(1, 6)):
        r = d.randint(0, 99)
        if r < 40:
            ops.append(["call", d.seed()])
        elif r < 60:
            ops.append(["append"])
        elif r < 72:
            ops.append(["clear"])
        elif r < 82:
            ops.append(["setitem", d.randint(0, 3)])
        elif r < 91:
            # pre_randomize of the next call clears the list and appends n new objects (n = -1: as many as it holds,
            # replaced one by one through item assignment)
            ops.append(["rebuild", -1 if d.chance(40) else d.randint(0, 4)])
        else:
            ops.append(["setk", d.randint(0, 3)])
    ops.append(["call", d.seed()])
    case["ops"] = ops
    # a second, random-size list of objects whose size range may admit more than it holds (only sizes up to the number
    # of objects it holds are possible); its elements are not constrained
    n2 = d.randint(0, 3)
    lo2 = d.randint(0, max(0, n2 - 1))
    case["m"] = {"n": n2, "size": [lo2, d.randint(max(lo2, n2), 6)]} if d.chance(60) else {"n": 0, "size": [0, 0]}
    return case


def objlist_source(case):
    sz = ""
    if case.get("size"):
        sz = "        self.l.size.inside(vsc.rangelist(vsc.rng(%d, %d)))\n" % tuple(case["size"])
    m = case.get("m") or {"n": 0, "size": [0, 0]}
    sz += "        self.m.size.inside(vsc.rangelist(vsc.rng(%d, %d)))\n" % tuple(m["size"])
    return OBJ_SRC % {"ctor": case["ctor"], "size_stmt": sz, "op": case["op"], "n2": m["n"]}


def run_objlist(case):
    import enum as _enum
    vsc = import_vsc()
    info = {"returned": 0, "len2": False, "edits": 0}
    if case.get("ctor") not in ("rand_list_t", "randsz_list_t", "list_t") or case.get("op") not in OBJ_OPS:
        return [], info
    src = objlist_source(case)
    text = src + "# T(%d), k=%d; ops: %s" % (case["n"], case["k"], cjson(case["ops"]))

    def Vo(kind, detail, extra):
        return {"property": PROPERTY, "kind": kind, "detail": detail, "case": case, "text": text + "\n# " + extra}
    reset_library()
    try:
        ns = {"vsc": vsc, "enum": _enum}
        exec(compile(src, "<pvs-c04-obj>", "exec"), ns)
        top = ns["T"](case["n"])
        top.k = case["k"]
        cur = list(top.l)
        curm = list(top.m)
    except Exception as e:
        reset_library()
        return [Vo("library_exception", "construction: " + exc_sig(e), repr(e)[:300])], info
    k = case["k"]
    op = OBJ_OPS[case["op"]]
    tag = [100]
    removed = []      # objects that left the list, with the value they had then
    rand_elems = case["ctor"] != "list_t"

    def feasible(i, o):
        if rand_elems:
            return any(op(a, i + k) for a in range(7))       # (the element's own block excludes 7)
        return op(0 if o is None else int(o.a), i + k)     # (None: an object pre_randomize is going to create; a starts at 0)
    pending = [None]
    for step, o_ in enumerate(case["ops"]):
        where = "step %d %s" % (step, cjson(o_))
        try:
            if o_[0] == "append":
                tag[0] += 1
                e = ns["E"](tag[0])
                top.l.append(e)
                cur.append(e)
                info["edits"] += 1
            elif o_[0] == "clear":
                removed += [(e, int(e.a)) for e in cur]
                top.l.clear()
                cur = []
                info["edits"] += 1
            elif o_[0] == "setitem":
                if o_[1] < len(cur):
                    tag[0] += 1
                    e = ns["E"](tag[0])
                    removed.append((cur[o_[1]], int(cur[o_[1]].a)))
                    top.l[o_[1]] = e
                    cur[o_[1]] = e
                    info["edits"] += 1
            elif o_[0] == "setk":
                top.k = o_[1]
                k = o_[1]
            elif o_[0] == "rebuild":
                tag[0] += 100
                pending[0] = [tag[0], o_[1]] if o_[1] >= 0 else [tag[0], len(cur), True]
                top.rebuild = list(pending[0])
                info["edits"] += 1
        except Exception as e:
            reset_library()
            return [Vo("library_exception", "%s: %s" % (o_[0], exc_sig(e)), where + " raised %r" % (e,))], info
        if o_[0] == "rebuild":
            continue
        if o_[0] != "call":
            got = list(top.l)
            if len(got) != len(cur) or any(a is not b for a, b in zip(got, cur)) or len(top.l) != len(cur) or \
                    any(top.l[i] is not cur[i] for i in range(len(cur))):
                return [Vo("edit_on_wrong_list", "an edit of an object list did not act on exactly the exposed list", 
                           where + ": list holds tags %s, expected %s" % ([getattr(x, "tag", "?") for x in got], [x.tag for x in cur]))], info
            continue
        rebuilt = pending[0]
        pending[0] = None
        if rebuilt is not None:
            removed += [(e, int(e.a)) for e in cur]
            cur = [None] * rebuilt[1]
        # reference: which sizes are possible
        if case.get("size"):
            sizes = [s_ for s_ in range(case["size"][0], case["size"][1] + 1) if s_ <= len(cur) and all(feasible(i, cur[i]) for i in range(s_))]
        else:
            sizes = [len(cur)] if all(feasible(i, cur[i]) for i in range(len(cur))) else []
        mspec_ = (case.get("m") or {"size": [0, 0]})["size"]
        if mspec_[0] > len(curm):
            sizes = []
        before = [0 if e is None else int(e.a) for e in cur]
        st, exc = flat.do_call(ns, top, "randomize", None, o_[1])
        if rebuilt is not None and st != "exc":
            # the objects pre_randomize created, in order
            made = list(getattr(top, "made", []))
            if len(made) != rebuilt[1] or top.rebuild is not None:
                return [Vo("edit_on_wrong_list", "pre_randomize did not run before the solve", where + ": %d objects made, %d expected" % (len(made), rebuilt[1]))], info
            cur = made
            info["rebuilds"] = info.get("rebuilds", 0) + 1
        if st == "exc":
            reset_library()
            return [Vo("library_exception", "randomize: " + exc.sig, where + " raised %r" % (exc,))], info
        if st == "sf":
            if sizes:
                return [Vo("spurious_solve_failure", "randomize", where + ": object list: sizes %s are possible (tags %s, k=%d)" % (sizes, [e.tag for e in cur], k))], info
            # a failed call leaves the list exposing the objects it held before (also a random-size one)
            got_f = list(top.l)
            if len(got_f) != len(cur) or len(top.l) != len(cur) or any(a is not b for a, b in zip(got_f, cur)):
                return [Vo("edit_on_wrong_list", "after a failed call the object list does not expose the objects it held before", 
                           where + ": exposes tags %s, held %s" % ([getattr(x, "tag", "?") for x in got_f], [x.tag for x in cur]))], info
            continue
        info["returned"] += 1
        # the second list: any size of its range that it can hold; first objects kept
        mspec = (case.get("m") or {"size": [0, 0]})["size"]
        try:
            gm = list(top.m)
            ok_m = len(top.m) == top.m.size == len(gm) and all(top.m[i] is gm[i] for i in range(len(gm)))
        except Exception as e:
            return [Vo("length_disagree", "len(), size, indexing and iteration of a random-size object list disagree",
                       where + ": list m: size=%s, iteration raised %r" % (top.m.size, e))], info
        if not ok_m or not (mspec[0] <= len(gm) <= min(mspec[1], len(curm))) or any(a is not b for a, b in zip(gm, curm)):
            return [Vo("length_disagree", "len(), size, indexing and iteration of a random-size object list disagree", 
                       where + ": list m exposes %d objects (size attribute %s), held %d, size range %s" % (len(gm), top.m.size, len(curm), mspec))], info
        curm = gm
        got = list(top.l)
        n = len(top.l)
        if not (n == top.l.size == len(got)) or any(top.l[i] is not got[i] for i in range(n)):
            return [Vo("length_disagree", "len(), size, indexing and iteration of an object list disagree", where + ": len=%d size=%d iterated=%d" % (n, top.l.size, len(got)))], info
        if not sizes:
            return [Vo("returned_on_unsat", "object list", where + " returned tags %s" % [getattr(x, "tag", "?") for x in got])], info
        if n not in sizes or any(a is not b for a, b in zip(got, cur[:n])):
            return [Vo("list_constraint_violated", "the exposed object list is not the first 'size' objects / has a size the constraints exclude", 
                       where + ": exposes tags %s, list before the call %s, possible sizes %s" % ([getattr(x, "tag", "?") for x in got], [x.tag for x in cur], sizes))], info
        for i, e in enumerate(got):
            if not op(int(e.a), i + k):
                return [Vo("list_constraint_violated", "a foreach body over a list of objects does not hold on the list the user sees", 
                           where + ": element %d (tag %s) has a=%d, body: a %s %d" % (i, e.tag, int(e.a), case["op"], i + k))], info
            if not rand_elems and int(e.a) != before[i]:
                return [Vo("nonrandom_list_changed", "an element of a non-random object list changed", where)], info
            try:
                rl = [int(x) for x in e.r]
                r_ok = len(e.r) == e.r.size == len(rl) and all(int(e.r[j]) == rl[j] for j in range(len(rl)))
                r_desc = "len=%d size=%d iterated=%d" % (len(e.r), e.r.size, len(rl))
            except Exception as ex_:
                r_ok, rl, r_desc = False, None, "len=%s size=%s, iteration raised %r" % (len(e.r), e.r.size, ex_)
            if not r_ok:
                return [Vo("length_disagree", "len(), size, indexing and iteration of a random-size list inside a list element disagree", 
                           where + ": element %d (tag %s): %s" % (i, e.tag, r_desc))], info
            if rand_elems and not (1 <= len(rl) <= 3):
                return [Vo("list_constraint_violated", "size constraint of a random-size list inside a list element", 
                           where + ": element %d (tag %s): %d elements, its block says 1..3" % (i, e.tag, len(rl)))], info
            if not rand_elems and rl:
                return [Vo("nonrandom_list_changed", "a random-size list inside an element of a non-random object list changed", where + ": %s" % rl)], info
            if rand_elems and int(e.a) == 7:
                return [Vo("list_constraint_violated", "the own constraint block of a list element is not enforced", 
                           where + ": element %d (tag %s) has a=7, its block says a != 7" % (i, e.tag))], info
        removed += [(e, int(e.a)) for e in cur[n:]]
        cur = got
        for e, v in removed:
            if int(e.a) != v:
                return [Vo("edit_on_wrong_list", "an object that is no longer in the list was randomized", where + ": tag %s a %d -> %d" % (e.tag, v, int(e.a)))], info
        if n >= 2:
            info["len2"] = True
    return [], info


# ------------------------------------------------------------------------------------------------
# family: BIG lists - 3..10 elements of 4..32 bits (both signednesses).  The solution set cannot be enumerated, so the
# class is generated solution-first: a hidden assignment v* (scalar + every element) is drawn, and every statement is
# kept only if the reference says it holds at v*.  The system is satisfiable by construction; v* and perturbations of
# it (one bit of one element flipped, an element moved to a type boundary, two elements swapped) are pinned through
# inline constraints and must be accepted / rejected exactly as the reference says.
BIG_W = [4, 5, 8, 8, 12, 16, 16, 31, 32]


def _fits_lit(v):
    return -(1 << 31) <= v < (1 << 31)


def _lit_for(d, v, t):
    """a literal denoting v written the way a user would: plain int when it fits and the element is narrow enough for
    the 32-bit signed literal not to change the comparison, else a sized literal of the element's own type"""
    if _fits_lit(v) and t["w"] <= 31 and d.chance(70):
        return ["lit", v]
    return ["slit", v, t["w"]] if t["signed"] else ["ulit", v, t["w"]]


def apply_pert(p, s0, vs, et, st_t):
    """-> (s0, elements) after perturbation p, or None if p is not a perturbation (structural reduction)"""
    vs = list(vs)
    n = len(vs)
    lo_t, hi_t = sem.type_range(et)
    try:
        if p[0] == "flip":
            vs[p[1] % n] = sem.wrap((vs[p[1] % n] & sem.mask(et["w"])) ^ (1 << (p[2] % et["w"])), et["w"], et["signed"])
        elif p[0] == "bound":
            vs[p[1] % n] = hi_t if p[2] else lo_t
        elif p[0] == "swap":
            a, b = p[1] % n, p[2] % n
            vs[a], vs[b] = vs[b], vs[a]
        elif p[0] == "copy":
            vs[p[1] % n] = vs[p[2] % n]
        elif p[0] == "add":
            vs[p[1] % n] = sem.wrap(vs[p[1] % n] + (1 if p[2] else -1), et["w"], et["signed"])
        elif p[0] == "s0":
            s0 = sem.wrap((s0 & sem.mask(st_t["w"])) ^ (1 << (p[1] % st_t["w"])), st_t["w"], st_t["signed"])
        else:
            return None
    except (TypeError, IndexError):
        return None
    return s0, vs


@hyp.composite
def biglist_cases(d):
    w = d.choice(BIG_W)
    sg = d.chance(30)
    n = d.randint(3, 10)
    et = {"kind": "int" if sg else "bit", "w": w, "signed": sg}
    lo, hi = sem.type_range(et)
    style = d.randint(0, 3)
    # hidden solution: small values, spread values, sorted values, values near the top of the type (sums that need
    # the carry bits)
    if style == 0:
        vs = [d.randint(max(lo, -8), min(hi, 15)) for _ in range(n)]
    elif style == 1:
        vs = [d.randint(lo, hi) for _ in range(n)]
    elif style == 2:
        vs = sorted(d.randint(lo, hi) for _ in range(n))
        if d.chance(50):
            vs.reverse()
    else:
        vs = [hi - d.randint(0, 3) for _ in range(n)]
    ws = d.choice([w, w, max(1, w - 2), min(64, w + 4), 8, 32])
    ssg = d.chance(30)
    st = {"kind": "int" if ssg else "bit", "w": ws, "signed": ssg}
    slo, shi = sem.type_range(st)
    s0 = d.choice(vs) if (d.chance(40) and slo <= vs[0] <= shi) else d.randint(slo, shi)
    if not (slo <= s0 <= shi):
        s0 = d.randint(slo, shi)
    n0 = d.randint(0, n)
    fields = [dict(st, name="s0", rand=True, init=0),
              {"name": "n0", "kind": "bit", "w": 4, "signed": False, "rand": False, "init": n0}]
    l = {"name": "l", "elem": et, "mode": "fixed", "size": n, "init": [0] * n}
    lists = [l]
    mlist = None
    if d.chance(30):
        # a non-random list of the same element type: constants that foreach bodies compare with by index
        mlist = {"name": "m", "elem": et, "mode": "nonrand", "size": n, "init": [d.randint(lo, hi) if d.chance(50) else vs[i] for i in range(n)]}
        lists.append(mlist)
    types = {"s0": fields[0], "n0": fields[1], "l[]": et}
    env = {"s0": s0, "n0": n0, "#l": n}
    for i, v in enumerate(vs):
        env["l[%d]" % i] = v
    if mlist:
        types["m[]"] = et
        env["#m"] = n
        for i, v in enumerate(mlist["init"]):
            env["m[%d]" % i] = v
    c = sem.Ctx(types, env)
    it = ["it", "it"]
    eli = el("l", ["iv", "i"])
    CM = ["==", "!=", "<", "<=", ">", ">="]

    def sized(e):
        bits, w_ = sem.ev(e, c)
        sg_ = sem.signed(e, c)
        return ["slit", sem.to_signed(bits, w_), w_] if sg_ else ["ulit", bits, w_]

    def first_op(make, ops=CM):
        """the statement make(op) for the first op, in a drawn order, with which it holds at the hidden solution"""
        ops = d.sample(ops, len(ops))
        for op in ops:
            s_ = make(op)
            try:
                if sem.holds(s_, c):
                    return s_
            except KeyError:
                pass
        return make(ops[0])

    def cand():
        r = d.randint(0, 99)
        if r < 14:
            k = d.choice([min(vs), max(vs), d.choice(vs), d.choice(vs) + d.randint(-2, 2)])
            k = max(lo, min(hi, k))
            kl = _lit_for(d, k, et)
            return first_op(lambda op: ["foreach", "l", None, "it", [["expr", ["bin", op, it, kl]]]])
        if r < 26:
            return first_op(lambda op: ["foreach", "l", "i", None, [["if", [[["bin", ">", ["iv", "i"], L(0)],
                                                                              [["expr", ["bin", op, eli, el("l", ["bin", "-", ["iv", "i"], L(1)])]]]]], None]]])
        if r < 34:
            k = d.randint(-2, 3)
            rhs = ["iv", "i"] if k == 0 else ["bin", "+", ["iv", "i"], L(k)] if k > 0 else ["bin", "-", ["iv", "i"], L(-k)]
            return first_op(lambda op: ["foreach", "l", "i", None, [["expr", ["bin", op, eli, rhs]]]])
        if r < 52:
            e = ["sum", "l"]
            if d.chance(30):
                e = ["bin", d.choice(["+", "-"]), e, ["f", d.choice(["s0", "n0"])]]
            k = d.randint(0, 99)
            if k < 45:
                return ["expr", ["bin", d.choice(["==", "<=", ">="]), e, sized(e)]]
            if k < 60:
                return first_op(lambda op: ["expr", ["bin", op, e, ["f", "s0"]]])
            if k < 80:
                tot = sum(vs) + d.randint(-3, 3)
                rhs = L(tot) if _fits_lit(tot) else sized(e)
                return first_op(lambda op: ["expr", ["bin", op, e, rhs]])
            rhs = ["ulit", d.randint(0, (1 << min(w, 16)) - 1), d.choice([w, w + 1, w + 2, w + 4])]
            return first_op(lambda op: ["expr", ["bin", op, e, rhs]], ["<", "<=", ">", ">=", "!="])
        if r < 60:
            return ["uniql", "l"]
        if r < 68:
            return ["expr", ["inl", ["f", "s0"], "l"]]
        if r < 80:
            a, b = d.randint(0, n - 1), d.randint(0, n - 1)
            e = ["bin", d.choice(["+", "-", "^", "&", "|"]), el("l", L(a)), el("l", L(b))]
            if d.chance(50):
                return ["expr", ["bin", d.choice(["==", "<=", ">=", "!="]), e, sized(e)]]
            return first_op(lambda op: ["expr", ["bin", op, el("l", L(a)), el("l", L(b))]])
        if r < 88:
            hi_ = d.randint(0, w - 1)
            lo_ = d.randint(max(0, hi_ - 7), hi_)
            k = d.choice([(v & sem.mask(w)) >> lo_ & sem.mask(hi_ - lo_ + 1) for v in vs])
            return first_op(lambda op: ["foreach", "l", "i", None, [["expr", ["bin", op, ["pse", eli, hi_, lo_], L(k)]]]], ["==", "!=", "<=", ">="])
        if r < 94 and mlist:
            return first_op(lambda op: ["foreach", "l", "i", None, [["expr", ["bin", op, eli, el("m", ["iv", "i"])]]]])
        # if/else on the index against the constant n0 (folded before solving)
        k1 = _lit_for(d, d.choice(vs), et)
        k2 = _lit_for(d, d.choice(vs), et)
        cop = d.choice(["<", "<=", ">", "=="])
        has_else = d.chance(70)
        op2 = d.choice(CM)
        return first_op(lambda op: ["foreach", "l", "i", None, [["if", [[["bin", cop, ["iv", "i"], ["f", "n0"]],
                                                                           [["expr", ["bin", op, eli, k1]]]]],
                                                                   [["expr", ["bin", op2, eli, k2]]] if has_else else None]]])

    stmts = []
    tries = 0
    want = d.randint(1, 4)
    while len(stmts) < want and tries < 24:
        tries += 1
        s_ = cand()
        try:
            ok = sem.holds(s_, c)
        except KeyError:
            ok = False
        if ok:
            stmts.append(s_)
    if not stmts:
        stmts.append(["foreach", "l", None, "it", [["expr", ["bin", "<=", it, _lit_for(d, max(vs), et)]]]])
    cls = {"name": "T", "fields": fields, "lists": lists, "blocks": [{"name": "c0", "stmts": stmts}]}
    # perturbations of the hidden solution to pin: up to two the reference rejects (preferably ones that falsify
    # different statements) and one it still accepts
    perts = []
    nonm, memb, seen_bad = 0, 0, set()
    for _ in range(10):
        k = d.randint(0, 5)
        if k == 0:
            p_ = ["flip", d.randint(0, n - 1), d.randint(0, w - 1)]
        elif k == 1:
            p_ = ["bound", d.randint(0, n - 1), d.randint(0, 1)]
        elif k == 2:
            p_ = ["swap", d.randint(0, n - 1), d.randint(0, n - 1)]
        elif k == 3:
            p_ = ["copy", d.randint(0, n - 1), d.randint(0, n - 1)]
        elif k == 4:
            p_ = ["add", d.randint(0, n - 1), d.randint(0, 1)]
        else:
            p_ = ["s0", d.randint(0, ws - 1)]
        ps0, pvs = apply_pert(p_, s0, vs, et, st)
        if ps0 == s0 and pvs == vs:
            continue
        env2 = dict(env, s0=ps0)
        for i, v in enumerate(pvs):
            env2["l[%d]" % i] = v
        bad = sem.first_false(stmts, types, env2)
        if bad is None:
            if memb < 1:
                memb += 1
                perts.append(p_)
        elif nonm < 2 and (bad not in seen_bad or d.chance(30)):
            nonm += 1
            seen_bad.add(bad)
            perts.append(p_)
        if nonm >= 2 and memb >= 1:
            break
    return {"biglist": True, "prog": {"enums": {}, "classes": [cls]}, "vstar": {"s0": s0, "l": vs},
            "calls": [d.seed() for _ in range(d.randint(1, 3))], "perts": perts, "pseed": d.seed()}


def big_text(case):
    cls = case["prog"]["classes"][0]
    return render.program_source(case["prog"]) + "# constants: %s\n# hidden solution: %s  probes: %s" % (
        cjson({l_["name"]: l_["init"] for l_ in cls["lists"] if l_["mode"] == "nonrand"} | {"n0": cls["fields"][1]["init"]}),
        cjson(case["vstar"]), cjson(case["perts"]))


def run_biglist(case):
    info = {"returned": 0, "len2": False, "probes": 0, "probe_member": 0, "probe_nonmember": 0}
    prog = case["prog"]
    cls = prog["classes"][0]
    stmts = cls["blocks"][0]["stmts"]
    lists = cls["lists"]
    l = lists[0]
    et = l["elem"]
    n = l["size"]
    vstar = case["vstar"]
    if len(vstar["l"]) != n or len(l["init"]) != n or not all(sem.well_formed(s) for s in stmts) or not stmts or \
            any(len(x["init"]) != x["size"] for x in lists):
        return [], info
    fields = cls["fields"]
    types = {f["name"]: f for f in fields}
    consts = {"n0": fields[1]["init"]}
    for x in lists:
        types[x["name"] + "[]"] = x["elem"]
    base_env = dict(consts)
    for x in lists:
        base_env["#" + x["name"]] = x["size"]
        if x["mode"] == "nonrand":
            for i, v in enumerate(x["init"]):
                base_env["%s[%d]" % (x["name"], i)] = v

    def env_of(s0, vs):
        env = dict(base_env, s0=s0)
        for i, v in enumerate(vs):
            env["l[%d]" % i] = v
        return env

    def Vb(kind, detail, extra):
        return {"property": PROPERTY, "kind": kind, "detail": detail, "case": case, "text": big_text(case) + "\n# " + extra}
    try:
        if not sem.all_hold(stmts, types, env_of(vstar["s0"], vstar["l"])):
            return [], info      # (left behind by structural reduction: the hidden solution no longer is one)
    except (KeyError, ValueError, IndexError):
        return [], info
    reset_library()
    try:
        ns = render.build(prog)
        obj = ns["T"]()
        obj.n0 = consts["n0"]
        for x in lists:
            if x["mode"] == "nonrand":
                lo_ = getattr(obj, x["name"])
                for i, v in enumerate(x["init"]):
                    lo_[i] = v
    except Exception as e:
        reset_library()
        return [Vb("library_exception", "construction: " + exc_sig(e), repr(e)[:300])], info

    def read():
        lo_ = obj.l
        itv = [int(x) for x in lo_]
        ix = [int(lo_[i]) for i in range(len(lo_))]
        return int(obj.s0), itv, ix, len(lo_), lo_.size

    for seed in case["calls"]:
        st, exc = flat.do_call(ns, obj, "randomize", None, seed)
        where = "randomize(seed=%d)" % seed
        if st == "exc":
            reset_library()
            return [Vb("library_exception", "randomize: " + exc.sig, where + " raised %r" % (exc,))], info
        if st == "sf":
            return [Vb("spurious_solve_failure", "randomize", where + " raised SolveFailure although the hidden assignment is a solution")], info
        info["returned"] += 1
        s0, itv, ix, ln, sz = read()
        if not (ln == sz == len(itv) == n):
            return [Vb("length_disagree" if ln != n else "fixed_size_changed", "len(), size and iteration disagree / fixed-size list changed length",
                       where + ": len=%d size=%d iterated=%d declared=%d" % (ln, sz, len(itv), n))], info
        if itv != ix:
            return [Vb("index_iter_disagree", "indexing and iteration disagree", where + ": %s vs %s" % (ix, itv))], info
        if any(not sem.in_type(v, et) for v in itv) or not sem.in_type(s0, types["s0"]):
            return [Vb("element_out_of_type", "l", where + ": s0=%d l=%s" % (s0, itv))], info
        for x in lists:
            if x["mode"] == "nonrand" and [int(v) for v in getattr(obj, x["name"])] != x["init"]:
                return [Vb("nonrandom_list_changed", "a non-random list changed", where)], info
        bad = sem.first_false(stmts, types, env_of(s0, itv))
        if bad is not None:
            return [Vb("list_constraint_violated", "a list constraint does not hold on the list the user sees",
                       where + " returned s0=%d l=%s; statement #%d is false over exactly these elements" % (s0, itv, bad))], info
        info["len2"] = True

    # pinned probes
    st_t = types["s0"]
    probes = [("hidden solution", vstar["s0"], list(vstar["l"]))]
    for p in case["perts"]:
        r_ = apply_pert(p, vstar["s0"], vstar["l"], et, st_t) if isinstance(p, list) and p else None
        if r_ is not None:
            probes.append((cjson(p), r_[0], r_[1]))
    for label, s0, vs in probes:
        exp = sem.all_hold(stmts, types, env_of(s0, vs))
        pins = [["expr", ["bin", "==", ["f", "s0"], flat.pin_literal(st_t, s0)]]]
        for i, v in enumerate(vs):
            pins.append(["expr", ["bin", "==", el("l", L(i)), flat.pin_literal(et, v)]])
        st, exc = flat.do_call(ns, obj, "randomize_with", pins, case["pseed"])
        info["probes"] += 1
        info["probe_member" if exp else "probe_nonmember"] += 1
        desc = "pin s0=%d l=%s (%s)" % (s0, vs, label)
        if st == "exc":
            reset_library()
            return [Vb("library_exception", "pinned probe: " + exc.sig, desc + " raised %r" % (exc,))], info
        if st == "ret":
            g0, itv, ix, ln, sz = read()
            if not exp:
                return [Vb("list_constraint_violated", "a pinned assignment that violates a list constraint was returned",
                           desc + ": statement #%s is false there" % sem.first_false(stmts, types, env_of(s0, vs)))], info
            if g0 != s0 or itv != vs:
                return [Vb("list_constraint_violated", "pinned values are not the values read back", desc + " read back s0=%d l=%s" % (g0, itv))], info
        elif exp:
            return [Vb("spurious_solve_failure", "pinned member", desc + " raised SolveFailure although every statement holds there")], info
    return [], info


def couples(case):
    for s in case["prog"]["classes"][0]["blocks"][0]["stmts"]:
        t = cjson(s)
        if '"sum"' in t or '"prod"' in t or '"uniql"' in t or '"uvec"' in t or ('"el"' in t and '"-"' in t) or ('"sz"' in t and '"f"' in t):
            return True
        if s[0] == "foreach" and any(b[0] == "foreach" for b in s[4]):
            return True
    return False


def body(case, acc):
    vios, info = run_case(case)
    if case.get("objlist"):
        acc.case(case, info.get("returned", 0) > 0 and info.get("len2", False) and info.get("edits", 0) > 0, sample=objlist_source(case))
        acc.label("family:lists of objects")
        acc.label("list:objects:" + case["ctor"])
        for o_ in case["ops"]:
            acc.label("op(obj):" + o_[0])
        return vios
    if case.get("biglist"):
        acc.case(case, info.get("returned", 0) > 0 and info.get("probes", 0) > 1 and couples(case), sample=big_text(case))
        acc.label("family:big lists (3-10 elements of 4-32 bits, solution-first)")
        l_ = case["prog"]["classes"][0]["lists"][0]
        acc.label("big:size:%d" % l_["size"])
        acc.label("big:width:%d%s" % (l_["elem"]["w"], "s" if l_["elem"]["signed"] else "u"))
        acc.label("big:probe:member", info.get("probe_member", 0))
        acc.label("big:probe:non-member", info.get("probe_nonmember", 0))
        for s_ in case["prog"]["classes"][0]["blocks"][0]["stmts"]:
            acc.label("big:stmt:" + (s_[0] if s_[0] != "expr" else ("sum" if '"sum"' in cjson(s_) else "inl" if s_[1][0] == "inl" else "subscripts")))
        return vios
    nt = info.get("returned", 0) > 0 and info.get("len2") and couples(case)
    acc.case(case, bool(nt), sample=text_of(case))
    cls = case["prog"]["classes"][0]
    for l in cls["lists"]:
        acc.label("list:" + l["mode"])
        acc.label("elements:%d-bit" % l["elem"]["w"])
    for s in cls["blocks"][0]["stmts"]:
        acc.label("stmt:" + s[0] + (":" + ("idx+it" if s[2] and s[3] else "idx" if s[2] else "it") if s[0] == "foreach" else ""))
    for op in case["ops"]:
        acc.label("op:" + op[0])
    for f in shape_of(case):
        acc.label("shape: " + f)
    return vios


def shards(tier):
    return [{"i": i, "n": 90 if tier == "quick" else 2500} for i in range(15)] + \
        [{"kind": "objlist", "i": 0, "n": 250 if tier == "quick" else 6000}] + \
        [{"kind": "biglist", "i": i, "n": 120 if tier == "quick" else 3000} for i in range(4 if tier == "quick" else 8)]


def run_shard(spec, seed, tier, acc):
    strat = {"objlist": objlist_cases, "biglist": biglist_cases}.get(spec.get("kind"), cases)()
    hyp.drive(strat, body, seed, spec["n"], acc)


def replay(case):
    return run_case(case)[0]
