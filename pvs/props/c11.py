"""C11 - cross bins count joint hits of their coverpoints."""
from ..core import hyp
from ..core.util import exc_sig, reset_library, cjson
from ..model import cov

PROPERTY = "C11"
LEVEL = "exploration"
RULE = ("cases = generated covergroups with 2-3 coverpoints (bit_t 2..4 bits) whose bins are pairwise disjoint by "
        "construction (single bins, bin arrays with and without a count in any position and over several ranges/values, "
        "ignore bins beside and inside a bin's range, auto-bins, wildcard bins, gaps that miss every bin), one cross over 2..3 of them, iff conditions (field or callable) on coverpoints and on the cross; sample "
        "sequences of generated values with the gates toggling.  Oracle: cross bins = row-major product of the coverpoints' "
        "flat bins, named <n1,n2[,n3]> after the coverpoints' own bin names; per sample exactly the combination's bin is "
        "incremented iff every gate holds and every coverpoint hit, otherwise nothing changes.  non-trivial = the sequence "
        "contains a miss->hit and a gated->hit transition and some coverpoint has an array bin that is not in first "
        "position; distinct = distinct canonical covergroup+sequence")
ASSUMPTIONS = [
    "coverpoints of a cross have pairwise disjoint bins (with overlapping bins a sample hits several and 'the' bin is undefined)",
    "cross bin names are compared with the product of the coverpoints' own bin names as returned by the library",
]


def gen_cp(d, idx, w):
    hi = (1 << w) - 1
    cp = {"name": "cp%d" % idx, "target": "p%d" % idx}
    if d.chance(20):
        cp["bins"] = None
        cp["options"] = {"auto_bin_max": d.choice([64, 2, 3, 4])}
        return cp
    if d.chance(30):
        # binary-prefix blocks, so that some bins can be wildcard bins (still pairwise disjoint)
        blocks = [""]
        for _ in range(d.randint(1, 2)):
            i = d.randint(0, len(blocks) - 1)
            b = blocks.pop(i)
            if len(b) < w:
                blocks[i:i] = [b + "0", b + "1"]
            else:
                blocks.insert(i, b)
        blocks = d.sample(blocks, len(blocks))
        bins = []
        for i, b in enumerate(blocks):
            lo_ = int(b + "0" * (w - len(b)), 2) if w > len(b) else int(b, 2)
            hi_ = int(b + "1" * (w - len(b)), 2) if w > len(b) else int(b, 2)
            r = d.randint(0, 99)
            if r < 15:
                continue
            if r < 60:
                pat = "0b" + b + d.choice(["x", "?", "X"]) * (w - len(b))
                bins.append({"name": "w%d" % i, "kind": "wild", "pats": [pat] if d.chance(70) else [{"vm": [lo_, ((1 << len(b)) - 1) << (w - len(b))]}]})
            elif r < 80 or lo_ == hi_:
                bins.append({"name": "s%d" % i, "kind": "bin", "items": [[lo_, hi_]] if lo_ != hi_ else [lo_]})
            else:
                bins.append({"name": "a%d" % i, "kind": "arr", "n": None, "items": [[lo_, hi_]]})
        if not bins:
            bins.append({"name": "w0", "kind": "wild", "pats": ["0b" + "x" * w]})
        cp["bins"] = bins
        return cp
    # cut the value range into consecutive segments
    cuts = sorted(set(d.sample(list(range(1, hi + 1)), d.randint(1, min(5, hi)))))
    segs = []
    lo = 0
    for c in cuts + [hi + 1]:
        segs.append((lo, c - 1))
        lo = c
    order = d.sample(segs, len(segs))      # declaration order need not be ascending
    item = lambda a, b: [a, b] if a != b else a
    bins = []
    ignore = []
    i = 0
    while i < len(order):
        a, b = order[i]
        r = d.randint(0, 99)
        if r < 15:
            i += 1
            continue                        # gap: values that miss every bin
        if r < 25:
            ignore.append({"name": "ig%d" % i, "items": [item(a, b)]})
            i += 1
            continue
        if r < 50 or (a == b and r < 60):
            bins.append({"name": "s%d" % i, "kind": "bin", "items": [item(a, b)]})
            i += 1
        elif r < 85:
            # a bin array (no count: one bin per value) over ONE OR SEVERAL segments: ranges and single values mixed,
            # so that the coverpoint's flat bin index is not the member's position
            k = d.randint(1, min(3, len(order) - i))
            items = [item(*order[i + j]) for j in range(k)]
            bins.append({"name": "a%d" % i, "kind": "arr", "n": None, "items": items})
            i += k
        else:
            k = d.randint(1, min(2, len(order) - i))
            items = [item(*order[i + j]) for j in range(k)]
            bins.append({"name": "n%d" % i, "kind": "arr", "n": d.randint(1, 3), "nstyle": d.choice(["list", "int"]),
                         "items": items})
            i += k
    if not bins:
        bins.append({"name": "s0", "kind": "bin", "items": [[0, hi]]})
    if ignore and d.chance(70):
        cp["ignore"] = ignore
    elif d.chance(15):
        # an ignore bin INSIDE a bin array's range splits it
        arrs = [b for b in bins if b["kind"] == "arr" and isinstance(b["items"][0], list) and b["items"][0][1] - b["items"][0][0] >= 2]
        if arrs:
            a0, b0 = arrs[0]["items"][0]
            cp["ignore"] = [{"name": "igm", "items": [d.randint(a0 + 1, b0 - 1)]}]
    cp["bins"] = bins
    return cp


@hyp.composite
def cases(d):
    ncp = d.randint(2, 3)
    params, cps = [], []
    for i in range(ncp):
        w = d.randint(2, 4)
        params.append({"name": "p%d" % i, "type": {"kind": "bit", "w": w}})
        cp = gen_cp(d, i, w)
        if d.chance(35):
            cp["iff"] = gen_iff(d, "e%d" % i)
        cps.append(cp)
    gates = [gate_name(c["iff"]) for c in cps if c.get("iff")]
    xcps = d.sample(list(range(ncp)), d.randint(2, ncp))
    if d.chance(70):
        xcps = sorted(xcps)
    x = {"name": "x0", "cps": ["cp%d" % i for i in xcps]}
    if d.chance(40):
        x["iff"] = gen_iff(d, "ex")
        gates.append("ex")
    for g in gates:
        params.append({"name": g, "type": {"kind": "bit", "w": 1}})
    samples = []
    for _ in range(d.randint(4, 24)):
        s = []
        for p in params:
            if p["name"].startswith("p"):
                s.append(d.randint(0, (1 << p["type"]["w"]) - 1))
            else:
                s.append(1 if d.chance(70) else 0)
        samples.append(s)
    cg = {"name": "CG", "params": params, "cps": cps, "crosses": [x]}
    return {"cg": cg, "samples": samples}


def text_of(case):
    return cov.cg_source(case["cg"]) + "# samples %s: %s" % ([p["name"] for p in case["cg"]["params"]], cjson(case["samples"]))


def V(kind, detail, case, extra=None):
    v = {"property": PROPERTY, "kind": kind, "detail": detail, "case": case, "text": text_of(case)}
    if extra:
        v["text"] += "\n# " + extra
    return v


def gen_iff(d, name):
    """a sampling condition on the 1-bit parameter `name`: the field itself, a callable, or a compound expression (~, |, &,
    inside, not_inside) that holds exactly when the parameter is 1"""
    k = d.randint(0, 99)
    if k < 35:
        return {"field": name}
    if k < 65:
        return {"callable": name}
    return {"expr": d.choice(sorted(cov.IFF_EXPR)), "of": name}


def gate_name(iff):
    return iff["of"] if "expr" in iff else iff[list(iff)[0]]


def gate_of(item, env):
    iff = item.get("iff")
    if not iff:
        return 1
    return 1 if env[gate_name(iff)] else 0


def run_case(case):
    cg = case["cg"]
    pnames = [p["name"] for p in cg["params"]]
    ptypes = {p["name"]: p["type"] for p in cg["params"]}
    reset_library()
    try:
        ns = cov.build([cg])
        o = ns["CG"]()
        xm = cov.cross_model(o, "x0")
        cpm = {c["name"]: cov.cp_model(o, c["name"]) for c in cg["cps"]}
    except Exception as e:
        reset_library()
        return [V("library_exception", "construction: " + exc_sig(e), case, repr(e)[:200])], {}
    x = cg["crosses"][0]
    refs = {}
    for c in cg["cps"]:
        tv = cov.type_values(ptypes[c["target"]])
        abm = (c.get("options") or {}).get("auto_bin_max", 64)
        refs[c["name"]] = cov.ref_bins(c, tv, abm)[0]
    dims = [len(refs[n]) for n in x["cps"]]
    total = 1
    for k in dims:
        total *= k
    info = {"nbins": total}
    if xm.get_n_bins() != total:
        return [V("bin_count", "cross bin count is not the product of the coverpoints' bin counts", case,
                  "library %d, reference %s" % (xm.get_n_bins(), dims))], info
    # names / order: row-major product of the coverpoints' own bin names
    cpn = [cov.names(cpm[n]) for n in x["cps"]]
    for n_, names_ in zip(x["cps"], cpn):
        # a name shared by two bins of one coverpoint identifies neither of them - nor the cross bins built from them
        dup = sorted(set(v_ for v_ in names_ if names_.count(v_) > 1))
        if dup:
            return [V("bin_name", "two bins of one coverpoint (and the cross bins over them) share a name", case,
                      "coverpoint %s: bin names %s" % (n_, names_))], info
    for i in range(total):
        rem, idx = i, []
        for k in reversed(dims):
            idx.insert(0, rem % k)
            rem //= k
        exp = "<" + ",".join(cpn[j][idx[j]] for j in range(len(dims))) + ">"
        got = xm.get_bin_name(i)
        if got != exp:
            return [V("bin_name", "cross bin name/order", case, "bin %d named %r, expected %r" % (i, got, exp))], info
    trans = {"miss_hit": 0, "gated_hit": 0}
    prev = None
    for s in case["samples"]:
        env = dict(zip(pnames, s))
        before = [xm.get_bin_hits(i) for i in range(total)]
        try:
            o.sample(*s)
        except Exception as e:
            reset_library()
            return [V("library_exception", "sample: " + exc_sig(e), case, "sample%r raised %r" % (tuple(s), e))], info
        after = [xm.get_bin_hits(i) for i in range(total)]
        gate = gate_of(x, env)
        idx = []
        state = "hit"
        if not gate:
            state = "gated"
        for n in x["cps"]:
            c = [cc for cc in cg["cps"] if cc["name"] == n][0]
            if not gate_of(c, env):
                state = "gated"
            v = env[c["target"]]
            hit = [k for k, vs in enumerate(refs[n]) if v in vs]
            if not hit:
                if state == "hit":
                    state = "miss"
                idx.append(None)
            else:
                idx.append(hit[0])
        exp = [0] * total
        if state == "hit":
            flat = 0
            for j, k in enumerate(dims):
                flat = flat * k + idx[j]
            exp[flat] = 1
        got = [a - b for a, b in zip(after, before)]
        if got != exp:
            return [V("count_mismatch", "cross increments (%s sample after %s)" % (state, prev), case,
                      "sample %s: increments %s, reference %s" % (cjson(env), got, exp))], info
        if state == "hit" and prev == "miss":
            trans["miss_hit"] += 1
        if state == "hit" and prev == "gated":
            trans["gated_hit"] += 1
        prev = state
    info.update(trans)
    return [], info


def body(case, acc):
    vios, info = run_case(case)
    cg = case["cg"]
    arr_not_first = any(any(b["kind"] == "arr" and i > 0 for i, b in enumerate(c.get("bins") or [])) for c in cg["cps"])
    nt = info.get("miss_hit", 0) > 0 and info.get("gated_hit", 0) > 0 and arr_not_first
    acc.case(case, nt, sample=text_of(case))
    acc.label("samples", len(case["samples"]))
    acc.label("cross of %d" % len(cg["crosses"][0]["cps"]))
    if cg["crosses"][0].get("iff"):
        acc.label("cross iff")
    if any(c.get("iff") for c in cg["cps"]):
        acc.label("coverpoint iff")
    if arr_not_first:
        acc.label("array bin not first")
    if any(b["kind"] == "wild" for c in cg["cps"] for b in (c.get("bins") or [])):
        acc.label("wildcard bin in a crossed coverpoint")
    if info.get("miss_hit"):
        acc.label("has miss->hit")
    if info.get("gated_hit"):
        acc.label("has gated->hit")
    return vios


def shards(tier):
    per = 250 if tier == "quick" else 8000
    return [{"i": i, "n": per} for i in range(16)]


def run_shard(spec, seed, tier, acc):
    hyp.drive(cases(), body, seed, spec["n"], acc)


def replay(case):
    return run_case(case)[0]
