"""C15 - dist and weighted selection follow their weights; zero weight means never."""
import math
import random

from ..core import hyp, stats
from ..core.util import reset_library, cjson, exc_sig, import_vsc
from ..model import sem, gen, flat, render
from . import solve_engine as E

PROPERTY = "C15"
LEVEL = "exploration"
RULE = ("four generated case families (the fourth: a dist inside foreach whose weights are non-random lists indexed by the loop "
        "variable, judged per element like freq): (hard) small-domain programs with a dist statement (values, ranges, zero weights, "
        "weights given by non-random fields) plus arbitrary accompanying constraints: every free draw and two-directional "
        "pinned probes against the enumerated reference, where dist = 'value in an entry with non-zero weight'; (freq) a "
        "field constrained only by a dist with disjoint entries and small integer weights (optionally linked to another "
        "constrained field by an always-true statement, so that their rand sets merge): N seeded draws, exact two-sided "
        "binomial test per entry (weight/total) and per value inside a range (uniform), zero-weight/unlisted values never; "
        "(select) distselect/randselect under a generated global random seed: same tests, randselect calls exactly the "
        "chosen callable once.  non-trivial = the weight list has a zero weight, a range entry and unequal weights (hard: "
        "and the program is satisfiable with a proper solution subset); distinct = distinct canonical case")
ASSUMPTIONS = [
    "frequencies are asserted only for a dist field that no other statement restricts (another statement may name it only inside an always-true disjunction that links it to a second rand set), with disjoint entries and positive total weight",
    "exact binomial tails; a frequency is rejected when its two-sided tail is below 1e-9/m with m = 2000 tests per run (alpha/m = 5e-13)",
    "one dist per field, at block top level; weights are literals or non-random fields (their current value counts)",
]

LOG_ALPHA = math.log(1e-9 / 2000.0)


# ------------------------------------------------------------------------------------------------
def gen_dist(d, f, nonrand, zero_ok=True, disjoint=False):
    dom = list(sem.domain(f))
    lo, hi = min(dom), max(dom)
    entries = []
    used = set()
    for _ in range(d.randint(1, 4)):
        if d.chance(50):
            v = d.randint(lo, hi)
            item, vals = ["lit", v], {v}
        else:
            a = d.randint(lo, hi)
            b = d.randint(a, min(hi, a + d.randint(0, 5)))
            item, vals = ["rng", ["lit", a], ["lit", b]], set(range(a, b + 1))
            st = d.choice(["rng", "list", "tuple"])
            if st != "rng":
                item.append(st)
        if disjoint == "carve" and (vals & used) and zero_ok:
            # an entry that overlaps an earlier one is given the literal weight 0: its values are carved out of the
            # weighted entries that contain them (overlapping entries with two positive weights stay ungenerated)
            entries.append([item, ["lit", 0]])
            continue
        if disjoint and (vals & used):
            continue
        used |= vals
        if nonrand and d.chance(25):
            wt = ["f", d.choice(nonrand)["name"]]
        else:
            wt = ["lit", d.choice([1, 2, 3, 5, 0]) if zero_ok else d.choice([1, 2, 3, 5])]
        entries.append([item, wt])
    if not entries:
        entries.append([["lit", lo], ["lit", 1]])
    # make the interesting class common: a zero weight next to unequal positive weights
    if zero_ok and len(entries) >= 2 and d.chance(40) and disjoint != "carve":
        entries[d.randint(0, len(entries) - 1)][1] = ["lit", 0]
        if all(e[1] == ["lit", 0] for e in entries):
            entries[0][1] = ["lit", 2]
    return ["dist", ["f", f["name"]], entries]


def total_weight(stmt, env):
    c = sem.Ctx({}, env)
    t = 0
    for item, wt in stmt[2]:
        t += env[wt[1]] if wt[0] == "f" else wt[1]
    return t


@hyp.composite
def hard_cases(d):
    case = d._draw(E.enum_cases(max_bits=9, nfields=3))
    prog = case["prog"]
    cls = flat.cls_of(prog)
    fs = cls["fields"]
    cand = [f for f in fs if f["rand"] and f["kind"] != "enum"]
    if not cand:
        fs[0].update({"kind": "bit", "w": 3, "signed": False, "rand": True, "init": 0})
        fs[0].pop("enum", None)
        fs[0].pop("dom", None)
        for b in cls["blocks"]:
            b["stmts"] = [["expr", ["bin", "!=", ["f", fs[0]["name"]], ["lit", 9]]]]
        case["inline"] = None
        cand = [fs[0]]
    tgt = d.choice(cand)
    nonrand = [f for f in fs if not f["rand"] and f["kind"] == "bit"]
    for f in nonrand:
        f["init"] = f["init"] % 4
    # overlapping entries with two different positive weights are ambiguous; a zero-weight entry inside a weighted range
    # is not: half of the programs may carve values out that way
    dist = gen_dist(d, tgt, nonrand, disjoint="carve" if d.chance(50) else True)
    env0 = {f["name"]: f["init"] for f in fs}
    if total_weight(dist, env0) <= 0:
        dist[2][0][1] = ["lit", 2]
    blk = d.choice(cls["blocks"])
    blk["stmts"].insert(d.randint(0, len(blk["stmts"])), dist)
    case["kind"] = "hard"
    return case


@hyp.composite
def freq_cases(d):
    w = d.choice([3, 4, 5])
    sg = d.chance(25)
    f = {"name": "f0", "kind": "int" if sg else "bit", "w": w, "signed": sg, "rand": True, "init": 0}
    fs = [f]
    nonrand = []
    if d.chance(40):
        n = {"name": "n0", "kind": "bit", "w": 3, "signed": False, "rand": False, "init": d.randint(0, 4)}
        fs.append(n)
        nonrand = [n]
    stmts = []
    if d.chance(40):
        g = {"name": "g0", "kind": "bit", "w": 3, "signed": False, "rand": True, "init": 0}
        fs.append(g)
        stmts.append(["expr", ["bin", "<", ["f", "g0"], ["lit", d.randint(1, 7)]]])   # unrelated constraint
    dist = gen_dist(d, f, nonrand, disjoint=True)
    env0 = {x["name"]: x["init"] for x in fs}
    if total_weight(dist, env0) <= 0:
        dist[2][0][1] = ["lit", 2]
    stmts.insert(d.randint(0, len(stmts)), dist)
    if len(stmts) == 2 and d.chance(65):
        # a statement that is always true but names both the dist field and the other field: the two rand sets meet and
        # merge (in either direction, depending on the operand order) without changing the solution set
        t1 = ["bin", "<=", ["f", "g0"], ["lit", 7]]
        t2 = ["bin", "==", ["f", "f0"], ["lit", d.randint(0, 3)]]
        stmts.append(["expr", ["bin", "|", t1, t2] if d.chance(50) else ["bin", "|", t2, t1]])
    prog = {"enums": {}, "classes": [{"name": "T", "fields": fs, "blocks": [{"name": "c0", "stmts": stmts}]}]}
    return {"kind": "freq", "prog": prog, "seed": d.seed(), "calls": d.choice(["randomize", "randomize_with"])}


@hyp.composite
def select_cases(d):
    n = d.randint(1, 6)
    ws = [d.choice([0, 1, 1, 2, 3, 5, 10]) for _ in range(n)]
    if sum(ws) == 0:
        ws[d.randint(0, n - 1)] = 1
    return {"kind": "select", "weights": ws, "seed": d.seed(), "fn": d.choice(["distselect", "randselect"])}


# ------------------------------------------------------------------------------------------------
def V(kind, detail, case, text, extra=None):
    v = {"property": PROPERTY, "kind": kind, "detail": detail, "case": case, "text": text}
    if extra:
        v["text"] += "\n# " + extra
    return v


def freq_test(counts, probs, n, label, case, text):
    """counts/probs: dict key -> observed / expected probability"""
    for k, p in probs.items():
        obs = counts.get(k, 0)
        if stats.rejects(obs, n, p, LOG_ALPHA):
            return V("frequency", label, case, text,
                     "%s: %s observed %d of %d draws (%.4f), expected probability %.4f, exact two-sided tail e^%.1f"
                     % (label, k, obs, n, obs / float(n), p, stats.two_sided_log_p(obs, n, p)))
    return None


def run_freq(case, n_draws):
    prog = case["prog"]
    cls = flat.cls_of(prog)
    fields = cls["fields"]
    text = render.program_source(prog) + "# %d seeded draws via %s, seed %d" % (n_draws, case["calls"], case["seed"])
    dist = [s for s in cls["blocks"][0]["stmts"] if s[0] == "dist"][0]
    env0 = {f["name"]: f["init"] for f in fields}
    entries = []
    for item, wt in dist[2]:
        w = env0[wt[1]] if wt[0] == "f" else wt[1]
        vals = list(range(item[1][1], item[2][1] + 1)) if item[0] == "rng" else [item[1]]
        entries.append((vals, w))
    tot = sum(w for _, w in entries)
    allowed = set(v for vals, w in entries if w > 0 for v in vals)
    reset_library()
    try:
        ns = flat.build(prog)
        obj = flat.instantiate(ns, prog)
        obj.set_randstate(flat.mk_randstate(case["seed"]))
    except Exception as e:
        reset_library()
        return [V("library_exception", "construction: " + exc_sig(e), case, text, repr(e))], {}
    counts = {}
    for i in range(n_draws):
        try:
            if case["calls"] == "randomize":
                obj.randomize()
            else:
                with obj.randomize_with():
                    pass
        except Exception as e:
            ei = flat.defuse(e)
            flat.scrub(obj)
            reset_library()
            return [V("library_exception", "draw: " + ei.sig, case, text, "draw %d raised %r" % (i, ei))], {}
        v = int(obj.f0)
        counts[v] = counts.get(v, 0) + 1
        if v not in allowed:
            return [V("forbidden_value", "a zero-weight or unlisted value was produced", case, text,
                      "draw %d produced f0=%d; allowed %s" % (i, v, sorted(allowed)))], {}
    # per entry
    ecount, eprob = {}, {}
    for j, (vals, w) in enumerate(entries):
        if w > 0:
            ecount["entry#%d%s" % (j, vals if len(vals) < 4 else [vals[0], "..", vals[-1]])] = sum(counts.get(v, 0) for v in vals)
            eprob["entry#%d%s" % (j, vals if len(vals) < 4 else [vals[0], "..", vals[-1]])] = w / float(tot)
    v = freq_test(ecount, eprob, n_draws, "entry frequency", case, text)
    if v:
        return [v], {}
    # uniform inside ranges
    for j, (vals, w) in enumerate(entries):
        if w > 0 and len(vals) > 1:
            pc = {"value %d" % x: counts.get(x, 0) for x in vals}
            pp = {"value %d" % x: (w / float(tot)) / len(vals) for x in vals}
            v = freq_test(pc, pp, n_draws, "uniformity inside a range", case, text)
            if v:
                return [v], {}
    nt = any(w == 0 for _, w in entries) and any(len(vals) > 1 for vals, _ in entries) and len(set(w for _, w in entries if w > 0)) > 1
    return [], {"nontrivial": nt}


def run_select(case, n_draws):
    vsc = import_vsc()
    ws = case["weights"]
    text = "vsc.%s over weights %s, random.seed(%d), %d calls" % (case["fn"], ws, case["seed"], n_draws)
    random.seed(case["seed"])
    counts = {}
    tot = sum(ws)
    calls = []
    try:
        for i in range(n_draws):
            if case["fn"] == "distselect":
                k = vsc.distselect(list(ws))
            else:
                del calls[:]
                vsc.randselect([(w, (lambda j=j: calls.append(j))) for j, w in enumerate(ws)])
                if len(calls) != 1:
                    return [V("randselect_calls", "randselect did not call exactly one callable", case, text, "called %s" % calls)], {}
                k = calls[0]
            if not (isinstance(k, int) and 0 <= k < len(ws)):
                return [V("bad_index", "selection outside the list", case, text, repr(k))], {}
            if ws[k] == 0:
                return [V("forbidden_value", "a zero-weight entry was selected", case, text, "call %d selected index %d" % (i, k))], {}
            counts[k] = counts.get(k, 0) + 1
    except Exception as e:
        return [V("library_exception", case["fn"] + ": " + exc_sig(e), case, text, repr(e))], {}
    pc = {"index %d" % j: counts.get(j, 0) for j, w in enumerate(ws) if w > 0}
    pp = {"index %d" % j: w / float(tot) for j, w in enumerate(ws) if w > 0}
    v = freq_test(pc, pp, n_draws, "selection frequency", case, text)
    if v:
        return [v], {}
    return [], {"nontrivial": any(w == 0 for w in ws) and len(set(w for w in ws if w > 0)) > 1}




# ------------------------------------------------------------------------------------------------
# family: a dist inside foreach whose weights come from non-random lists indexed by the loop variable, so that every
# element has its own weights (zero for some elements)
FEDIST_SRC = """
@vsc.randobj
class T(object):
    def __init__(self, w1, w2, w3):
        self.l = vsc.rand_list_t(vsc.bit_t(3), sz=len(w1))
        self.w1 = vsc.list_t(vsc.bit_t(4), sz=len(w1))
        self.w2 = vsc.list_t(vsc.bit_t(4), sz=len(w1))
        self.w3 = vsc.list_t(vsc.bit_t(4), sz=len(w1))
        for i in range(len(w1)):
            self.w1[i] = w1[i]
            self.w2[i] = w2[i]
            self.w3[i] = w3[i]
    @vsc.constraint
    def c0(self):
        with vsc.foreach(self.l, idx=True) as i:
            vsc.dist(self.l[i], [vsc.weight(%(v1)d, self.w1[i]), vsc.weight(%(v2)d, self.w2[i]), vsc.weight(vsc.rng(%(lo)d, %(hi)d), self.w3[i])])
"""


@hyp.composite
def fedist_cases(d):
    n = d.randint(2, 3)
    v1, v2 = d.sample([0, 1, 2, 3], 2)
    lo = d.randint(4, 6)
    hi = d.randint(lo, 7)
    ws = []
    for _ in range(3):
        ws.append([d.choice([0, 1, 2, 3, 5, 0]) for _ in range(n)])
    for i in range(n):
        if ws[0][i] + ws[1][i] + ws[2][i] == 0:
            ws[d.randint(0, 2)][i] = d.randint(1, 3)
    return {"kind": "fedist", "v1": v1, "v2": v2, "lo": lo, "hi": hi, "w": ws, "seed": d.seed()}


def run_fedist(case, n_draws):
    import enum as _enum
    vsc = import_vsc()
    src = FEDIST_SRC % {"v1": case["v1"], "v2": case["v2"], "lo": case["lo"], "hi": case["hi"]}
    ws = case["w"]
    n = len(ws[0])
    text = src + "# T(w1=%s, w2=%s, w3=%s), seed %d, %d draws" % (ws[0], ws[1], ws[2], case["seed"], n_draws)
    reset_library()
    try:
        ns = {"vsc": vsc, "enum": _enum}
        exec(compile(src, "<pvs-c15-fedist>", "exec"), ns)
        obj = ns["T"](ws[0], ws[1], ws[2])
        obj.set_randstate(flat.mk_randstate(case["seed"]))
    except Exception as e:
        reset_library()
        return [V("library_exception", "construction: " + exc_sig(e), case, text, repr(e)[:300])], {}
    entries = []
    for i in range(n):
        entries.append([([case["v1"]], ws[0][i]), ([case["v2"]], ws[1][i]), (list(range(case["lo"], case["hi"] + 1)), ws[2][i])])
    counts = [dict() for _ in range(n)]
    for k in range(n_draws):
        try:
            obj.randomize()
        except Exception as e:
            ei = flat.defuse(e)
            flat.scrub(obj)
            reset_library()
            return [V("library_exception", "draw: " + ei.sig, case, text, "draw %d raised %r" % (k, ei))], {}
        for i in range(n):
            v = int(obj.l[i])
            counts[i][v] = counts[i].get(v, 0) + 1
            allowed = set(x for vals, w in entries[i] if w > 0 for x in vals)
            if v not in allowed:
                return [V("forbidden_value", "a zero-weight or unlisted value was produced for a list element", case, text,
                          "draw %d: l[%d]=%d; its weights allow %s" % (k, i, v, sorted(allowed)))], {}
    for i in range(n):
        tot = sum(w for _, w in entries[i])
        ecount = {"l[%d] entry#%d" % (i, j): sum(counts[i].get(x, 0) for x in vals) for j, (vals, w) in enumerate(entries[i]) if w > 0}
        eprob = {"l[%d] entry#%d" % (i, j): w / float(tot) for j, (vals, w) in enumerate(entries[i]) if w > 0}
        v = freq_test(ecount, eprob, n_draws, "entry frequency of a list element", case, text)
        if v:
            return [v], {}
    differ = len(set(tuple(w[i] for w in ws) for i in range(n))) > 1
    return [], {"nontrivial": differ and any(x == 0 for w in ws for x in w)}


KEEP = {"unsound_value", "pin_nonmember_returned", "spurious_solve_failure", "pin_member_rejected", "returned_on_unsat",
        "library_exception", "pin_readback"}


def run_hard(case):
    vios, info = E.run_case(case, None, ("C01", "C02"))
    out = []
    seen = set()
    for v in vios:
        if v["kind"] in KEEP and v["kind"] not in seen:
            seen.add(v["kind"])
            v = dict(v, property=PROPERTY, detail="dist program: " + v["detail"])
            out.append(v)
    cls = flat.cls_of(case["prog"])
    dist = [s for b in cls["blocks"] for s in b["stmts"] if s[0] == "dist"]
    nt = False
    if dist:
        ent = dist[0][2]
        nt = (any(wt == ["lit", 0] for _, wt in ent) and any(it[0] == "rng" for it, _ in ent)
              and 0 < info.get("nsol", 0) < info.get("space", 0) and info.get("returned", 0) > 0)
    info["nontrivial"] = nt
    return out, info


def run_case(case, tier="quick"):
    k = case["kind"]
    if k == "hard":
        return run_hard(case)
    n = 4000 if tier == "quick" else 20000
    if k == "freq":
        return run_freq(case, case.get("n", n))
    if k == "fedist":
        return run_fedist(case, case.get("n", n // 2))
    return run_select(case, case.get("n", n * 5))


def shards(tier):
    out = [{"kind": "hard", "i": i, "n": 150 if tier == "quick" else 5000} for i in range(8)]
    out += [{"kind": "freq", "i": i, "n": 3 if tier == "quick" else 12} for i in range(12 if tier == "quick" else 16)]
    out += [{"kind": "select", "i": i, "n": 20 if tier == "quick" else 100} for i in range(2)]
    out += [{"kind": "fedist", "i": i, "n": 3 if tier == "quick" else 12} for i in range(2 if tier == "quick" else 4)]
    return out


def run_shard(spec, seed, tier, acc):
    kind = spec["kind"]

    def body(case, acc):
        if kind == "fedist":
            case["n"] = 1500 if tier == "quick" else 8000
        elif kind != "hard":
            case["n"] = (4000 if tier == "quick" else 20000) * (5 if kind == "select" else 1)
        vios, info = run_case(case, tier)
        text = E.text_of(case) if kind == "hard" else (render.program_source(case["prog"]) if kind == "freq" else cjson(case))
        acc.case(case, bool(info.get("nontrivial")), sample=text)
        acc.label("family:" + kind)
        if kind != "hard":
            acc.label("draws", case["n"])
        return vios
    strat = {"hard": hard_cases, "freq": freq_cases, "select": select_cases, "fedist": fedist_cases}[kind]()
    hyp.drive(strat, body, seed, spec["n"], acc, shrink=(kind == "hard"))


def replay(case):
    return run_case(case)[0]
