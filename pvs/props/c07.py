"""C07 - enforced blocks = most-derived, enabled, of this very instance (constraint_mode)."""
import copy

from ..core import hyp
from ..core.util import reset_library, cjson, exc_sig, import_vsc
from ..model import sem, gen, flat, render
from .c06 import prefix_stmt

PROPERTY = "C07"
LEVEL = "exploration"
RULE = ("cases = a generated class hierarchy (base with 2-4 named constraint blocks over random fields a,b and a non-random "
        "k; 0-2 derived levels overriding subsets of the block names and adding blocks), a population of instances of the "
        "different levels (top-level, nested in a holder via rand_attr, elements of a holder's object list) and a history "
        "of constraint_mode(on/off) toggles on (instance, block) pairs interleaved with randomize calls and with creation "
        "of further instances; in ~45% of the cases the base class also has a random list q (2-bit elements) that blocks "
        "of every level constrain through foreach, and the history appends to q of single instances (also while blocks of "
        "that instance are off); the holder object has a block of its own that is named like a block of the objects it holds "
        "(c0) and is toggled too; a quarter of the blocks are bound by assignment (name = vsc.constraint(fn)) instead of the decorator.  Model: per instance {block name -> enabled}; enforced statements = the most-derived "
        "definition of every enabled name.  Oracle: the free draw lies in the enumerated S_ref(enforced) of that very "
        "instance (SolveFailure iff empty); pinned probe pairs per block B: an assignment violating only B is accepted iff "
        "B is off for that instance - run on the toggled instance and on every other one.  non-trivial = >=2 toggles on >=2 "
        "distinct instances of one class with an instance created after a toggle; distinct = distinct canonical case")
ASSUMPTIONS = [
    "constraint_mode is reached as obj.<block>.constraint_mode(bool) from procedural code, as documented",
    "every block references a field; blocks of nested/list instances are toggled through the instance object itself",
]

FIELDS = [
    {"name": "a", "kind": "bit", "w": 3, "signed": False, "rand": True, "init": 0},
    {"name": "b", "kind": "int", "w": 3, "signed": True, "rand": True, "init": 0},
    {"name": "k", "kind": "bit", "w": 2, "signed": False, "rand": False, "init": 1},
]

QELEM = {"kind": "bit", "w": 2, "signed": False}
QMAX = 3

HOLDER_SRC = '''
@vsc.randobj
class H(object):
    def __init__(self, n_cls, e_classes):
        self.t = vsc.rand_bit_t(3)
        self.n = vsc.rand_attr(n_cls())
        self.arr = vsc.rand_list_t(L0())
        for c in e_classes:
            self.arr.append(c())
    @vsc.constraint
    def c0(self):
        # (a block of the HOLDER that has the same name as a block of the objects it holds)
        self.t < 4
'''


@hyp.composite
def cases(d):
    g = gen.G(d, FIELDS, {}, mul_max_w=3)
    nblocks = d.randint(2, 4)
    names = ["c%d" % i for i in range(nblocks)]
    if d.chance(15):
        # a block name that merely begins like the library's private attributes (_int_field_info ...)
        names[d.randint(0, nblocks - 1)] = d.choice(["_interval_c", "_internal_c", "_c"])
    # every level accepts off=(): block names switched off at the END of the constructor (the SystemVerilog
    # "relax a constraint in new()" idiom); only the most-derived __init__ acts on it
    CTOR = {"ctor_params": ["off=()"], "init_extra": ["for _n in off: getattr(self, _n).constraint_mode(False)"]}
    classes = [dict({"name": "L0", "fields": copy.deepcopy(FIELDS),
                     "blocks": [{"name": n, "stmts": [g.field_stmt(0) for _ in range(d.randint(1, 2))]} for n in names]}, **CTOR)]
    for lvl in range(1, d.randint(1, 3)):
        over = d.sample(names, d.randint(1, len(names)))
        blocks = [{"name": n, "stmts": [g.field_stmt(0) for _ in range(d.randint(1, 2))]} for n in sorted(over)]
        if d.chance(40):
            blocks.append({"name": "x%d" % lvl, "stmts": [g.field_stmt(0)]})
        classes.append(dict({"name": "L%d" % lvl, "base": "L%d" % (lvl - 1), "fields": [], "blocks": blocks}, **CTOR))
    # some hierarchies carry a random list q whose elements the blocks constrain through foreach; the history then
    # also grows q (the per-call expansion of a foreach must follow the list even while its block is switched off)
    with_q = d.chance(45)
    if with_q:
        classes[0]["lists"] = [{"name": "q", "elem": dict(QELEM), "mode": "fixed", "size": d.randint(1, 2)}]
        for c in classes:
            for b in c["blocks"]:
                if d.chance(45):
                    rhs = ["lit", d.randint(0, 3)] if d.chance(60) else ["f", d.choice(["a", "k"])]
                    b["stmts"].append(["foreach", "q", "i", None,
                                       [["expr", ["bin", d.choice(["<", "<=", "!=", ">", ">=", "=="]), ["el", "q", ["iv", "i"], None], rhs]]]])
    if d.chance(35):
        # ordering directives in two blocks that contradict each other: legal as long as at most one of the two blocks is
        # enforced (a directive in a switched-off or overridden block takes no part in the call)
        bl = classes[0]["blocks"]
        bl[0]["stmts"].append(["order", ["a"], ["b"]])
        bl[1]["stmts"].append(["order", ["b"], ["a"]])
    # some blocks are bound by assignment (c0 = vsc.constraint(fn)): the function's name is not the block's name
    for c in classes:
        for b in c["blocks"]:
            if d.chance(25):
                b["bind"] = True
    nlev = len(classes)
    ops = []
    # population: instance = ["new", level, place] place: top | nested | elem
    ninst = 0
    def new_op():
        off = []
        if d.chance(30):
            off = [d.randint(0, 5) for _ in range(d.randint(1, 2))]
        return ["new", d.randint(0, nlev - 1), d.choice(["top", "top", "nested", "elem", "elem"]), d.randint(0, 3), off]
    ops.append(new_op())
    ninst = 1
    for _ in range(d.randint(3, 14)):
        r = d.randint(0, 99)
        if ninst < 5 and r < 22:
            ops.append(new_op())
            ninst += 1
        elif with_q and r < 32:
            ops.append(["qapp", d.randint(0, ninst - 1), d.randint(0, 3)])
        elif r < 37:
            ops.append(["hmode", d.randint(0, ninst - 1), d.randint(0, 1)])      # toggle block c0 of the instance's HOLDER
        elif r < 55:
            ops.append(["mode", d.randint(0, ninst - 1), d.randint(0, 5), d.randint(0, 1)])
        else:
            ops.append(["call", d.randint(0, ninst - 1), d.seed(), d.randint(0, 1 << 16)])
    ops.append(["call", d.randint(0, ninst - 1), d.seed(), d.randint(0, 1 << 16)])
    return {"classes": classes, "ops": ops}


def text_of(case):
    prog = {"enums": {}, "classes": case["classes"]}
    return render.program_source(prog) + HOLDER_SRC + "# ops:\n" + "\n".join("#   " + cjson(op) for op in case["ops"])


def V(kind, detail, case, extra=None):
    v = {"property": PROPERTY, "kind": kind, "detail": detail, "case": case, "text": text_of(case)}
    if extra:
        v["text"] += "\n# " + extra
    return v


def effective_blocks(classes, level):
    """name -> stmts of the most-derived definition visible at `level` (dict preserves declaration order)"""
    out = {}
    for c in classes[:level + 1]:
        for b in c["blocks"]:
            out[b["name"]] = b["stmts"]
    return out


class Inst:
    pass


def run_case(case):
    vsc = import_vsc()
    classes = case["classes"]
    prog = {"enums": {}, "classes": classes}
    qspec = (classes[0].get("lists") or [None])[0]
    if qspec is not None and (qspec.get("name") != "q" or qspec.get("mode") != "fixed" or qspec.get("elem") != QELEM
                              or not 1 <= qspec.get("size", 0) <= 2):
        return [], {"toggles": 0, "toggled_insts": set(), "created_after_toggle": False, "probes": 0}
    if not all(sem.well_formed(st_) for c in classes for b in c["blocks"] for st_ in b["stmts"]):
        return [], {"toggles": 0, "toggled_insts": set(), "created_after_toggle": False, "probes": 0}

    def space(it_):
        """-> (types, random fields, their names, constants) of one instance: a, b and the current elements of q"""
        types_ = {f["name"]: f for f in FIELDS}
        rf_ = [f for f in FIELDS if f["rand"]]
        env_ = {"a": 0, "b": 0, "k": it_.k}
        if qspec is not None:
            types_["q[]"] = QELEM
            env_["#q"] = it_.qn
            for j in range(it_.qn):
                f = dict(QELEM, name="q[%d]" % j, rand=True, init=0)
                types_[f["name"]] = f
                rf_.append(f)
        return types_, rf_, [f["name"] for f in rf_], env_

    def read(it_):
        got = [int(it_.obj.a), int(it_.obj.b)]
        if qspec is not None:
            got += [int(x) for x in it_.obj.q]
        return tuple(got)
    info = {"toggles": 0, "toggled_insts": set(), "created_after_toggle": False, "probes": 0}
    if any(not b["stmts"] for c in classes for b in c["blocks"]) or [f["name"] for f in classes[0]["fields"]] != ["a", "b", "k"]:
        return [], info
    reset_library()
    try:
        ns = flat.build(prog)
        exec(compile(HOLDER_SRC, "<pvs-c07-holder>", "exec"), ns)
    except Exception as e:
        reset_library()
        return [V("library_exception", "construction: " + exc_sig(e), case, repr(e))], info
    insts = []
    hstate = {}           # id(holder) -> its own block c0 is on (default True)
    holders = []          # (holder object, nested Inst or None, [elem Insts])
    pending = []          # nested/elem instances waiting for a holder: flushed at next op that needs them
    implicit = []

    def flush():
        nonlocal pending
        if not pending:
            return None
        nested = [p for p in pending if p.place == "nested"][:1]
        elems = [p for p in pending if p.place == "elem"]
        rest = [p for p in pending if p.place == "nested"][1:]
        for p in rest:      # only one nested slot per holder: the others become list elements
            p.place = "elem"
            elems.append(p)
        def factory(inst):
            return lambda: ns["L%d" % inst.level](off=inst.off)
        n_cls = factory(nested[0]) if nested else ns["L0"]
        h = ns["H"](n_cls, [factory(e) for e in elems])
        if not nested:
            # the holder's default nested object takes part in h.randomize() too: model it as an implicit instance
            imp = Inst()
            imp.level, imp.place, imp.k = 0, "nested", 0
            imp.qn = qspec["size"] if qspec else 0
            imp.blocks = effective_blocks(classes, 0)
            imp.enabled = {n: True for n in imp.blocks}
            imp.off = ()
            imp.preset = {}
            nested = [imp]
            pending.append(imp)
            implicit.append(imp)
        if nested:
            nested[0].obj = h.n
            nested[0].path = "n"
            nested[0].holder = h
        for i, e in enumerate(elems):
            e.obj = h.arr[i]
            e.path = "arr[%d]" % i
            e.holder = h
        for p in pending:
            p.obj.k = p.k
            for bn, en in p.preset.items():
                getattr(p.obj, bn).constraint_mode(en)
        holders.append((h, nested[0] if nested else None, elems))
        pending = []
        return None

    for step, op in enumerate(case["ops"]):
        where = "step %d %s" % (step, cjson(op))
        try:
            if op[0] == "new":
                it = Inst()
                it.level, it.place, it.k = op[1], op[2], op[3]
                it.qn = qspec["size"] if qspec else 0
                it.blocks = effective_blocks(classes, it.level)
                it.enabled = {n: True for n in it.blocks}
                bl = list(it.blocks)
                it.off = tuple(sorted(set(bl[j % len(bl)] for j in (op[4] if len(op) > 4 else []))))
                for bn in it.off:
                    it.enabled[bn] = False
                    info["ctor_toggles"] = info.get("ctor_toggles", 0) + 1
                it.preset = {}
                it.holder = None
                it.path = None
                if it.place == "top":
                    it.obj = ns["L%d" % it.level](off=it.off)
                    it.obj.k = it.k
                else:
                    it.obj = None
                    pending.append(it)
                insts.append(it)
                if info["toggles"] > 0:
                    info["created_after_toggle"] = True
                continue
            it = insts[op[1]]
            if it.obj is None:
                flush()
            if op[0] == "hmode":
                if it.holder is not None:
                    it.holder.c0.constraint_mode(bool(op[2]))
                    hstate[id(it.holder)] = bool(op[2])
                    info["holder_toggles"] = info.get("holder_toggles", 0) + 1
                continue
            if op[0] == "qapp":
                if qspec is not None and it.qn < QMAX:
                    it.obj.q.append(op[2] % 4)
                    it.qn += 1
                    info["qapps"] = info.get("qapps", 0) + 1
                    if not all(it.enabled.values()):
                        info["qapp_while_off"] = True
                continue
            if op[0] == "mode":
                bnames = list(it.blocks)
                bn = bnames[op[2] % len(bnames)]
                getattr(it.obj, bn).constraint_mode(bool(op[3]))
                it.enabled[bn] = bool(op[3])
                info["toggles"] += 1
                info["toggled_insts"].add(op[1])
                continue
            # ---- call on the instance (through its holder when nested / list element)
            seed, sel = op[2], op[3]
            group = [it]
            target = it.obj
            if it.holder is not None:
                target = it.holder
                for h, n, elems in holders:
                    if h is it.holder:
                        group = ([n] if n else []) + elems
                        # the holder's template element and the nested default object also take part; they are unconstrained here
            def cyclic(g_):
                """the enforced blocks of this instance order a before b AND b before a: a user error, such a call is not made"""
                ords = [tuple(map(tuple, s_[1:3])) for n_, ss_ in g_.blocks.items() if g_.enabled[n_] for s_ in ss_ if s_[0] == "order"]
                return (("a",), ("b",)) in ords and (("b",), ("a",)) in ords
            if any(cyclic(g_i) for g_i in group):
                info["cyclic_skipped"] = info.get("cyclic_skipped", 0) + 1
                continue
            if any(s_[0] == "order" for g_i in group for ss_ in g_i.blocks.values() for s_ in ss_):
                info["order_calls"] = info.get("order_calls", 0) + 1
            st, exc = flat.do_call(ns, target, "randomize", None, seed)
            if st == "exc":
                reset_library()
                return [V("library_exception", "randomize: " + exc.sig, case, where + " raised %r" % (exc,))], info
            sets = {}
            for g_i in group:
                enforced = [s for n, ss in g_i.blocks.items() if g_i.enabled[n] for s in ss]
                types_g, rf_g, _, env0 = space(g_i)
                sets[id(g_i)] = flat.enumerate_solutions(types_g, rf_g, env0, enforced)
            any_empty = any(not sets[id(g_i)][1] for g_i in group)
            if st == "sf":
                if not any_empty:
                    return [V("spurious_solve_failure", "randomize", case, where + ": every participating instance has solutions under its enabled blocks")], info
            else:
                if any_empty:
                    return [V("returned_on_unsat", "randomize", case, where)], info
                if it.holder is not None and hstate.get(id(it.holder), True) and int(it.holder.t) >= 4:
                    return [V("wrong_blocks_enforced", "the holder's own block c0 is on but not enforced", case, where + ": holder.t=%d" % int(it.holder.t))], info
                for g_i in group:
                    got = read(g_i)
                    if len(got) != 2 + g_i.qn:
                        return [V("list_length_changed", "q", case, where)], info
                    if int(g_i.obj.k) != g_i.k:
                        return [V("nonrandom_changed", "k", case, where)], info
                    if got not in set(sets[id(g_i)][1]):
                        en = {n: g_i.enabled[n] for n in g_i.blocks}
                        return [V("wrong_blocks_enforced", "result violates the enabled most-derived blocks of this instance", case,
                                  where + ": instance #%d (level %d, %s, k=%d, enabled %s) got a=%d b=%d q=%s"
                                  % ((insts + implicit).index(g_i), g_i.level, g_i.place, g_i.k, cjson(en), got[0], got[1], list(got[2:])))], info
            if it.holder is not None and not any_empty:   # (group is not cyclic: checked above)
                # the holder's own block c0 (t < 4): t == 6 is accepted iff that block is off, whatever the same-named
                # blocks of the objects it holds are set to
                st_h, exc_h = flat.do_call(ns, it.holder, "randomize_with", [["expr", ["bin", "==", ["f", "t"], ["lit", 6]]]], seed + 3)
                info["probes"] += 1
                if st_h == "exc":
                    reset_library()
                    return [V("library_exception", "holder probe: " + exc_h.sig, case, where + " raised %r" % (exc_h,))], info
                h_on = hstate.get(id(it.holder), True)
                if (st_h == "ret") == h_on:
                    return [V("block_mode_mismatch", "block c0 of the holder %s" % ("not enforced although on" if h_on else "enforced although switched off"),
                              case, where + ": holder block c0 is %s, pin t == 6 %s" % ("on" if h_on else "off", "returned" if st_h == "ret" else "raised SolveFailure"))], info
            # ---- pinned probe pairs, on this instance and on every other live top-level instance
            for o_i in [x for x in insts + implicit if x.obj is not None]:
                if qspec is not None and o_i.holder is not None and o_i.path.startswith("arr"):
                    # a pin would have to name h.arr[j].q[i]: subscripting a list reached through an object-list element is
                    # not supported in constraints (explicit NotImplementedError); these instances are judged by free draws
                    continue
                types, rf, names, env = space(o_i)
                allv, _ = flat.enumerate_solutions(types, rf, env, [])
                bnames = list(o_i.blocks)
                bn = bnames[sel % len(bnames)]
                c = sem.Ctx(types, env)
                wit = []
                for vals in allv:
                    env.update(zip(names, vals))
                    bad = [n for n in bnames if not all(sem.holds(s, c) for s in o_i.blocks[n])]
                    if bad == [bn]:
                        wit.append(vals)
                if not wit:
                    continue
                vals = wit[sel % len(wit)]
                # accepted iff every *other enabled* block holds (they do) and bn is off
                expect_ok = not o_i.enabled[bn]
                pre = "" if o_i.holder is None else o_i.path + "."
                pins = [prefix_stmt(s, pre) for s in flat.pin_stmts(prog, rf, dict(zip(names, vals)))]
                tgt = o_i.obj if o_i.holder is None else o_i.holder
                # (a call in which the enforced blocks of a participating instance order a and b both ways is a user error)
                members = [o_i] if o_i.holder is None else [g2 for h, n, elems in holders if h is o_i.holder for g2 in ([n] if n else []) + elems]
                if any(cyclic(g2) for g2 in members):
                    continue
                # other members of a holder must be satisfiable for the probe to be meaningful
                if o_i.holder is not None:
                    grp = [g2 for h, n, elems in holders if h is o_i.holder for g2 in ([n] if n else []) + elems if g2 is not o_i]
                    if any(not flat.enumerate_solutions(space(g2)[0], space(g2)[1], space(g2)[3],
                                                        [s for n2, ss in g2.blocks.items() if g2.enabled[n2] for s in ss])[1] for g2 in grp):
                        continue
                st2, exc2 = flat.do_call(ns, tgt, "randomize_with", pins, seed + 1)
                info["probes"] += 1
                if st2 == "exc":
                    reset_library()
                    return [V("library_exception", "probe: " + exc2.sig, case, where + " raised %r" % (exc2,))], info
                if (st2 == "ret") != expect_ok:
                    return [V("block_mode_mismatch", "block %s on an instance" % ("enforced although switched off" if expect_ok else "not enforced although on"),
                              case, where + ": instance #%d (level %d, %s): block %s is %s, assignment a=%d b=%d violates only that block, pin %s"
                              % ((insts + implicit).index(o_i), o_i.level, o_i.place, bn, "on" if o_i.enabled[bn] else "off", vals[0], vals[1],
                                 "returned" if st2 == "ret" else "raised SolveFailure"))], info
        except Exception as e:
            reset_library()
            return [V("library_exception", "%s: %s" % (op[0], exc_sig(e)), case, where + " raised %r" % (e,))], info
    return [], info


def body(case, acc):
    vios, info = run_case(case)
    nt = info["toggles"] >= 2 and len(info["toggled_insts"]) >= 2 and info["created_after_toggle"]
    acc.case(case, bool(nt), sample=text_of(case))
    acc.label("probes", info["probes"])
    acc.label("constructor-time toggles", info.get("ctor_toggles", 0))
    acc.label("calls on instances whose blocks hold solve_order directives", info.get("order_calls", 0))
    acc.label("calls not made: both contradicting solve_order blocks enforced", info.get("cyclic_skipped", 0))
    acc.label("levels:%d" % len(case["classes"]))
    if case["classes"][0].get("lists"):
        acc.label("blocks with foreach over a list")
    if info.get("qapp_while_off"):
        acc.label("list grown while a block of the instance is off")
    for op in case["ops"]:
        acc.label("op:" + op[0] + (":" + op[2] if op[0] == "new" else ""))
    return vios


def shards(tier):
    return [{"i": i, "n": 100 if tier == "quick" else 3500} for i in range(16)]


def run_shard(spec, seed, tier, acc):
    hyp.drive(cases(), body, seed, spec["n"], acc)


def replay(case):
    return run_case(case)[0]
