"""C06 - inline and dynamic constraints bind to exactly one call and to the right object."""
import copy

from ..core import hyp, findings
from ..core.util import reset_library, cjson, exc_sig, import_vsc
from ..model import sem, gen, flat, render

PROPERTY = "C06"
LEVEL = "exploration"
RULE = ("cases = a generated class (random fields a,b, a non-random field k whose value differs per instance, 1-2 class "
        "statements, two dynamic blocks d0/d1) and a history over a population of instances: create an instance (before or "
        "after the target), call randomize()/randomize_with(inline) on instance i where the inline set mixes plain "
        "constraints with Boolean combinations (| & ~) of dynamic-constraint references, consecutive calls with "
        "contradicting inline sets, calls on a holder object referencing a list element's dynamic block "
        "(it.arr[i].d0()), and 2-4 randomize() calls on a holder whose CLASS constraint is self.arr[self.sel].dN() with the "
        "non-random index sel reassigned between the calls; a sub-domain with dynamic blocks whose bodies are soft statements "
        "checks that the outcome of one given call (same seed) is the same on a fresh object and after a history of other calls.  Oracle per call: enumerated S_ref = class blocks AND this call's inline block with dynamic "
        "references expanded over the fields of the object they were reached through; free draw in S_ref, SolveFailure iff "
        "empty; pinned probes: a value the previous call's inline block forbade must be accepted again, a value the "
        "referenced dynamic block forbids on this instance must be rejected, an unreferenced dynamic block must not "
        "restrict.  non-trivial = >=2 live instances with different k, >=2 calls on one instance with different inline sets "
        "and a dynamic reference under | or ~; distinct = distinct canonical case")
ASSUMPTIONS = [
    "dynamic blocks are referenced from inline blocks (randomize_with), as documented, and from one class constraint of a holder (through a list element selected by a non-random index)",
    "every dynamic block and inline statement references a field",
]

FIELDS = [
    {"name": "a", "kind": "bit", "w": 3, "signed": False, "rand": True, "init": 0},
    {"name": "b", "kind": "bit", "w": 2, "signed": False, "rand": True, "init": 0},
    {"name": "k", "kind": "bit", "w": 3, "signed": False, "rand": False, "init": 4},
]


prefix_expr, prefix_stmt = sem.prefix_expr, sem.prefix_stmt


def gen_inline(d, g):
    out = []
    for _ in range(d.randint(1, 3)):
        r = d.randint(0, 99)
        if r < 35:
            out.append(g.field_stmt(0))
        elif r < 55:
            out.append(["expr", ["dyn", d.choice(["d0", "d1"])]])
        elif r < 70:
            out.append(["expr", ["bin", "|", ["dyn", "d0"], ["dyn", "d1"]]])
        elif r < 82:
            out.append(["expr", ["not", ["dyn", d.choice(["d0", "d1"])]]])
        elif r < 92:
            out.append(["expr", ["bin", d.choice(["&", "|"]), ["dyn", d.choice(["d0", "d1"])], g.cmp(0)]])
        else:
            out.append(["expr", ["bin", "&", ["dyn", "d0"], ["not", ["dyn", "d1"]]]])
    if d.chance(12):
        # another instance of the class is constructed while the block is open: the statements written so far stay
        out.insert(d.randint(1, len(out)), ["mk"])
    return out


@hyp.composite
def cases(d):
    g = gen.G(d, FIELDS, {}, mul_max_w=3)
    cls = {"name": "T", "fields": copy.deepcopy(FIELDS),
           "lists": [{"name": "nl", "elem": {"kind": "bit", "w": 3, "signed": False}, "mode": "nonrand"}],
           "blocks": [{"name": "c0", "stmts": [g.field_stmt(1) for _ in range(d.randint(0, 2))]}],
           "dyn": [{"name": "d0", "stmts": [g.field_stmt(0) for _ in range(d.randint(1, 2))]},
                   {"name": "d1", "stmts": [g.field_stmt(0) for _ in range(d.randint(1, 2))]}]}
    # make the dynamic blocks instance-sensitive most of the time
    if d.chance(70):
        cls["dyn"][0]["stmts"].append(["expr", ["bin", d.choice(["<", "<=", "!="]), ["f", "a"], ["f", "k"]]])
    # a foreach over the instance's (non-random, editable) list inside a dynamic block
    if d.chance(45):
        if d.chance(60):
            # keep the rest of the block loose, so that what the foreach says decides which values the block allows
            cls["dyn"][1]["stmts"] = [["expr", ["bin", d.choice(["<=", "!="]), ["f", d.choice(["a", "b"])], ["lit", d.randint(2, 6)]]]] if d.chance(50) else []
        cls["dyn"][1]["stmts"].append(["foreach", "nl", "i", None,
                                       [["expr", ["bin", "!=", ["f", d.choice(["a", "b"])], ["el", "nl", ["iv", "i"], None]]]]])
    if d.chance(25):
        # composition: the first dynamic block references the second one (whose name sorts LATER: it is elaborated after
        # the block that uses it)
        cls["dyn"][0]["stmts"].insert(d.randint(0, len(cls["dyn"][0]["stmts"])), ["expr", ["dyn", "d1"]])
    ops = [["new", d.randint(0, 7)]]
    n = 1
    for _ in range(d.randint(2, 10)):
        r = d.randint(0, 99)
        if n < 4 and r < 22:
            ops.append(["new", d.randint(0, 7)] + (["D"] if d.chance(30) else []))      # "D": an instance of the derived class TD
            n += 1
        elif r < 32:
            ops.append(["nl", d.randint(0, n - 1), [d.randint(0, 7) for _ in range(d.randint(1, 3))]] if d.chance(50)
                       else ["nlappend", d.randint(0, n - 1), d.randint(0, 7)])
        elif r < 40:
            ops.append(["call", d.randint(0, n - 1), "randomize", None, d.seed()])
        elif r < 78 or n < 2:
            ops.append(["call", d.randint(0, n - 1), "randomize_with", gen_inline(d, g), d.seed()])
        elif r < 84:
            # holder whose CLASS constraint references the dynamic block of the element selected by a non-random index;
            # the index is reassigned between the calls
            i, j = d.sample(list(range(n)), 2)
            ops.append(["h2call", [i, j], "d0" if d.chance(50) else "d1",
                        [[d.randint(0, 1), d.seed()] for _ in range(d.randint(2, 4))]])
        else:
            # holder call: instances i and j become elements of a holder's list; reference element dynamic blocks
            i, j = d.sample(list(range(n)), 2)
            e = d.randint(0, 1)
            pick = (lambda: d.choice(["d0", "d1"]))
            has_fe = any(s_[0] == "foreach" for s_ in cls["dyn"][1]["stmts"])
            inl = [["expr", ["dyn", "arr[%d].%s" % (e, "d1" if (has_fe and d.chance(60)) else pick())]]]
            if d.chance(40):
                inl.append(["expr", ["not", ["dyn", "arr[%d].%s" % (1 - e, pick())]]])
            if d.chance(30):
                # every element's block, referenced through the index of an inline foreach
                inl = [["foreach", "arr", "i", None, [["expr", ["dynel", "arr", ["iv", "i"], pick()]]]]] + (inl[1:] if d.chance(50) else [])
            ops.append(["hcall", [i, j], inl, d.seed()])
            if d.chance(70):
                # the same reference again after the referenced element's list has changed (a foreach inside the block
                # must follow the list on every call)
                src_i = [i, j][e]
                ops.append(["nlappend", src_i, d.randint(0, 7)] if d.chance(70) else ["nl", src_i, [d.randint(0, 7) for _ in range(d.randint(1, 3))]])
                ops.append(["hcall", [i, j], inl, d.seed()])
    return {"cls": cls, "ops": ops, "sel": [d.randint(0, 1 << 16) for _ in range(6)]}


HOLDER_SRC = '''
@vsc.randobj
class TD(T):
    """derived class: one more dynamic block, whose name sorts before the inherited ones; nothing references it"""
    def __init__(self):
        super().__init__()
    @vsc.dynamic_constraint
    def a0(self):
        self.a == 6
        self.b == 1

@vsc.randobj
class H(object):
    def __init__(self):
        self.arr = vsc.rand_list_t(T())

@vsc.randobj
class H2a(object):
    def __init__(self):
        self.sel = vsc.bit_t(2)
        self.arr = vsc.rand_list_t(T())
    @vsc.constraint
    def hc(self):
        self.arr[self.sel].d0()

@vsc.randobj
class H2b(object):
    def __init__(self):
        self.sel = vsc.bit_t(2)
        self.arr = vsc.rand_list_t(T())
    @vsc.constraint
    def hc(self):
        self.arr[self.sel].d1()
'''


def text_of(case):
    prog = {"enums": {}, "classes": [case["cls"]]}
    return render.program_source(prog) + HOLDER_SRC + "# ops:\n" + "\n".join("#   " + cjson(op) for op in case["ops"])


def V(kind, detail, case, extra=None):
    v = {"property": PROPERTY, "kind": kind, "detail": detail, "case": case, "text": text_of(case)}
    if extra:
        v["text"] += "\n# " + extra
    return v


def has_dyn_under_op(stmts):
    for s in stmts or []:
        if s[0] == "expr":
            e = s[1]
            if e[0] == "not" and e[1][0] == "dyn":
                return True
            if e[0] == "bin" and e[1] == "|" and (e[2][0] == "dyn" or e[3][0] == "dyn"):
                return True
    return False


def holder_ref(cls, class_stmts, dyn, pair, objs, kvals, lvals):
    """reference problem of a holder whose list holds the instances `pair`"""
    htypes, hrf, env0, hstmts, hdyn = {}, [], {}, [], {}
    for e_i, src in enumerate(pair):
        p = "arr[%d]." % e_i
        for f in cls["fields"]:
            ff = dict(f, name=p + f["name"])
            htypes[ff["name"]] = ff
            if f["rand"]:
                hrf.append(ff)
        env0[p + "a"], env0[p + "b"], env0[p + "k"] = int(objs[src].a), int(objs[src].b), kvals[src]
        htypes[p + "nl[]"] = {"kind": "bit", "w": 3, "signed": False}
        env0["#" + p + "nl"] = len(lvals[src])
        for j_, v_ in enumerate(lvals[src]):
            env0["%snl[%d]" % (p, j_)] = v_
        hstmts += [prefix_stmt(s, p) for s in class_stmts]
        for dn, ds in dyn.items():
            hdyn[p + dn] = [prefix_stmt(s, p) for s in ds]
    return htypes, hrf, env0, hstmts, hdyn




# ------------------------------------------------------------------------------------------------
# sub-domain: dynamic blocks whose bodies are SOFT statements.  Which of two conflicting softs wins is C05's subject;
# here only "no trace": the outcome of one given call must not depend on which calls were made on the object before
SOFTDYN_SRC = """
@vsc.randobj
class S(object):
    def __init__(self):
        self.a = vsc.rand_bit_t(4)
        self.b = vsc.rand_bit_t(4)
    @vsc.dynamic_constraint
    def p0(self):
        vsc.soft(self.a == %(v0)d)
    @vsc.dynamic_constraint
    def p1(self):
        vsc.soft(self.a == %(v1)d)
    @vsc.dynamic_constraint
    def h(self):
        self.b < 3

@vsc.randobj
class H(object):
    def __init__(self):
        self.s = vsc.rand_attr(S())
        self.l = vsc.rand_list_t(S(), 0)
        self.l.append(S())
        self.l.append(S())
"""
SOFTDYN_VIA = {"attr": "it.s", "elem": "it.l[1]", "elem0": "it.l[0]"}


def gen_softdyn_inline(d, must_conflict=False):
    items = []
    for _ in range(d.randint(1, 3)):
        r = d.randint(0, 99)
        if r < 35:
            items.append(["p0"])
        elif r < 60:
            items.append(["p1"])
        elif r < 85:
            items.append(["soft", d.randint(0, 15)])
        else:
            items.append(["h"])
    if must_conflict and len([i for i in items if i[0] != "h"]) < 2:
        items = [["p0"], ["soft", d.randint(0, 15)]] if d.chance(50) else [["p0"], ["p1"]]
        if d.chance(50):
            items.reverse()
    return items


@hyp.composite
def softdyn_cases(d):
    v0 = d.randint(0, 15)
    v1 = d.choice([v for v in range(16) if v != v0])
    case = {"softdyn": True, "v0": v0, "v1": v1, "history": [gen_softdyn_inline(d) for _ in range(d.randint(1, 4))],
            "final": gen_softdyn_inline(d, must_conflict=True), "seed": d.seed()}
    if d.chance(50):
        # the object is a sub-object / a list element of a holder; calls are made on the holder and the blocks are
        # referenced through the attribute or the subscript
        case["via"] = d.choice(["attr", "elem", "elem0"])
    return case


def softdyn_call(o, items, seed, via=None):
    vsc = import_vsc()
    o.set_randstate(flat.mk_randstate(seed))
    if via:
        # literal source, evaluated in natural order like a user's file
        lines = ["with o.randomize_with() as it:"]
        tgt = SOFTDYN_VIA[via]
        for item in items:
            lines.append("    vsc.soft(%s.a == %d)" % (tgt, item[1]) if item[0] == "soft" else "    %s.%s()" % (tgt, item[0]))
        exec(compile("\n".join(lines), "<pvs-c06-softdyn-call>", "exec"), {"o": o, "vsc": vsc})
        return
    with o.randomize_with() as it:
        for item in items:
            if item[0] == "soft":
                vsc.soft(it.a == item[1])
            elif item[0] == "p0":
                it.p0()
            elif item[0] == "p1":
                it.p1()
            else:
                it.h()


def run_softdyn(case):
    import enum as _enum
    vsc = import_vsc()
    info = {"calls": 0}
    if not case.get("final") or not all(isinstance(i, list) and i and i[0] in ("p0", "p1", "soft", "h") for c_ in case["history"] + [case["final"]] for i in c_):
        return [], info
    src = SOFTDYN_SRC % {"v0": case["v0"], "v1": case["v1"]}
    text = src + "# history (inline blocks of earlier calls): %s\n# final call: %s (seed %d)%s" % (
        cjson(case["history"]), cjson(case["final"]), case["seed"],
        ("\n# calls are made on H(); blocks and softs are written through %s" % SOFTDYN_VIA.get(case.get("via"), "?")) if case.get("via") else "")

    def Vs(kind, detail, extra):
        return {"property": PROPERTY, "kind": kind, "detail": detail, "case": case, "text": text + "\n# " + extra}
    reset_library()
    try:
        ns = {"vsc": vsc, "enum": _enum}
        exec(compile(src, "<pvs-c06-softdyn>", "exec"), ns)
        via = case.get("via")
        if via is not None and via not in SOFTDYN_VIA:
            return [], info
        fresh, used = (ns["H"](), ns["H"]()) if via else (ns["S"](), ns["S"]())
        for k, items in enumerate(case["history"]):
            softdyn_call(used, items, case["seed"] + 1 + k, via)
            info["calls"] += 1
        softdyn_call(fresh, case["final"], case["seed"], via)
        softdyn_call(used, case["final"], case["seed"], via)
        info["calls"] += 2
        if via:
            pick = {"attr": lambda h: h.s, "elem": lambda h: h.l[1], "elem0": lambda h: h.l[0]}[via]
            fresh, used = pick(fresh), pick(used)
    except Exception as e:
        ei = flat.defuse(e)
        reset_library()
        return [Vs("library_exception", "soft dynamic blocks: " + ei.sig, "%r" % ei)], info
    af, au = int(fresh.a), int(used.a)
    vals = set()
    for item in case["final"]:
        if item[0] == "soft":
            vals.add(item[1])
        elif item[0] == "p0":
            vals.add(case["v0"])
        elif item[0] == "p1":
            vals.add(case["v1"])
    if vals and af not in vals:
        return [Vs("soft_ignored", "no referenced soft constraint is honoured although each is satisfiable alone",
                   "fresh object: a=%d, referenced soft values %s" % (af, sorted(vals)))], info
    if "h" in [i[0] for i in case["final"]] and (int(fresh.b) >= 3 or int(used.b) >= 3):
        return [Vs("wrong_binding", "referenced hard dynamic block not enforced", "b=%d / %d" % (int(fresh.b), int(used.b)))], info
    if af != au:
        return [Vs("inline_left_a_trace", "the outcome of a call depends on which calls were made on the object before", 
                   "final call on a fresh object: a=%d; the same call (same seed) after the history: a=%d" % (af, au))], info
    info["conflict"] = len(vals) >= 2
    return [], info


def run_case(case):
    if case.get("softdyn"):
        return run_softdyn(case)
    vsc = import_vsc()
    cls = case["cls"]
    if not cls.get("lists"):
        cls = dict(cls, lists=[{"name": "nl", "elem": {"kind": "bit", "w": 3, "signed": False}, "mode": "nonrand"}])
        case = dict(case, cls=cls)
    prog = {"enums": {}, "classes": [cls]}
    types = {f["name"]: f for f in cls["fields"]}
    types["nl[]"] = {"kind": "bit", "w": 3, "signed": False}
    rf = [f for f in cls["fields"] if f["rand"]]
    names = [f["name"] for f in rf]
    class_stmts = [s for b in cls["blocks"] for s in b["stmts"]]
    dyn = {b["name"]: b["stmts"] for b in cls["dyn"]}
    info = {"dyn_op": False, "calls": 0}
    if any(not b["stmts"] for b in cls["dyn"]) or not all(f["name"] in types for f in FIELDS):
        return [], info          # not a generated case (e.g. produced by structural reduction)
    reset_library()
    try:
        ns = flat.build(prog)
        exec(compile(HOLDER_SRC, "<pvs-c06-holder>", "exec"), ns)
    except Exception as e:
        reset_library()
        return [V("library_exception", "construction: " + exc_sig(e), case, repr(e))], info
    objs = []
    kvals = []
    lvals = []
    prev_inline = {}
    inline_sets = {}
    holders = {}
    holder_prev = {}
    for step, op in enumerate(case["ops"]):
        where = "step %d %s" % (step, cjson(op)[:160])
        if op[0] == "new":
            try:
                o = ns["TD" if len(op) > 2 and op[2] == "D" else "T"]()
                o.k = op[1]
                o.nl.append(op[1] % 8)
                objs.append(o)
                kvals.append(op[1])
                lvals.append([op[1] % 8])
            except Exception as e:
                reset_library()
                return [V("library_exception", "construction: " + exc_sig(e), case, where + " raised %r" % (e,))], info
            continue
        if op[0] in ("nl", "nlappend"):
            i = op[1]
            try:
                if op[0] == "nl":
                    objs[i].nl = list(op[2])
                    lvals[i] = list(op[2])
                else:
                    objs[i].nl.append(op[2])
                    lvals[i].append(op[2])
            except Exception as e:
                reset_library()
                return [V("library_exception", "list edit: " + exc_sig(e), case, where)], info
            info["list_edits"] = info.get("list_edits", 0) + 1
            continue
        if op[0] == "call":
            _, i, kind, inline, seed = op
            o = objs[i]
            env0 = {"a": int(o.a), "b": int(o.b), "k": kvals[i], "#nl": len(lvals[i])}
            for j_, v_ in enumerate(lvals[i]):
                env0["nl[%d]" % j_] = v_
            stmts = class_stmts + (inline or [])
            allv, sols = flat.enumerate_solutions(types, rf, env0, stmts, dyn)
            st, exc = flat.do_call(ns, o, kind, inline, seed)
            info["calls"] += 1
            if has_dyn_under_op(inline):
                info["dyn_op"] = True
            inline_sets.setdefault(i, set()).add(cjson(inline))
            if st == "exc":
                reset_library()
                return [V("library_exception", "%s: %s" % (kind, exc.sig), case, where + " raised %r" % (exc,))], info
            if st == "sf":
                if sols:
                    return [V("spurious_solve_failure", kind, case, where + ": %d solutions exist (k=%d)" % (len(sols), kvals[i]))], info
            else:
                got = (int(o.a), int(o.b))
                if int(o.k) != kvals[i]:
                    return [V("nonrandom_changed", kind, case, where)], info
                if not sols:
                    return [V("returned_on_unsat", kind, case, where + " returned a=%d b=%d" % got)], info
                if got not in set(sols):
                    return [V("wrong_binding", "result violates class AND inline constraints of this call on this instance", case,
                              where + ": instance %d (k=%d) got a=%d b=%d; allowed e.g. %s; other instances' k: %s"
                              % (i, kvals[i], got[0], got[1], sols[:4], kvals))], info
            # probes
            solset = set(sols)
            class_all, class_sols = flat.enumerate_solutions(types, rf, env0, class_stmts, dyn)
            sel = list(case.get("sel") or [0]) * 8      # (the structural reducer may have shortened the list)
            # (i) no trace: a value the class allows but this call's inline forbade must be accepted by a later plain pin
            forb = [v for v in class_sols if v not in solset]
            if forb and inline:
                v = forb[sel[0] % len(forb)]
                pins = flat.pin_stmts(prog, rf, dict(zip(names, v)))
                st2, exc2 = flat.do_call(ns, o, "randomize_with", pins, seed + 1)
                if st2 == "exc":
                    reset_library()
                    return [V("library_exception", "probe: " + exc2.sig, case, where)], info
                if st2 != "ret":
                    return [V("inline_left_a_trace", "a value forbidden only by an earlier call's inline block is rejected afterwards", case,
                              where + ": then randomize_with(a==%d, b==%d) raised SolveFailure" % v)], info
            # (ii)/(iii) pins together with this call's inline set
            if inline:
                non = [v for v in class_sols if v not in solset]
                for v, member in ([(sols[sel[1] % len(sols)], True)] if sols else []) + ([(non[sel[2] % len(non)], False)] if non else []):
                    pins = flat.pin_stmts(prog, rf, dict(zip(names, v)))
                    st3, exc3 = flat.do_call(ns, o, "randomize_with", inline + pins, seed + 2)
                    if st3 == "exc":
                        reset_library()
                        return [V("library_exception", "probe: " + exc3.sig, case, where)], info
                    if member and st3 != "ret":
                        return [V("pin_member_rejected", "inline set rejects a value it allows on this instance", case,
                                  where + ": pin a=%d b=%d (k=%d) rejected" % (v[0], v[1], kvals[i]))], info
                    if not member and st3 == "ret":
                        return [V("pin_nonmember_returned", "inline set accepts a value its dynamic/plain constraints forbid on this instance", case,
                                  where + ": pin a=%d b=%d (k=%d) accepted" % (v[0], v[1], kvals[i]))], info
            continue
        if op[0] == "h2call":
            _, (i, j), dname, calls = op
            if i == j or dname not in dyn:
                continue
            try:
                h = ns["H2a" if dname == "d0" else "H2b"]()
                h.arr.append(objs[i])
                h.arr.append(objs[j])
            except Exception as e:
                reset_library()
                return [V("library_exception", "holder construction: " + exc_sig(e), case, where + " raised %r" % (e,))], info
            for selv, seed in calls:
                htypes, hrf, env0, hstmts, hdyn = holder_ref(cls, class_stmts, dyn, (i, j), objs, kvals, lvals)
                ref = [["expr", ["dyn", "arr[%d].%s" % (selv, dname)]]]
                allv, sols = flat.enumerate_solutions(htypes, hrf, env0, hstmts + ref, hdyn)
                try:
                    h.sel = selv
                except Exception as e:
                    reset_library()
                    return [V("library_exception", "assign: " + exc_sig(e), case, where)], info
                st, exc = flat.do_call(ns, h, "randomize", None, seed)
                info["calls"] += 1
                info["h2calls"] = info.get("h2calls", 0) + 1
                wh = where + " call(sel=%d, seed=%d)" % (selv, seed)
                if st == "exc":
                    reset_library()
                    return [V("library_exception", "holder randomize: " + exc.sig, case, wh + " raised %r" % (exc,))], info
                got = (int(objs[i].a), int(objs[i].b), int(objs[j].a), int(objs[j].b))
                if st == "sf":
                    if sols:
                        return [V("spurious_solve_failure", "holder with class-level reference", case, wh)], info
                elif not sols:
                    return [V("returned_on_unsat", "holder with class-level reference", case, wh + " returned %s" % (got,))], info
                elif got not in set(sols):
                    return [V("wrong_binding", "dynamic block referenced from a class constraint through arr[sel] constrains the wrong element", case,
                              wh + ": elements (k=%d, k=%d) got %s; allowed e.g. %s" % (kvals[i], kvals[j], got, sols[:3]))], info
            continue
        if op[0] == "hcall":
            _, (i, j), inline, seed = op
            try:
                # the same pair of instances is held by the same holder object from one holder call to the next
                h = holders.get((i, j))
                if h is None:
                    h = ns["H"]()
                    h.arr.append(objs[i])
                    h.arr.append(objs[j])
                    holders[(i, j)] = h
                else:
                    info["holder_reused"] = info.get("holder_reused", 0) + 1
            except Exception as e:
                reset_library()
                return [V("library_exception", "holder construction: " + exc_sig(e), case, where + " raised %r" % (e,))], info
            htypes, hrf, env0, hstmts, hdyn = {}, [], {}, [], {}
            for e_i, src in enumerate((i, j)):
                p = "arr[%d]." % e_i
                for f in cls["fields"]:
                    ff = dict(f, name=p + f["name"])
                    htypes[ff["name"]] = ff
                    if f["rand"]:
                        hrf.append(ff)
                env0[p + "a"], env0[p + "b"], env0[p + "k"] = int(objs[src].a), int(objs[src].b), kvals[src]
                htypes[p + "nl[]"] = {"kind": "bit", "w": 3, "signed": False}
                env0["#" + p + "nl"] = len(lvals[src])
                for j_, v_ in enumerate(lvals[src]):
                    env0["%snl[%d]" % (p, j_)] = v_
                hstmts += [prefix_stmt(s, p) for s in class_stmts]
                for dn, ds in dyn.items():
                    hdyn[p + dn] = [prefix_stmt(s, p) for s in ds]
            if i == j:
                continue
            env0["#arr"] = 2
            allv, sols = flat.enumerate_solutions(htypes, hrf, env0, hstmts + inline, hdyn)
            st, exc = flat.do_call(ns, h, "randomize_with", inline, seed)
            info["calls"] += 1
            if st == "exc":
                reset_library()
                return [V("library_exception", "holder randomize_with: " + exc.sig, case, where + " raised %r" % (exc,))], info
            got = (int(objs[i].a), int(objs[i].b), int(objs[j].a), int(objs[j].b))
            if st == "sf":
                if sols:
                    return [V("spurious_solve_failure", "holder", case, where)], info
            elif not sols:
                return [V("returned_on_unsat", "holder", case, where + " returned %s" % (got,))], info
            elif got not in set(sols):
                return [V("wrong_binding", "dynamic block referenced through a list element constrains the wrong object", case,
                          where + ": elements (k=%d, k=%d) got %s; allowed e.g. %s" % (kvals[i], kvals[j], got, sols[:3]))], info
            # pinned probes on the holder: assignments that the class blocks allow but the referenced blocks forbid on these
            # elements must be rejected (the blocks are in force as they are NOW, e.g. over the lists' present contents),
            # a member must be accepted
            solset_h = set(sols)
            _, class_ok = flat.enumerate_solutions(htypes, hrf, env0, hstmts, hdyn)
            forb_h = [v for v in class_ok if v not in solset_h]
            hnames = [f["name"] for f in hrf]
            probes_h = []
            selv = list(case.get("sel") or [0]) * 8
            # first choice: assignments that the same reference allowed on the previous holder call and that the blocks
            # forbid now (the elements' lists changed in between): a stale per-call expansion would still accept them
            pkey = (i, j, cjson(inline))
            stale = [v for v in holder_prev.get(pkey, ()) if v not in solset_h and v in set(class_ok)]
            for k_ in range(min(2, len(stale))):
                probes_h.append((stale[(selv[(4 + k_) % len(selv)]) % len(stale)], False))
                info["stale_probes"] = info.get("stale_probes", 0) + 1
            holder_prev[pkey] = list(sols)
            for k_ in range(min(3, len(forb_h))):
                probes_h.append((forb_h[(selv[k_ % len(selv)] + 7 * k_) % len(forb_h)], False))
            if sols:
                probes_h.append((sols[selv[3 % len(selv)] % len(sols)], True))
            for vals_, member in probes_h:
                pins = [["expr", ["bin", "==", ["f", nm_], ["lit", v_]]] for nm_, v_ in zip(hnames, vals_)]
                st3, exc3 = flat.do_call(ns, h, "randomize_with", inline + pins, seed + 3)
                info["calls"] += 1
                desc = where + ": pin %s on the holder" % cjson(dict(zip(hnames, vals_)))
                if st3 == "exc":
                    reset_library()
                    return [V("library_exception", "holder pinned probe: " + exc3.sig, case, desc + " raised %r" % (exc3,))], info
                if st3 == "ret" and not member:
                    return [V("wrong_binding", "a value the referenced element block forbids is accepted", case,
                              desc + " returned although the blocks referenced through the list elements forbid it")], info
                if st3 == "sf" and member:
                    return [V("spurious_solve_failure", "holder pinned member", case, desc + " raised SolveFailure")], info
            continue
    info["ninst"] = len(objs)
    info["kdiff"] = len(set(kvals)) > 1
    info["multi_inline"] = any(len(s) >= 2 for s in inline_sets.values())
    return [], info


def body(case, acc):
    vios, info = run_case(case)
    if case.get("softdyn"):
        acc.case(case, bool(info.get("conflict")) and len(case["history"]) >= 2, sample=SOFTDYN_SRC % {"v0": case["v0"], "v1": case["v1"]})
        acc.label("dynamic blocks with soft bodies (history invariance)")
        acc.label("soft dynamic blocks referenced " + ("directly" if not case.get("via") else "through " + SOFTDYN_VIA.get(case["via"], "?")))
        return vios
    nt = info.get("ninst", 0) >= 2 and info.get("kdiff") and info.get("multi_inline") and info.get("dyn_op")
    acc.case(case, bool(nt), sample=text_of(case))
    acc.label("calls", info.get("calls", 0))
    for op in case["ops"]:
        acc.label("op:" + op[0])
    if info.get("dyn_op"):
        acc.label("dynamic reference under | or ~")
    if any(s_[0] == "foreach" for b in case["cls"]["dyn"] for s_ in b["stmts"]):
        acc.label("foreach inside a dynamic block")
    acc.label("list edits", info.get("list_edits", 0))
    acc.label("holder call on a holder used before", info.get("holder_reused", 0))
    acc.label("probes: allowed by the previous holder call, forbidden now", info.get("stale_probes", 0))
    acc.label("calls on a holder whose class constraint references arr[sel].dyn()", info.get("h2calls", 0))
    return vios


def shards(tier):
    return [{"i": i, "n": 120 if tier == "quick" else 4000} for i in range(15)] + \
        [{"kind": "softdyn", "i": 0, "n": 150 if tier == "quick" else 4000}]


def run_shard(spec, seed, tier, acc):
    hyp.drive(softdyn_cases() if spec.get("kind") == "softdyn" else cases(), body, seed, spec["n"], acc)


def replay(case):
    return run_case(case)[0]
