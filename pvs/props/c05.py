"""C05 - soft constraints are never fatal, are honoured maximally, and later ones win."""
import itertools

from ..core import hyp
from ..core.util import reset_library, cjson
from ..model import sem, gen, flat, render
from . import solve_engine as E

PROPERTY = "C05"
LEVEL = "exploration"
RULE = ("cases = small-domain flat programs with 1-3 hard and 1-5 soft statements (top level and nested under "
        "if/else-if/else/implies, whose bodies may also hold hard statements before and after the soft ones) in one or two "
        "class blocks plus optional inline blocks, and a sequence of 1-4 calls (randomize / randomize_with with different "
        "inline soft sets; 30% of the histories contain a call that fails on a contradictory inline hard constraint).  The hard solution set is enumerated; oracle: "
        "(1) hard-satisfiable => never SolveFailure, (2) result in S_hard, (3) maximality from the result alone: no "
        "violated soft could be added to the satisfied ones within S_hard, (4) priority: the result lies in the greedy-by-"
        "priority set for some order consistent with 'later in the same block wins, inline over class'.  non-trivial = the "
        "full soft set is jointly unsatisfiable with the hard set and at least two softs conflict; distinct = distinct "
        "canonical program+calls.  A list family (about 5% of the cases) puts the softs into the body of a foreach over a "
        "random-size list: (size, elements, x) are enumerated and the soft of element i applies only if the solved list has "
        "an element i; same four oracles")
ASSUMPTIONS = [
    "a soft nested under conditions is the soft (AND guards) -> expr; guards of else-branches are the negated earlier conditions",
    "the order between softs of different class blocks is not fixed by the property: any interleaving preserving each block's order is accepted, inline softs last (highest priority)",
    "every guard and every soft expression references a field (soft statements without a field are not generated)",
]


def gen_body(d, g, depth):
    """body of an if / else / implies arm: soft statements, optionally with hard statements before and after them"""
    out = [gen_soft_stmt(d, g, depth)]
    for _ in range(d.randint(0, 2)):
        st = g.field_stmt(0) if d.chance(60) else gen_soft_stmt(d, g, depth)
        out.insert(d.randint(0, len(out)), st)
    return out


def gen_soft_stmt(d, g, depth):
    r = d.randint(0, 99)
    if depth <= 0 or r < 65:
        return ["soft", g.cmp(1) if d.chance(70) else g.boolean(1)]
    if r < 85:
        arms = [[g.cmp(0), gen_body(d, g, depth - 1)] for _ in range(d.randint(1, 2))]
        els = gen_body(d, g, depth - 1) if d.chance(50) else None
        return ["if", arms, els]
    return ["implies", g.cmp(0), gen_body(d, g, depth - 1)]


@hyp.composite
def cases(d):
    if d.chance(10):
        return listsoft_cases(d)
    fs, en = gen.gen_fields(d, nmax=3, widths=[1, 2, 3], p_enum=8)
    def bits(f):
        return f["w"] if f["kind"] != "enum" else 2
    while sum(bits(f) for f in fs if f["rand"]) > 8:
        big = max((f for f in fs if f["rand"]), key=bits)
        if big["kind"] == "enum" or big["w"] == 1:
            big["rand"] = False
        else:
            big["w"] -= 1
            big["init"] = sem.wrap(big["init"], big["w"], big["signed"])
    cls = {"name": "T", "fields": fs}
    if d.chance(35):
        # list elements named by constant subscripts in hard and soft statements (rand sets then also merge through the
        # subscript path)
        gen.add_list(d, fs, cls, 8)
    g = gen.G(d, fs, en)
    blocks = []
    for b in range(d.randint(1, 2)):
        stmts = []
        for _ in range(d.randint(0, 2)):
            stmts.append(g.field_stmt(1))
        for _ in range(d.randint(1, 3)):
            stmts.insert(d.randint(0, len(stmts)), gen_soft_stmt(d, g, 1))
        blocks.append({"name": "c%d" % b, "stmts": stmts})
    rsc = [f for f in fs if f["rand"] and f["kind"] != "enum"]
    late = None
    if len(rsc) >= 2 and d.chance(30):
        # softs that each name ONE field (so they start out in different rand sets), and only afterwards a hard statement
        # that relates the fields (either operand order) and makes the softs compete: the sets merge after the softs were
        # ranked.  The relation is a class statement after the softs, or part of the inline block of a call.
        x, y = d.sample(rsc, 2)
        def one(f):
            lo_, hi_ = sem.type_range(f)
            return ["soft", ["bin", d.choice(["==", "==", "<=", ">="]), ["f", f["name"]], ["lit", d.randint(lo_, hi_)]]]
        softs = [one(x), one(y)] + [one(d.choice([x, y])) for _ in range(d.randint(0, 2))]
        a_, b_ = (x, y) if d.chance(50) else (y, x)
        k_ = d.randint(0, 99)
        if k_ < 40:
            rel = ["expr", ["bin", d.choice(["!=", "<", ">", "=="]), ["f", a_["name"]], ["f", b_["name"]]]]
        elif k_ < 70:
            rel = ["expr", ["bin", d.choice(["==", "<=", ">="]), ["bin", d.choice(["+", "^"]), ["f", a_["name"]], ["f", b_["name"]]], ["lit", d.randint(0, 7)]]]
        else:
            rel = ["implies", ["bin", d.choice(["==", "!="]), ["f", a_["name"]], ["lit", d.randint(0, 3)]],
                   [["expr", ["bin", d.choice(["!=", "<", ">"]), ["f", b_["name"]], ["f", a_["name"]]]]]]
        if d.chance(60):
            blocks = [{"name": "c0", "stmts": softs + [rel]}]
        else:
            blocks = [{"name": "c0", "stmts": softs}]
            late = rel
    calls = []
    for _ in range(d.randint(1, 3)):
        if d.chance(50):
            calls.append({"kind": "randomize", "seed": d.seed(), "inline": None})
        else:
            inl = []
            if d.chance(40):
                inl.append(g.field_stmt(1))
            for _ in range(d.randint(1, 2)):
                inl.append(gen_soft_stmt(d, g, 1))
            calls.append({"kind": "randomize_with", "seed": d.seed(), "inline": inl})
    if late is not None:
        # the relating statement comes with a call: after an inline soft (class softs ranked first, inline soft next,
        # then the sets merge)
        f_ = d.choice(rsc)
        lo_, hi_ = sem.type_range(f_)
        calls = [{"kind": "randomize_with", "seed": d.seed(),
                  "inline": ([["soft", ["bin", "==", ["f", f_["name"]], ["lit", d.randint(lo_, hi_)]]]] if d.chance(70) else []) + [late]}] + calls[:1]
    if d.chance(30):
        # a call that fails (contradictory inline hard constraint, optionally with an inline soft) somewhere before the
        # last call: the calls after it are judged like any other
        rf_ = [f for f in fs if f["rand"]] or fs
        x = ["f", d.choice(rf_)["name"]]
        bad = [["expr", ["bin", "!=", x, x]]]
        if d.chance(50):
            bad.append(gen_soft_stmt(d, g, 0))
        calls.insert(d.randint(0, len(calls) - 1), {"kind": "randomize_with", "seed": d.seed(), "inline": bad})
    cls["blocks"] = blocks
    prog = {"enums": en, "classes": [cls]}
    return {"prog": prog, "calls": calls}


# ----------------------------------------------------------------------------------------------
# Soft constraints in the body of a foreach over a RANDOM-SIZE list: the soft of element i applies only when the solved
# list has an element i (its guard is 'i < size').  Reference: (size, elements, x) enumerated; the soft terms are the
# foreach body unrolled for every index the size bound admits, each guarded by the size.
LS_MAX = 3


def listsoft_cases(d):
    lo = d.randint(0, 2)
    hi = d.randint(max(lo, 1), LS_MAX)
    i, x = ["iv", "i"], ["f", "x"]
    eli = ["el", "l", ["iv", "i"], None]

    def soft_body():
        r = d.randint(0, 5)
        if r == 0:
            return ["bin", "==", x, i]
        if r == 1:
            return ["bin", "==", x, ["bin", "+", i, ["lit", d.randint(1, 4)]]]
        if r == 2:
            return ["bin", "==", eli, ["lit", d.randint(0, 3)]]
        if r == 3:
            return ["bin", "==", eli, x]
        if r == 4:
            return ["bin", "!=", x, i]
        return ["bin", ">", eli, i]
    stmts = [["expr", ["in", ["sz", "l"], [["rng", ["lit", lo], ["lit", hi]]]]]]
    if d.chance(35):
        stmts.append(["soft", ["bin", "==", x, ["lit", d.randint(0, 7)]]])
    if d.chance(40):
        stmts.append(d.choice([
            ["expr", ["bin", "<=", x, ["lit", d.randint(2, 6)]]],
            ["foreach", "l", "j", None, [["expr", ["bin", "<=", ["el", "l", ["iv", "j"], None], ["lit", d.randint(1, 2)]]]]],
            ["foreach", "l", "j", None, [["expr", ["bin", ">=", x, ["iv", "j"]]]]],
            ["uniql", "l"]]))
    body = [["soft", soft_body()]]
    if d.chance(30):
        body.append(["soft", soft_body()])
    stmts.append(["foreach", "l", "i", None, body])
    if d.chance(25):
        stmts.append(["soft", ["bin", "==", x, ["lit", d.randint(0, 7)]]])
    calls = []
    for _ in range(d.randint(1, 3)):
        inl = []
        r = d.randint(0, 99)
        if r < 40:
            inl.append(["expr", ["bin", "==", ["sz", "l"], ["lit", d.randint(lo, hi)]]])
        elif r < 60:
            inl.append(["expr", ["bin", "<=", ["sz", "l"], ["lit", d.randint(lo, hi)]]])
        elif r < 75:
            inl.append(["expr", ["bin", "!=", ["sz", "l"], ["lit", d.randint(lo, hi)]]])
        if d.chance(25):
            inl.append(["soft", ["bin", "==", x, ["lit", d.randint(0, 7)]]])
        if d.chance(15):
            inl.append(["soft", ["bin", "==", ["sz", "l"], ["lit", d.randint(lo, hi)]]])
        calls.append({"kind": "randomize_with" if inl else "randomize", "seed": d.seed(), "inline": inl})
    cls = {"name": "T",
           "fields": [{"name": "x", "kind": "bit", "w": 3, "signed": False, "rand": True, "init": 0}],
           "lists": [{"name": "l", "elem": {"kind": "bit", "w": 2, "signed": False}, "mode": "randsz", "init": []}],
           "blocks": [{"name": "c0", "stmts": stmts}]}
    return {"listsoft": True, "prog": {"enums": {}, "classes": [cls]}, "calls": calls}


def ls_terms(stmts):
    """soft terms in statement order: (index or None, expr); a foreach body is unrolled for every admissible index"""
    out = []
    for s_ in stmts:
        if s_[0] == "soft":
            out.append((None, None, s_[1]))
        elif s_[0] == "foreach":
            softs = [b[1] for b in s_[4] if b[0] == "soft"]
            for i in range(LS_MAX):
                for e in softs:
                    out.append((i, s_[2], e))
    return out


def run_listsoft(case):
    import itertools
    prog = case["prog"]
    cls = prog["classes"][0]
    stmts = cls["blocks"][0]["stmts"]
    info = {"conflict": False, "calls": 0}
    ok_shape = (len(cls.get("lists", [])) == 1 and stmts and stmts[0][0] == "expr" and stmts[0][1][0] == "in"
                and all(sem.well_formed(s_) for s_ in stmts)
                and all(sem.well_formed(s_) for c_ in case["calls"] for s_ in (c_.get("inline") or [])))
    if not ok_shape:
        return [], info
    types = {"x": cls["fields"][0], "l[]": cls["lists"][0]["elem"]}
    reset_library()
    try:
        ns = render.build(prog)
        obj = ns["T"]()
    except Exception:
        reset_library()
        return [], info
    states = []
    for n in range(LS_MAX + 1):
        for els in itertools.product(range(4), repeat=n):
            for xv in range(8):
                states.append((n, els, xv))

    def ctx_of(st):
        n, els, xv = st
        env = {"x": xv, "#l": n}
        for i_, v_ in enumerate(els):
            env["l[%d]" % i_] = v_
        return sem.Ctx(types, env)

    def term_true(t, st):
        i_, iv, e = t
        c = ctx_of(st)
        if i_ is not None:
            if i_ >= st[0]:
                return True        # the list has no element i: the soft does not apply
            c.loop[iv] = (i_, "l")
        return sem.truth(e, c)
    for ci, call in enumerate(case["calls"]):
        inline = call.get("inline") or []
        hard = [s_ for s_ in stmts + inline if s_[0] != "soft"]
        sols = [st for st in states if all(sem.holds(s_, ctx_of(st)) for s_ in hard)]
        st_, exc = flat.do_call(ns, obj, call["kind"], inline if call["kind"] == "randomize_with" else None, call["seed"])
        where = "call %d %s(seed=%d)" % (ci, call["kind"], call["seed"])
        if st_ == "exc":
            reset_library()
            return [V("library_exception", "a call raised: " + exc.sig, case, "%s raised %s" % (where, exc.rep))], info
        if not sols:
            continue
        info["calls"] += 1
        if st_ == "sf":
            return [V("soft_made_fatal", "SolveFailure although the hard constraints are satisfiable", case,
                      "%s: %d hard solutions exist" % (where, len(sols)))], info
        try:
            got = (len(obj.l), tuple(int(v) for v in obj.l), int(obj.x))
        except Exception as e:
            reset_library()
            return [V("library_exception", "reading back: " + type(e).__name__, case, where)], info
        shown = {"l": list(got[1]), "x": got[2]}
        if got not in set(sols):
            return [V("hard_violated", "result violates a hard constraint", case, "%s returned %s" % (where, cjson(shown)))], info
        terms = ls_terms(stmts) + ls_terms(inline)
        if not terms:
            continue
        tv = {st: tuple(term_true(t, st) for t in terms) for st in sols}
        mine = tv[got]
        sat_idx = [i for i, b in enumerate(mine) if b]
        for i, b in enumerate(mine):
            if b:
                continue
            for st in sols:
                t = tv[st]
                if t[i] and all(t[j] for j in sat_idx):
                    return [V("not_maximal", "a violated soft constraint could have been honoured with the satisfied ones", case,
                              "%s returned %s; soft term #%d %s is false there but size=%d l=%s x=%d satisfies it together with every "
                              "soft that holds at the result" % (where, cjson(shown), i, cjson(list(terms[i])), st[0], list(st[1]), st[2]))], info
        if not any(all(t) for t in tv.values()):
            info["conflict"] = True
        S = list(sols)
        for i in reversed(range(len(terms))):      # stated last = highest priority; inline terms are last
            S2 = [st for st in S if tv[st][i]]
            if S2:
                S = S2
        if got not in S:
            return [V("priority_inversion", "result is not in the greedy-by-priority set (later soft wins; the soft of a list element "
                      "applies only if the solved list has that element)", case,
                      "%s returned %s with soft truth %s over terms %s; greedy set e.g. %s"
                      % (where, cjson(shown), list(mine), cjson([list(t) for t in terms]),
                         cjson([{"l": list(st[1]), "x": st[2]} for st in S[:3]])))], info
    return [], info


def text_of(case):
    src = render.program_source(case["prog"])
    for i, c in enumerate(case["calls"]):
        if c.get("inline"):
            src += "\n# call %d inline (randomize_with):\n%s" % (i, render.inline_source(c["inline"]))
        else:
            src += "\n# call %d: randomize()" % i
    return src


def V(kind, detail, case, extra=None):
    v = {"property": PROPERTY, "kind": kind, "detail": detail, "case": case, "text": text_of(case)}
    if extra:
        v["text"] += "\n# " + extra
    return v


def interleavings(seqs):
    """all merges of the sequences preserving each one's order"""
    seqs = [s for s in seqs if s]
    if not seqs:
        yield []
        return
    if len(seqs) == 1:
        yield list(seqs[0])
        return
    for i, s in enumerate(seqs):
        rest = seqs[:i] + [s[1:]] + seqs[i + 1:]
        for tail in interleavings(rest):
            yield [s[0]] + tail


def run_case(case):
    if case.get("listsoft"):
        return run_listsoft(case)
    prog = case["prog"]
    cls = flat.cls_of(prog)
    fields = cls["fields"]
    types = flat.types_of(prog)
    rf = [f for f in fields if f["rand"]]
    names = [f["name"] for f in rf]
    env0 = {f["name"]: f["init"] for f in fields}
    info = {"conflict": False, "calls": 0}
    if not all(sem.well_formed(s_) for b in cls["blocks"] for s_ in b["stmts"]) or \
            not all(sem.well_formed(s_) for c_ in case["calls"] for s_ in (c_.get("inline") or [])):
        return [], info          # not a generated shape (left behind by structural reduction)
    reset_library()
    try:
        ns = flat.build(prog)
        obj = flat.instantiate(ns, prog)
    except Exception:
        reset_library()
        return [], info
    class_hard = [s for b in cls["blocks"] for s in b["stmts"]]
    block_softs = [sem.soft_terms(b["stmts"]) for b in cls["blocks"]]
    for ci, call in enumerate(case["calls"]):
        inline = call.get("inline") or []
        stmts = class_hard + inline
        r = flat.enumerate_solutions(types, rf, env0, stmts)
        if r is None:
            return [], info
        allv, sols = r
        st, exc = flat.do_call(ns, obj, call["kind"], inline if call["kind"] == "randomize_with" else None, call["seed"])
        where = "call %d %s(seed=%d)" % (ci, call["kind"], call["seed"])
        if st == "exc":
            reset_library()
            return [], info         # exception discipline is C02's
        if not sols:
            continue
        info["calls"] += 1
        if st == "sf":
            return [V("soft_made_fatal", "SolveFailure although the hard constraints are satisfiable", case,
                      "%s: %d hard solutions exist" % (where, len(sols)))], info
        env = flat.read_state(ns, obj, fields)
        got = tuple(env[n] for n in names)
        if got not in set(sols):
            return [V("hard_violated", "result violates a hard constraint", case, "%s returned %s" % (where, cjson(env)))], info
        inline_softs = sem.soft_terms(inline)
        all_softs = [t for bs in block_softs for t in bs] + inline_softs
        if not all_softs:
            continue

        def truth_vec(vals):
            e = dict(env0)
            e.update(zip(names, vals))
            c = sem.Ctx(types, e)
            return tuple(sem.soft_true(t, c) for t in all_softs)
        tv = {vals: truth_vec(vals) for vals in sols}
        mine = tv[got]
        # (3) maximality from the result alone
        sat_idx = [i for i, b in enumerate(mine) if b]
        for i, b in enumerate(mine):
            if b:
                continue
            for vals in sols:
                t = tv[vals]
                if t[i] and all(t[j] for j in sat_idx):
                    return [V("not_maximal", "a violated soft constraint could have been honoured with the satisfied ones", case,
                              "%s returned %s; soft #%d is false there but %s satisfies it together with every soft that holds at the result"
                              % (where, cjson(env), i, cjson(dict(zip(names, vals)))))], info
        # (4) priority: greedy, highest priority = stated last; inline over class
        if not any(all(t) for t in tv.values()):
            info["conflict"] = True
        offs = []
        k = 0
        for bs in block_softs:
            offs.append(list(range(k, k + len(bs))))
            k += len(bs)
        inl_idx = list(range(k, k + len(inline_softs)))
        ok = False
        greedy_sets = []
        for order in interleavings(offs):
            pri = list(reversed(order + inl_idx))       # highest priority first
            S = list(sols)
            for i in pri:
                S2 = [v for v in S if tv[v][i]]
                if S2:
                    S = S2
            greedy_sets.append(S)
            if got in S:
                ok = True
                break
        if not ok:
            return [V("priority_inversion", "result is not in the greedy-by-priority set for any admissible order", case,
                      "%s returned %s with soft truth %s; greedy set(s): %s"
                      % (where, cjson(env), list(mine), [cjson([dict(zip(names, v)) for v in S[:4]]) for S in greedy_sets[:2]]))], info
    return [], info


def body(case, acc):
    vios, info = run_case(case)
    acc.case(case, info.get("conflict", False), sample=text_of(case))
    acc.label("calls judged", info.get("calls", 0))
    if case.get("listsoft"):
        acc.label("family: softs in a foreach over a random-size list")
    if info.get("conflict"):
        acc.label("soft set conflicts with hard set")
    if any(c.get("inline") for c in case["calls"]):
        acc.label("has inline softs")
    if len(case["prog"]["classes"][0]["blocks"]) > 1:
        acc.label("two class blocks")
    return vios


def shards(tier):
    per = 220 if tier == "quick" else 6000
    return [{"i": i, "n": per} for i in range(16)]


def run_shard(spec, seed, tier, acc):
    hyp.drive(cases(), body, seed, spec["n"], acc)


def replay(case):
    return run_case(case)[0]
