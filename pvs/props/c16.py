"""C16 - a failed or aborted call does not poison later calls (fault enumeration x histories, twin sessions)."""
import copy
import random

from ..core import hyp
from ..core.util import reset_library, cjson, exc_sig, import_vsc, library_state, solver_handles
from ..model import sem, gen, flat, render

PROPERTY = "C16"
LEVEL = "fault_enumeration"
RULE = ("cases = a generated class (random fields a,b, non-random c, a fixed-size random list with a foreach block, a dist, "
        "a random-size list named as a whole by unique(), a rand_attr sub-object, callbacks that raise when armed) and a generated history of constructions and "
        "randomizations with ONE fault injected at a generated position: (a) an exception raised by user code inside a "
        "constraint body during construction at statement k, also inside if_then / implies / foreach bodies; (b) inside a "
        "randomize_with body before / after statement k; (c) in pre_randomize / post_randomize of the top object or the "
        "sub-object; (d) a call made unsatisfiable (SolveFailure) with foreach and dist rewrites active, or aborted by the library for contradicting inline solve_order directives after the model was rewritten for the call; (e) a failing call made "
        "from pre_randomize of the enclosing call on its random sub-object and handled there (own shard, judged against the "
        "enumerated solutions and the callback counts of the enclosing call).  Oracle 1: right "
        "after the faulted call the six process-wide construction stacks are empty, no model object reachable from the "
        "object holds a solver handle, and no temporary override constraint remains in its constraint tree.  Oracle 2 "
        "(twin): the same history without the faulted call is run in a second session; both sessions re-seed right "
        "after the fault position and every later construction and randomization must give identical values or the same "
        "exception class.  non-trivial = the fault fired and at least two library calls follow it; distinct = distinct "
        "canonical case (fault kind, position, history)")
ASSUMPTIONS = [
    "field values left behind by the aborted call are not compared: both sessions assign the same values to every field after the fault position",
    "model introspection uses private attribute names; if they are absent the structural oracle degrades to 'not checked' (reported in evidence), never to a verdict",
]

CLASS_TMPL = '''
@vsc.randobj
class S(object):
    def __init__(self):
        self.x = vsc.rand_bit_t(3)
        self.boom_pre = False
        self.boom_post = False
    def pre_randomize(self):
        if self.boom_pre:
            raise RuntimeError("boom in sub pre_randomize")
    def post_randomize(self):
        if self.boom_post:
            raise RuntimeError("boom in sub post_randomize")

@vsc.randobj
class %(name)s(object):
    def __init__(self):
        self.a = vsc.rand_bit_t(3)
        self.b = vsc.rand_bit_t(3)
        self.c = vsc.bit_t(3)
        self.l = vsc.rand_list_t(vsc.bit_t(3), sz=3)
        self.r = vsc.randsz_list_t(vsc.bit_t(3))       # grown for solving, named as a whole by unique()
        self.s = vsc.rand_attr(S())
        self.boom_pre = False
        self.boom_post = False
    def pre_randomize(self):
        if self.boom_pre:
            raise RuntimeError("boom in pre_randomize")
    def post_randomize(self):
        if self.boom_post:
            raise RuntimeError("boom in post_randomize")
    @vsc.constraint
    def c0(self):
%(c0)s
    @vsc.constraint
    def c1(self):
        with vsc.foreach(self.l, idx=True) as i:
            self.l[i] < 6
        vsc.dist(self.b, [vsc.weight(0, 1), vsc.weight(vsc.rng(2, 5), 3), vsc.weight(7, 1)])
        self.s.x != self.a
        self.r.size <= 3
        vsc.unique(self.r)
        vsc.unique(self.l)
'''

FIELDS = [
    {"name": "a", "kind": "bit", "w": 3, "signed": False, "rand": True, "init": 0},
    {"name": "b", "kind": "bit", "w": 3, "signed": False, "rand": True, "init": 0},
    {"name": "c", "kind": "bit", "w": 3, "signed": False, "rand": False, "init": 2},
]
FAULTS = ["ctor_body", "ctor_if", "ctor_implies", "ctor_foreach", "inline_before", "inline_after", "inline_nested",
          "pre_top", "post_top", "pre_sub", "post_sub", "unsat", "unsat_inline_foreach", "unsat_sfdebug", "unsat_sfdebug_plain",
          "cyclic_order", "unsat_randsz"]


@hyp.composite
def cases(d):
    g = gen.G(d, FIELDS, {}, mul_max_w=3)
    c0 = [g.field_stmt(1) for _ in range(d.randint(1, 3))]
    fault = {"kind": d.choice(FAULTS), "k": d.randint(0, 3), "seed": d.seed()}
    pre = [["new"]] if d.chance(70) else []
    for _ in range(d.randint(0, 3)):
        pre.append(d.choice([["new"], ["rand", 0, d.seed()], ["rwith", 0, [g.field_stmt(0)], d.seed()]]))
    if not any(op[0] == "new" for op in pre):
        pre.insert(0, ["new"])
    post = []
    for _ in range(d.randint(2, 6)):
        r = d.randint(0, 99)
        if r < 25:
            post.append(["new"])
        elif r < 65:
            post.append(["rand", d.randint(0, 3), d.seed()])
        elif r < 90:
            post.append(["rwith", d.randint(0, 3), [g.field_stmt(0) for _ in range(d.randint(1, 2))], d.seed()])
        else:
            post.append(["newclass", [["order", ["a"], ["b"]], g.field_stmt(0)]])   # solve_order needs an idle scope stack
    return {"c0": c0, "fault": fault, "pre": pre, "post": post, "reseed": d.seed(),
            "assign": {"a": d.randint(0, 7), "b": d.randint(0, 7), "c": d.randint(0, 7)}}


def class_source(name, c0, raise_at=None, raise_ctx=None):
    stmts = copy.deepcopy(c0)
    if raise_at is not None:
        r = ["raise", "RuntimeError", "boom in constraint body"]
        if raise_ctx == "ctor_if":
            r = ["if", [[["bin", "<", ["f", "a"], ["lit", 4]], [["expr", ["bin", "<", ["f", "b"], ["lit", 7]]], r]]], None]
        elif raise_ctx == "ctor_implies":
            r = ["implies", ["bin", "<", ["f", "a"], ["lit", 4]], [r]]
        elif raise_ctx == "ctor_foreach":
            r = ["foreach", "l", "i", None, [["expr", ["bin", "<", ["el", "l", ["iv", "i"], None], ["lit", 7]]], r]]
        stmts.insert(min(raise_at, len(stmts)), r)
    out = []
    render.rbody(stmts, "self", 2, out)
    return CLASS_TMPL % {"name": name, "c0": "\n".join(out)}


def text_of(case):
    return class_source("T", case["c0"]) + "# fault: %s\n# before: %s\n# after: %s" % (
        cjson(case["fault"]), cjson(case["pre"]), cjson(case["post"]))


def V(kind, detail, case, extra=None):
    v = {"property": PROPERTY, "kind": kind, "detail": detail, "case": case, "text": text_of(case)}
    if extra:
        v["text"] += "\n# " + extra
    return v


def override_left(model):
    """paths of ConstraintOverrideModel objects still reachable from the model (None = cannot check)"""
    try:
        found = []
        seen = set()
        stack = [(model, "model")]
        while stack:
            o, p = stack.pop()
            if id(o) in seen:
                continue
            seen.add(id(o))
            if type(o).__name__ == "ConstraintOverrideModel":
                found.append(p)
            if isinstance(o, (list, tuple)):
                for i, v in enumerate(o):
                    stack.append((v, "%s[%d]" % (p, i)))
            elif isinstance(o, dict):
                for k, v in o.items():
                    stack.append((v, "%s[%r]" % (p, k)))
            elif (type(o).__module__ or "").startswith("vsc."):
                for k, v in list(getattr(o, "__dict__", {}).items()):
                    if k in ("parent",):
                        continue
                    stack.append((v, p + "." + k))
        return found
    except Exception:
        return None


class Session:
    def __init__(self, case, with_fault):
        self.vsc = import_vsc()
        self.case = case
        self.with_fault = with_fault
        import enum as _enum
        self.ns = {"vsc": self.vsc, "enum": _enum}
        reset_library()
        exec(compile(class_source("T", case["c0"]), "<pvs-c16>", "exec"), self.ns)
        self.objs = []
        self.trace = []
        self.nclass = 0
        self.fired = False
        self.oracle1 = []      # structural findings right after the fault

    def state(self, o):
        try:
            return (int(o.a), int(o.b), int(o.c), tuple(int(x) for x in o.l), int(o.s.x), len(o.r), tuple(int(x) for x in o.r))
        except Exception as e:
            return ("unreadable", type(e).__name__)

    def op(self, op):
        vsc = self.vsc
        kind = op[0]
        try:
            if kind == "new":
                self.objs.append(self.ns["T"]())
                self.trace.append(("new", self.state(self.objs[-1])))
            elif kind == "newclass":
                self.nclass += 1
                name = "N%d" % self.nclass
                src = class_source(name, op[1])
                src = src[src.index("@vsc.randobj\nclass %s" % name):]
                exec(compile(src, "<pvs-c16-new>", "exec"), self.ns)
                o = self.ns[name]()
                o.set_randstate(flat.mk_randstate(self.case["reseed"]))
                o.randomize()
                self.trace.append(("newclass", self.state(o)))
            elif kind in ("rand", "rwith"):
                if not self.objs:
                    self.trace.append((kind, "no object"))
                    return
                o = self.objs[op[1] % len(self.objs)]
                if kind == "rand":
                    o.set_randstate(flat.mk_randstate(op[2]))
                    o.randomize()
                else:
                    o.set_randstate(flat.mk_randstate(op[3]))
                    render.call_inline(self.ns, o, op[2], "randomize_with")
                self.trace.append((kind, self.state(o)))
        except Exception as e:
            ei = flat.defuse(e)
            for o in self.objs:
                flat.scrub(o)
            self.trace.append((kind, "raised " + ei.tname))

    def inject(self):
        """perform the faulted call (session A only); returns after recording structural findings"""
        vsc = self.vsc
        f = self.case["fault"]
        kind = f["kind"]
        o = self.objs[-1] if self.objs else None
        raised = None
        try:
            r_before = [int(x) for x in o.r] if o is not None else None
        except Exception:
            r_before = None
        try:
            if kind.startswith("ctor"):
                src = class_source("Tbad", self.case["c0"], f["k"], kind)
                src = src[src.index("@vsc.randobj\nclass Tbad"):]
                exec(compile(src, "<pvs-c16-bad>", "exec"), self.ns)
                self.ns["Tbad"]()
            elif kind.startswith("inline"):
                stm = [["expr", ["bin", "<", ["f", "a"], ["lit", 7]]], ["expr", ["bin", "!=", ["f", "b"], ["f", "a"]]]]
                r = ["raise", "RuntimeError", "boom in randomize_with body"]
                if kind == "inline_before":
                    stm.insert(0, r)
                elif kind == "inline_after":
                    stm.append(r)
                else:
                    stm.insert(1, ["if", [[["bin", "<", ["f", "a"], ["lit", 4]], [["expr", ["bin", "<", ["f", "b"], ["lit", 6]]], r]]], None])
                o.set_randstate(flat.mk_randstate(f["seed"]))
                render.call_inline(self.ns, o, stm, "randomize_with")
            elif kind in ("pre_top", "post_top", "pre_sub", "post_sub"):
                tgt = o if kind.endswith("top") else o.s
                attr = "boom_pre" if kind.startswith("pre") else "boom_post"
                object.__setattr__(tgt, attr, True)
                try:
                    o.set_randstate(flat.mk_randstate(f["seed"]))
                    o.randomize()
                finally:
                    object.__setattr__(tgt, attr, False)
            elif kind == "unsat_sfdebug_plain":
                # plain contradiction with solve_fail_debug=1: the diagnostics builder completes normally; the other,
                # independently satisfiable rand sets of the object (dist field, list elements) take part in its run
                o.set_randstate(flat.mk_randstate(f["seed"]))
                render.call_inline(self.ns, o, [["expr", ["bin", "<", ["f", "a"], ["lit", 2]]], ["expr", ["bin", ">", ["f", "a"], ["lit", 5]]]],
                                   "randomize_with", kw={"solve_fail_debug": 1})
            elif kind == "unsat_sfdebug":
                # unsatisfiable call with solve_fail_debug=1 (the diagnostics builder runs a second solver instance)
                o.set_randstate(flat.mk_randstate(f["seed"]))
                render.call_inline(self.ns, o, [["expr", ["bin", "&", ["bin", "&", ["bin", "<", ["f", "a"], ["lit", 7]], ["bin", "==", ["f", "c"], ["f", "c"]]],
                                                          ["bin", "<", ["bin", "-", ["f", "a"], ["slit", -7, 5]], ["ps", "a", 1, 0]]]],
                                                ["expr", ["bin", ">", ["f", "a"], ["lit", 6]]], ["expr", ["bin", "<", ["f", "a"], ["lit", 3]]]],
                                   "randomize_with", kw={"solve_fail_debug": 1})
            elif kind == "cyclic_order":
                # a user error that the library reports after it has rewritten the model for the call: contradicting
                # ordering directives (toposort raises CircularDependencyError)
                o.set_randstate(flat.mk_randstate(f["seed"]))
                render.call_inline(self.ns, o, [["order", ["a"], ["b"]], ["order", ["b"], ["a"]],
                                                ["expr", ["bin", "!=", ["f", "b"], ["f", "a"]]]], "randomize_with")
            elif kind == "unsat_randsz":
                # the failure is in the rand set of the random-size list (grown for solving, its size named through unique())
                o.set_randstate(flat.mk_randstate(f["seed"]))
                render.call_inline(self.ns, o, [["foreach", "r", None, "e", [["expr", ["bin", ">", ["it", "e"], ["lit", 7]]]]]], "randomize_with")
            elif kind == "unsat":
                o.set_randstate(flat.mk_randstate(f["seed"]))
                render.call_inline(self.ns, o, [["expr", ["bin", "<", ["f", "a"], ["lit", 2]]], ["expr", ["bin", ">", ["f", "a"], ["lit", 5]]]],
                                   "randomize_with")
            else:
                o.set_randstate(flat.mk_randstate(f["seed"]))
                render.call_inline(self.ns, o, [["foreach", "l", "i", None, [["expr", ["bin", ">", ["el", "l", ["iv", "i"], None], ["lit", 6]]]]],
                                                ["expr", ["bin", "==", ["f", "b"], ["lit", 1]]]], "randomize_with")
        except Exception as e:
            raised = flat.defuse(e)
        self.fired = raised is not None
        # ---- oracle 1: shared construction state idle, no leftovers on the object
        st = library_state()
        busy = {k: v for k, v in st.items() if v}
        if busy:
            self.oracle1.append(("construction_state_not_idle", "process-wide construction state left non-empty after the call ended",
                                 "after %s (%s): %s" % (kind, raised, busy)))
        if raised is not None and r_before is not None and not kind.startswith(("post_", "ctor")):
            # a call that failed before anything was solved leaves the random-size list as it was
            try:
                r_now = (len(o.r), o.r.size, [int(x) for x in o.r])
            except Exception as e_:
                r_now = repr(e_)
            if r_now != (len(r_before), len(r_before), r_before) and kind not in ("pre_top", "pre_sub", "inline_before", "inline_after", "inline_nested"):
                self.oracle1.append(("list_left_grown", "a random-size list keeps the elements it was grown by for the failed call",
                                     "after %s (%s): list r held %s, now (len, size, elements) = %s" % (kind, raised, r_before, r_now)))
        for ob in self.objs:
            try:
                m = ob.get_model()
                h = solver_handles(m)
                if h:
                    self.oracle1.append(("solver_handle_left", "a solver handle is left in the object's model after the call ended",
                                         "after %s (%s): %s" % (kind, raised, h[:3])))
                ov = override_left(m)
                if ov:
                    self.oracle1.append(("override_constraint_left", "a temporary (override) constraint is left in the object's constraint tree",
                                         "after %s (%s): %s" % (kind, raised, ov[:3])))
            except Exception:
                pass
        # now make the harness robust for the rest of the session
        for ob in self.objs:
            flat.scrub(ob)

    def equalize(self):
        """both sessions: same seeds and same field values from here on"""
        random.seed(self.case["reseed"])
        for i, o in enumerate(self.objs):
            try:
                o.set_randstate(flat.mk_randstate(self.case["reseed"] + i))
                for k, v in self.case["assign"].items():
                    setattr(o, k, v)
                o.s.x = 1
                for j in range(len(o.l)):
                    o.l[j] = j
                for j in range(len(o.r)):       # (same values; the LENGTH is whatever the session left)
                    o.r[j] = j
            except Exception:
                pass

    def run(self):
        for op in self.case["pre"]:
            self.op(op)
        mark = len(self.trace)
        if self.with_fault:
            self.inject()
        else:
            # keep process-wide counters comparable: nothing to do
            pass
        self.equalize()
        for op in self.case["post"]:
            self.op(op)
        return self.trace[mark:]


def run_case(case):
    if case.get("nested_call"):
        # (e) a failed call made from inside a callback of the enclosing call and handled there (shared with C17/C02)
        from . import c17
        vios, info = c17.run_nested(case)
        return [dict(v, property=PROPERTY, detail=v["detail"] + " [nested failing call handled in pre_randomize]") for v in vios], \
            dict(info, fired=True, later_ops=2 if info.get("nested_calls") else 0, nested=True)
    info = {}
    a = Session(case, True)
    ta = a.run()
    info["fired"] = a.fired
    left = reset_library()
    b = Session(case, False)
    tb = b.run()
    reset_library()
    f = case["fault"]
    vios = []
    seen = set()
    for kind, detail, extra in a.oracle1:
        if kind not in seen:
            seen.add(kind)
            vios.append(V(kind, "%s [%s]" % (detail, f["kind"]), case, extra))
    if ta != tb:
        k = 0
        while k < min(len(ta), len(tb)) and ta[k] == tb[k]:
            k += 1
        vios.append(V("later_call_differs", "a later construction/randomization behaves differently from the session without the failed call [%s]" % f["kind"],
                      case, "first difference at later op #%d %s: with fault %s, without %s"
                      % (k, cjson(case["post"][k]) if k < len(case["post"]) else "?", ta[k] if k < len(ta) else None, tb[k] if k < len(tb) else None)))
    info["later_ops"] = len(case["post"])
    return vios, info


def body(case, acc):
    vios, info = run_case(case)
    nt = info.get("fired") and info.get("later_ops", 0) >= 2
    if case.get("nested_call"):
        acc.case(case, bool(nt), sample=cjson(case))
        acc.label("fault:nested failing call handled in a callback")
        return vios
    acc.case(case, bool(nt), sample=text_of(case))
    acc.label("fault:" + case["fault"]["kind"])
    if not info.get("fired"):
        acc.label("fault did not fire")
    return vios


def shards(tier):
    return [{"i": i, "n": 60 if tier == "quick" else 2500} for i in range(15)] + \
        [{"kind": "nested", "i": 0, "n": 60 if tier == "quick" else 1500}]


def run_shard(spec, seed, tier, acc):
    if spec.get("kind") == "nested":
        from . import c17
        hyp.drive(c17.nested_cases(fail_only=True), body, seed, spec["n"], acc)
        return
    hyp.drive(cases(), body, seed, spec["n"], acc)


def replay(case):
    return run_case(case)[0]
