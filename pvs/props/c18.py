"""C18 - field values stay within their declared type on every access path.

Generator: exhaustive enumeration of (width<=10, signedness, value in [-2^(w+1), 2^(w+1)], write path, read path),
exhaustive part-select (width<=6 writes / <=8 reads), Hypothesis for widths 11..64 and for enums.
Oracle: wrap(v, w, signed) computed on Python integers; bit arithmetic for part-selects.
"""
import enum
import itertools

from hypothesis import strategies as st

from ..core import hyp
from ..core.util import import_vsc, reset_library, exc_sig

PROPERTY = "C18"
LEVEL = "exploration"
RULE = ("cases = (width, signedness, written integer, write path, read paths); exhaustive for widths 1..10 over every "
        "integer in [-2^(w+1), 2^(w+1)] and 9 write paths, plus (w<=8) every value of the type written by the SOLVER into a "
        "random scalar and a random list element (pinned by an inline constraint) and read back through every path, exhaustive part-select read (w<=8) and write (w<=6: every "
        "value, hi>=lo, written value), Hypothesis for widths 11..64 (boundary-biased) and enum fields; a case is "
        "non-trivial when the written integer lies outside the field's type (reduction needed), or for part-selects "
        "when the span is a proper sub-range of the field; distinct = distinct (w, signed, value, path[, hi, lo, pv])")
ASSUMPTIONS = [
    "reference: wrap(v,w,signed) = v mod 2^w, minus 2^w when signed and bit w-1 set",
    "part-select write with a value wider than the span: only 'bits outside the span unchanged' is asserted",
    "enum constructor initial values are not asserted (documented TODO); .val is compared for IntEnum only",
    "type_bool is not generated (cannot be instantiated); bool_t is",
]

WRITE_PATHS = ["ctor", "set_val", "val", "attr", "l_append", "l_extend", "l_setitem", "l_init", "l_assign"]


def wrap(v, w, signed):
    v &= (1 << w) - 1
    if signed and (v >> (w - 1)) & 1:
        v -= 1 << w
    return v


def in_type(v, w, signed):
    return (-(1 << (w - 1)) <= v < (1 << (w - 1))) if signed else (0 <= v < (1 << w))


class Ctx:
    """Per (w, signed) reusable objects."""

    def __init__(self, w, signed):
        vsc = import_vsc()
        self.vsc = vsc
        self.w, self.signed = w, signed
        self.T = vsc.int_t if signed else vsc.bit_t
        self.f = self.T(w)
        self.f.get_model()
        T = self.T

        @vsc.randobj
        class Holder(object):
            def __init__(self):
                self.a = T(w)
                self.l = vsc.list_t(T(w))
                self.l2 = vsc.list_t(T(w), sz=2)

        self.o = Holder()

        @vsc.randobj
        class RHolder(object):
            def __init__(self):
                self.a = (vsc.rand_int_t if signed else vsc.rand_bit_t)(w)
                self.l = vsc.rand_list_t(T(w), sz=2)

        self.r = RHolder()

    def write_read(self, path, v):
        """Perform the write, return dict read-path -> observed value."""
        vsc = self.vsc
        w, T = self.w, self.T
        out = {}
        if path == "ctor":
            f = T(w, i=v)
            out["get_val"] = f.get_val()
            out["val"] = f.val
        elif path == "set_val":
            self.f.set_val(v)
            out["get_val"] = self.f.get_val()
            out["val"] = self.f.val
        elif path == "val":
            self.f.val = v
            out["get_val"] = self.f.get_val()
            out["val"] = self.f.val
        elif path == "attr":
            self.o.a = v
            out["attr"] = self.o.a
            with vsc.raw_mode():
                fo = self.o.a
            out["get_val"] = fo.get_val()
            out["val"] = fo.val
        elif path in ("l_append", "l_extend", "l_assign", "l_init", "l_setitem"):
            if path == "l_init":
                l = vsc.list_t(T(w), init=[0, v])
                l.get_model()
                idx = 1
            else:
                l = self.o.l
                if path == "l_append":
                    l.clear()
                    l.append(v)
                    idx = 0
                elif path == "l_extend":
                    l.clear()
                    l.extend([0, v, 0])
                    idx = 1
                elif path == "l_assign":
                    self.o.l = [v, 0]
                    l = self.o.l
                    idx = 0
                else:
                    l = self.o.l2
                    l[1] = v
                    idx = 1
            out["index"] = l[idx]
            out["iter"] = list(l)[idx]
            out["len_ok"] = (len(l) == len(list(l)) == l.size)
            # procedural membership reads the elements too: the value the list exposes is 'in' the list
            wv = wrap(v, w, self.signed)
            out["contains"] = wv if (wv in l) else None
        elif path in ("solve", "l_solve"):
            # the value is written by the solver: pinned through an inline constraint (v is in the field's type)
            from ..model import flat
            self.r.set_randstate(flat.mk_randstate(v & 0xffff))
            lit = vsc.signed(v, w) if self.signed else vsc.unsigned(v, w)
            if path == "solve":
                with self.r.randomize_with() as it:
                    it.a == lit
                out["attr"] = self.r.a
                with vsc.raw_mode():
                    fo = self.r.a
                out["get_val"] = fo.get_val()
                out["val"] = fo.val
            else:
                with self.r.randomize_with() as it:
                    it.l[1] == lit
                l = self.r.l
                out["index"] = l[1]
                out["iter"] = list(l)[1]
                out["len_ok"] = (len(l) == len(list(l)) == l.size)
        else:
            raise ValueError(path)
        return out


SOLVE_PATHS = ["solve", "l_solve"]


def check_value(ctx, path, v, acc, sample=False):
    """returns list of violations for one (path, v)"""
    w, signed = ctx.w, ctx.signed
    exp = wrap(v, w, signed)
    case = {"sub": "value", "w": w, "signed": signed, "v": v, "path": path}
    vios = []
    try:
        got = ctx.write_read(path, v)
    except Exception as e:
        vios.append(dict(property=PROPERTY, kind="library_exception", detail="%s via %s" % (exc_sig(e), path), case=case))
        reset_library()
        return vios
    for rp, g in got.items():
        if rp == "len_ok":
            if not g:
                vios.append(dict(property=PROPERTY, kind="list_length_disagree", detail="write=%s" % path, case=case))
            continue
        try:
            gi = int(g)
        except Exception:
            gi = None
        if gi != exp:
            kind = "out_of_type" if (gi is None or not in_type(gi, w, signed)) else "wrong_value"
            vios.append(dict(property=PROPERTY, kind=kind,
                             detail="write=%s read=%s %s" % (path, rp, "signed" if signed else "unsigned"), case=case,
                             text="%s%d: wrote %d via %s, read %r via %s, expected %d"
                                  % ("int" if signed else "bit", w, v, path, g, rp, exp)))
    return vios


# ------------------------------------------------------------------------------------------------
def ps_read_all(ctx, v, hi, lo):
    vsc = ctx.vsc
    out = {}
    ctx.f.set_val(v)
    if hi == lo:
        out["field[i]"] = ctx.f[hi]
        out["get_val()[i]"] = ctx.f.get_val()[hi]
    out["field[hi:lo]"] = ctx.f[hi:lo]
    out["get_val()[hi:lo]"] = ctx.f.get_val()[hi:lo]
    ctx.o.a = v
    with vsc.raw_mode():
        out["raw obj.a[hi:lo]"] = ctx.o.a[hi:lo]
    return out


def check_ps_read(ctx, v, hi, lo):
    w, signed = ctx.w, ctx.signed
    case = {"sub": "ps_read", "w": w, "signed": signed, "v": v, "hi": hi, "lo": lo}
    exp = ((v & ((1 << w) - 1)) >> lo) & ((1 << (hi - lo + 1)) - 1)
    vios = []
    try:
        got = ps_read_all(ctx, v, hi, lo)
    except Exception as e:
        reset_library()
        return [dict(property=PROPERTY, kind="library_exception", detail="%s via part-select read" % exc_sig(e), case=case)]
    for rp, g in got.items():
        if int(g) != exp:
            vios.append(dict(property=PROPERTY, kind="partselect_read", detail="read=%s" % rp.split("[")[0].split(" ")[0], case=case,
                             text="%s%d=%d: [%d:%d] via %s gave %r, expected %d" % ("int" if signed else "bit", w, v, hi, lo, rp, g, exp)))
    return vios


def check_ps_write(ctx, v, hi, lo, pv, single):
    w, signed = ctx.w, ctx.signed
    case = {"sub": "ps_write", "w": w, "signed": signed, "v": v, "hi": hi, "lo": lo, "pv": pv, "single": single}
    span = hi - lo + 1
    smask = ((1 << span) - 1) << lo
    bits = v & ((1 << w) - 1)
    f = ctx.f
    try:
        f.set_val(v)
        if single:
            f[hi] = pv
        else:
            f[hi:lo] = pv
        reads = {"val": f.val, "get_val": f.get_val()}
    except Exception as e:
        reset_library()
        return [dict(property=PROPERTY, kind="library_exception", detail="%s via part-select write" % exc_sig(e), case=case)]
    vios = []
    for rp, g in reads.items():
        g = int(g)
        if not in_type(g, w, signed):
            vios.append(dict(property=PROPERTY, kind="out_of_type", detail="after part-select write read=%s %s"
                             % (rp, "signed" if signed else "unsigned"), case=case,
                             text="%s%d=%d: [%d:%d]=%d then %s -> %d" % ("int" if signed else "bit", w, v, hi, lo, pv, rp, g)))
            continue
        gb = g & ((1 << w) - 1)
        if (gb & ~smask) != (bits & ~smask):
            vios.append(dict(property=PROPERTY, kind="partselect_write_outside", detail="bits outside span changed (%s)"
                             % ("bit" if single else "slice"), case=case,
                             text="%s%d=%d: [%d:%d]=%d then %s -> %d" % ("int" if signed else "bit", w, v, hi, lo, pv, rp, g)))
        elif pv < (1 << span) and ((gb & smask) >> lo) != pv:
            vios.append(dict(property=PROPERTY, kind="partselect_write_inside", detail="selected bits not the written value (%s)"
                             % ("bit" if single else "slice"), case=case,
                             text="%s%d=%d: [%d:%d]=%d then %s -> %d" % ("int" if signed else "bit", w, v, hi, lo, pv, rp, g)))
    return vios


# ------------------------------------------------------------------------------------------------
class IE(enum.IntEnum):
    A = -3
    B = 0
    C = 5
    D = 100
    E = -70000


class PE(enum.Enum):
    X = enum.auto()
    Y = enum.auto()
    Z = enum.auto()


def check_enum(case):
    vsc = import_vsc()
    E = IE if case["enum"] == "int" else PE
    members = list(E)
    seq = [members[i % len(members)] for i in case["seq"]]
    path = case["path"]
    vios = []

    def bad(what, e, got):
        vios.append(dict(property=PROPERTY, kind="enum_value", detail="%s enum=%s" % (what, case["enum"]), case=case,
                         text="wrote %r, %s gave %r" % (e, what, got)))
    try:
        if path in ("set_val", "attr", "val"):
            @vsc.randobj
            class H(object):
                def __init__(self):
                    self.e = vsc.enum_t(E)
                    self.r = vsc.rand_enum_t(E)
            o = H()
            f = vsc.enum_t(E)
            for e in seq:
                if path == "set_val":
                    f.set_val(e)
                    if f.get_val() is not e:
                        bad("get_val", e, f.get_val())
                    if case["enum"] == "int" and f.val != e:
                        bad("val", e, f.val)
                elif path == "val":
                    if case["enum"] != "int":
                        continue
                    f.val = e
                    if f.get_val() is not e:
                        bad("get_val after .val=", e, f.get_val())
                else:
                    o.e = e
                    o.r = e
                    if o.e is not e:
                        bad("attr", e, o.e)
                    if o.r is not e:
                        bad("attr(rand)", e, o.r)
            # default value is a declared enumerator
            if not isinstance(vsc.enum_t(E).get_val(), E):
                bad("default", None, vsc.enum_t(E).get_val())
        elif path in ("ctor_assign", "ctor_assign_derived"):
            # the field is declared and then written INSIDE the owner's constructor (in the class itself or in the
            # __init__ of a derived class), before the object's model exists; read after construction and after later writes
            first = seq[0]

            @vsc.randobj
            class HC(object):
                def __init__(self, v=None):
                    self.e = vsc.enum_t(E)
                    self.r = vsc.rand_enum_t(E)
                    self.a = vsc.attr(vsc.enum_t(E))
                    if v is not None:
                        self.e = v
                        self.r = v
                        self.a = v
            if path == "ctor_assign":
                o = HC(first)
            else:
                @vsc.randobj
                class HD(HC):
                    def __init__(self, v):
                        super().__init__()
                        self.e = v
                        self.r = v
                        self.a = v
                o = HD(first)
            for nm in ("e", "r", "a"):
                got = getattr(o, nm)
                if got is not first:
                    bad("attr %s after a write in the constructor" % nm, first, got)
            for e in seq[1:]:
                o.e = e
                o.r = e
                if o.e is not e or o.r is not e:
                    bad("attr after construction", e, (o.e, o.r))
        else:
            @vsc.randobj
            class HL(object):
                def __init__(self):
                    self.l = vsc.list_t(vsc.enum_t(E))
            o = HL()
            if path == "l_append":
                for e in seq:
                    o.l.append(e)
            elif path == "l_extend":
                o.l.extend(seq)
            elif path == "l_assign":
                o.l = list(seq)
            elif path == "l_setitem":
                o.l.extend([members[0]] * len(seq))
                for i, e in enumerate(seq):
                    o.l[i] = e
            if len(o.l) != len(seq):
                bad("len", len(seq), len(o.l))
            else:
                for i, e in enumerate(seq):
                    if o.l[i] is not e:
                        bad("index", e, o.l[i])
                it = list(o.l)
                for i, e in enumerate(seq):
                    if it[i] != e and it[i] is not e:
                        bad("iter", e, it[i])
    except Exception as e:
        reset_library()
        vios.append(dict(property=PROPERTY, kind="library_exception", detail="%s via enum %s" % (exc_sig(e), path), case=case))
    return vios


@hyp.composite
def enum_cases(d):
    return {"sub": "enum", "enum": d.choice(["int", "plain"]),
            "path": d.choice(["set_val", "attr", "val", "l_append", "l_extend", "l_assign", "l_setitem", "ctor_assign", "ctor_assign_derived"]),
            "seq": [d.randint(0, 4) for _ in range(d.randint(1, 5))]}


@hyp.composite
def wide_cases(d):
    w = d.randint(11, 64)
    signed = d.chance(50)
    k = d.randint(0, 5)
    base = [0, 1 << (w - 1), 1 << w, (1 << w) - 1, -(1 << (w - 1)), -(1 << w)][k]
    v = base + d.randint(-3, 3) if d.chance(60) else d.randint(-(1 << (w + 2)), 1 << (w + 2))
    c = {"sub": d.weighted([(6, "value"), (2, "ps_read"), (2, "ps_write")]), "w": w, "signed": signed, "v": v}
    if c["sub"] == "value":
        c["path"] = d.choice(WRITE_PATHS)
    else:
        hi = d.randint(0, w - 1)
        lo = d.randint(max(0, hi - 16), hi)
        c["hi"], c["lo"] = hi, lo
        c["v"] = wrap(v, w, signed)
        if c["sub"] == "ps_write":
            c["single"] = (hi == lo) and d.chance(50)
            c["pv"] = d.randint(0, (1 << (hi - lo + 1)) - 1) if not c["single"] else d.randint(0, 1)
    return c


_CTX = {}


def run_case(case):
    sub = case["sub"]
    if sub == "enum":
        return check_enum(case)
    key = (case["w"], case["signed"])
    ctx = _CTX.get(key)
    if ctx is None:
        if len(_CTX) > 64:
            _CTX.clear()
        ctx = _CTX[key] = Ctx(*key)
    if sub == "value":
        return check_value(ctx, case["path"], case["v"], None)
    if sub == "ps_read":
        return check_ps_read(ctx, case["v"], case["hi"], case["lo"])
    if sub == "ps_write":
        return check_ps_write(ctx, case["v"], case["hi"], case["lo"], case["pv"], case.get("single", False))
    raise ValueError(sub)


def replay(case):
    return run_case(case)


# ------------------------------------------------------------------------------------------------
def shards(tier):
    out = []
    for w in range(1, 11):
        for s in (False, True):
            out.append({"kind": "values", "w": w, "signed": s})
    for w in range(1, 9):
        for s in (False, True):
            out.append({"kind": "partsel", "w": w, "signed": s})
    n = 4 if tier == "quick" else 16
    for i in range(n):
        out.append({"kind": "wide", "i": i, "n": 1500 if tier == "quick" else 20000})
    out.append({"kind": "enum", "n": 300 if tier == "quick" else 3000})
    return out


def _first_per_sig(vios, seen, acc):
    from ..core import findings
    for v in vios:
        sig = (v["kind"], v["detail"])
        if sig in seen:
            continue
        seen.add(sig)
        key = findings.tolerated(PROPERTY, v["kind"], v["detail"], v["case"])
        if key is not None:
            acc.tolerated[key] += 1
        else:
            acc.violations.append(v)


def run_shard(spec, seed, tier, acc):
    kind = spec["kind"]
    if kind == "values":
        w, signed = spec["w"], spec["signed"]
        ctx = Ctx(w, signed)
        seen = set()
        lim = 1 << (w + 1)
        for v in range(-lim, lim + 1):
            nt = not in_type(v, w, signed)
            for path in WRITE_PATHS:
                vios = check_value(ctx, path, v, acc)
                acc.evaluations += 1
                if nt:
                    acc.nontrivial_enum += 1
                if vios:
                    _first_per_sig(vios, seen, acc)
        if w <= 8:
            # written by the solver (every value of the type), read back through every path
            lo_t, hi_t = (-(1 << (w - 1)), (1 << (w - 1))) if signed else (0, 1 << w)
            for v in range(lo_t, hi_t):
                for path in SOLVE_PATHS:
                    vios = check_value(ctx, path, v, acc)
                    acc.evaluations += 1
                    if v < 0 or (v >> (w - 1)) & 1:
                        acc.nontrivial_enum += 1
                    if vios:
                        _first_per_sig(vios, seen, acc)
            acc.label("values written by the solver w=%d" % w, (hi_t - lo_t) * len(SOLVE_PATHS))
        acc.label("values w=%d" % w, (2 * lim + 1) * len(WRITE_PATHS))
        acc.exhaustive = True
        if w == 3 and signed:
            acc.samples.append({"w": 3, "signed": True, "v": 13, "path": "l_setitem", "expected_read": wrap(13, 3, True)})
    elif kind == "partsel":
        w, signed = spec["w"], spec["signed"]
        ctx = Ctx(w, signed)
        seen = set()
        lo_t, hi_t = (-(1 << (w - 1)), (1 << (w - 1))) if signed else (0, 1 << w)
        for v in range(lo_t, hi_t):
            for hi in range(w):
                for lo in range(hi + 1):
                    nt = (hi - lo + 1) < w
                    vios = check_ps_read(ctx, v, hi, lo)
                    acc.evaluations += 1
                    acc.nontrivial_enum += 1 if nt else 0
                    if vios:
                        _first_per_sig(vios, seen, acc)
                    if w <= 6:
                        span = hi - lo + 1
                        for pv in range(0, 1 << min(span + 1, 7)):
                            singles = (False, True) if (hi == lo and pv <= 1) else (False,)
                            for single in singles:
                                vios = check_ps_write(ctx, v, hi, lo, pv, single)
                                acc.evaluations += 1
                                acc.nontrivial_enum += 1 if nt else 0
                                if vios:
                                    _first_per_sig(vios, seen, acc)
        acc.label("partsel w=%d" % w)
        acc.exhaustive = True
        if w == 4 and not signed:
            acc.samples.append({"w": 4, "signed": False, "v": 10, "write": "f[2:1] = 3", "expected": 14})
    elif kind == "wide":
        def body(case, acc):
            vios = run_case(case)
            nt = (case["sub"] != "value") or not in_type(case["v"], case["w"], case["signed"])
            acc.case(case, nt, sample=case)
            acc.label("wide:" + case["sub"])
            return vios
        hyp.drive(wide_cases(), body, seed, spec["n"], acc, shallow=False)
    elif kind == "enum":
        def body(case, acc):
            vios = run_case(case)
            acc.case(case, len(set(case["seq"])) > 1, sample=case)
            acc.label("enum:" + case["enum"] + ":" + case["path"])
            return vios
        hyp.drive(enum_cases(), body, seed, spec["n"], acc, shallow=False)
