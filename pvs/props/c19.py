"""C19 - wildcard bins match exactly the values that agree with the pattern."""
from ..core import hyp, findings
from ..core.util import cjson
from ..model import cov
from . import c10

PROPERTY = "C19"
LEVEL = "exploration"
RULE = ("(1) exhaustive: every (value, mask) pair of w bits (w<=6 quick, w<=8 thorough) as a single wildcard bin and as a "
        "wildcard bin array, sampled with every value of the w-bit coverpoint; (2) Hypothesis: string patterns in "
        "hex/octal/binary with x X ? _ at any digit, 1-3 patterns per bin, (value, mask) tuples, arrays with and without a "
        "count, every sample value of the type.  Oracle: v hits iff (v ^ value) & mask == 0 for some pattern; array bins = "
        "partition(ascending matching values, n).  non-trivial = the pattern has a wildcard and a fixed bit and the "
        "wildcard bits are not a contiguous low group, or the top digit is a wildcard; distinct = distinct pattern sets")
ASSUMPTIONS = [
    "string patterns span the coverpoint's width (bits above the type width in the top digit are 0 or wildcard)",
    "'agrees on every non-wildcard bit' is read as (v ^ value) & mask == 0 also when value has bits outside mask (labelled class)",
    "wildcard arrays given as (value, mask) tuples whose mask does not reach the type's top bit: see known finding",
]


@findings.predicate("c19_tuple_array_wildcard_above_mask")
def pred_tuple_array(case):
    """some wildcard *array* holds a (value, mask) tuple whose mask does not reach the coverpoint's top bit"""
    w = case["cg"]["params"][0]["type"]["w"]
    for b in case["cg"]["cps"][0].get("bins") or []:
        if b["kind"] == "wildarr":
            for p in b["pats"]:
                if isinstance(p, dict) and not ((p["vm"][1] >> (w - 1)) & 1):
                    return True
    return False


def cg_for(w, bins, abm=64):
    return {"name": "CG", "params": [{"name": "a", "type": {"kind": "bit", "w": w}}],
            "options": {"auto_bin_max": abm}, "cps": [{"name": "cp", "target": "a", "bins": bins}]}


def case_for(w, bins, order=None):
    vals = list(range(1 << w)) if order is None else order
    return {"cg": cg_for(w, bins), "enums": {}, "samples": [[v, 1] for v in vals]}


# ------------------------------------------------------------------------------------------------
def gen_pattern(d, w):
    """string pattern covering w bits"""
    base = d.choice(["0b", "0x", "0o"])
    bits = {"0b": 1, "0x": 4, "0o": 3}[base]
    nd = (w + bits - 1) // bits
    digs = []
    for i in range(nd):
        top = (i == 0)
        room = w - (nd - 1) * bits if top else bits     # significant bits in this digit
        if d.chance(35) and room == bits:
            # (a wildcard top digit wider than the type would name values outside it: not generated)
            digs.append(d.choice(["x", "X", "?"]))
        else:
            digs.append("%x" % d.randint(0, (1 << room) - 1))
    s = base
    for i, c in enumerate(digs):
        s += c
        if i + 1 < len(digs) and d.chance(15):
            s += "_"
    if d.chance(20):
        s = s[0] + s[1].upper() + s[2:]
    return s


def gen_vm(d, w, subset_ok):
    mask = d.randint(0, (1 << w) - 1)
    value = d.randint(0, (1 << w) - 1)
    if subset_ok:
        value &= mask
    return {"vm": [value, mask]}


@hyp.composite
def cases(d):
    w = d.weighted([(3, 4), (2, 3), (2, 5), (1, 1), (1, 2), (2, 6), (2, 8), (1, 7)])
    bins = []
    for i in range(d.randint(1, 3)):
        kind = d.choice(["wild", "wildarr"])
        pats = []
        for _ in range(d.randint(1, 3)):
            if d.chance(65):
                pats.append(gen_pattern(d, w))
            else:
                vm = gen_vm(d, w, subset_ok=d.chance(60))
                if kind == "wildarr" and not d.chance(10):
                    vm["vm"][1] |= 1 << (w - 1)      # known finding: arrays cannot see wildcards above the mask
                pats.append(vm)
        b = {"name": "w%d" % i, "kind": kind, "pats": pats}
        if kind == "wildarr":
            b["n"] = d.choice([None, None, 1, 2, 3, 4, 7])
        bins.append(b)
    tv = list(range(1 << w))
    order = d.sample(tv, len(tv))
    for _ in range(d.randint(0, 4)):
        order.append(d.choice(tv))
    case = case_for(w, bins, order)
    if d.chance(30):
        # ignore / illegal bins beside the wildcard bins: the values they name are removed from the wildcard bins too
        cp = case["cg"]["cps"][0]
        key = d.choice(["ignore", "illegal"])
        items = []
        for _ in range(d.randint(1, 2)):
            a = d.randint(0, (1 << w) - 1)
            items.append(a if d.chance(60) else [a, min((1 << w) - 1, a + d.randint(0, 3))])
        cp[key] = [{"name": "x0", "items": items}]
    return case


def has_class(case, fn):
    for b in case["cg"]["cps"][0]["bins"]:
        for p in b["pats"]:
            if fn(b, p):
                return True
    return False


def nontrivial(case):
    w = case["cg"]["params"][0]["type"]["w"]
    full = (1 << w) - 1

    def nt(b, p):
        val, msk = cov.parse_pattern(p)
        msk &= full
        wild = (~msk) & full
        if wild == 0 or msk == 0:
            return False
        top_wild = not (msk >> (w - 1)) & 1
        low_group = (wild & (wild + 1)) == 0          # wildcard bits are exactly the low k bits
        return top_wild or not low_group
    return has_class(case, nt)


def body(case, acc):
    vios, info = c10.run_case(case, PROPERTY)
    acc.case(case, nontrivial(case), sample=c10.text_of(case))
    acc.label("samples", len(case["samples"]))
    for b in case["cg"]["cps"][0]["bins"]:
        acc.label("bin kind:" + b["kind"] + (":n" if b.get("n") else ""))
        for p in b["pats"]:
            acc.label("pattern:" + ("tuple" if isinstance(p, dict) else p[:2].lower()))
            if isinstance(p, dict) and (p["vm"][0] & ~p["vm"][1]):
                acc.label("tuple with value bits outside mask")
    if pred_tuple_array(case):
        acc.label("known-finding shape: tuple array with wildcard above mask")
    return vios


def shards(tier):
    wmax = 6 if tier == "quick" else 8
    out = []
    for w in range(1, wmax + 1):
        nsh = 1 if w <= 5 else (4 if w <= 6 else 16)
        for k in range(nsh):
            out.append({"kind": "exh_single", "w": w, "k": k, "of": nsh})
    for w in range(1, (5 if tier == "quick" else 6) + 1):
        out.append({"kind": "exh_array", "w": w})
    for i in range(8):
        out.append({"kind": "gen", "i": i, "n": 200 if tier == "quick" else 5000})
    return out


def _report(vios, acc, seen):
    from ..core import findings
    for v in vios:
        sig = (v["kind"], v["detail"])
        if sig in seen:
            continue
        seen.add(sig)
        key = findings.tolerated(PROPERTY, v["kind"], v["detail"], v["case"])
        if key is not None:
            acc.tolerated[key] += 1
        else:
            acc.violations.append(v)


def run_shard(spec, seed, tier, acc):
    kind = spec["kind"]
    if kind == "gen":
        hyp.drive(cases(), body, seed, spec["n"], acc)
        return
    w = spec["w"]
    seen = set()
    full = (1 << w) - 1
    if kind == "exh_single":
        # one coverpoint per mask: a single-pattern wildcard bin for every value (incl. value bits outside the mask)
        masks = [m for m in range(1 << w) if m % spec["of"] == spec["k"]]
        for mask in masks:
            bins = [{"name": "v%d" % value, "kind": "wild", "pats": [{"vm": [value, mask]}]} for value in range(1 << w)]
            case = case_for(w, bins)
            vios, _ = c10.run_case(case, PROPERTY)
            acc.evaluations += (1 << w) * (1 << w)
            if mask not in (0, full):
                acc.nontrivial_enum += (1 << w)
            if vios:
                # shrink to the single failing pattern for the replay file
                for b in bins:
                    small = case_for(w, [b])
                    sv, _ = c10.run_case(small, PROPERTY)
                    if sv:
                        vios = sv
                        break
                _report(vios, acc, seen)
        acc.exhaustive = True
        if spec["k"] == 0 and w == 4:
            acc.samples.append({"w": 4, "pattern(value,mask)": [5, 13], "sampled": "every value 0..15",
                                "expected hits": [v for v in range(16) if ((v ^ 5) & 13) == 0]})
    elif kind == "exh_array":
        for mask in range(1 << w):
            for value in range(1 << w):
                if value & ~mask:
                    continue
                for n in (None, 2, 3):
                    bins = [{"name": "arr", "kind": "wildarr", "n": n, "pats": [{"vm": [value, mask]}]}]
                    case = case_for(w, bins)
                    vios, _ = c10.run_case(case, PROPERTY)
                    acc.evaluations += (1 << w)
                    if mask not in (0, full):
                        acc.nontrivial_enum += 1
                    if vios:
                        _report(vios, acc, seen)
        acc.exhaustive = True


def replay(case):
    return c10.run_case(case, PROPERTY)[0]
