"""Shared engine of C01 / C02 (and reused by others): generated flat constraint programs, free draws
judged by the reference semantics, two-directional pinned probes, exhaustive truth on small domains,
solution-first anchored programs for wide fields."""
from ..core import hyp, findings
from ..core.util import exc_sig, reset_library, cjson
from ..model import sem, gen, flat, render

KINDS = ["randomize", "randomize_with", "vsc.randomize", "vsc.randomize_with"]


# ------------------------------------------------------------------------------------------------
# generation
@hyp.composite
def enum_cases(d, max_bits=10, nfields=4, nblocks=2, p_list=30):
    """small-domain programs: total random bits <= max_bits so the solution set is enumerated"""
    fs, en = gen.gen_fields(d, nmax=nfields, widths=gen.TINY_W)
    # keep the random space enumerable
    def bits(f):
        return f["w"] if f["kind"] != "enum" else 2
    while sum(bits(f) for f in fs if f["rand"]) > max_bits:
        big = max((f for f in fs if f["rand"]), key=bits)
        if big["kind"] == "enum" or big["w"] == 1:
            big["rand"] = False
        else:
            big["w"] -= 1
            big["init"] = sem.wrap(big["init"], big["w"], big["signed"])
    cls = {"name": "T", "fields": fs}
    if d.chance(p_list):
        # a fixed-size list whose elements the statements name by constant subscripts (self.l[0]) like any other field
        gen.add_list(d, fs, cls, max_bits)
    g = gen.G(d, fs, en)
    blocks = []
    for b in range(d.randint(1, nblocks)):
        blocks.append({"name": "c%d" % b, "stmts": [g.any_stmt(2) for _ in range(d.randint(1, 3))]})
    inline = [g.any_stmt(1) for _ in range(d.randint(1, 2))] if d.chance(35) else None
    if d.chance(25):
        # soft statements among the hard ones (top level and inside if / else / implies bodies): they never change what the
        # hard constraints allow
        bodies = []

        def collect(stmts):
            bodies.append(stmts)
            for s_ in stmts:
                if s_[0] == "if":
                    for _, body in s_[1]:
                        collect(body)
                    if s_[2] is not None:
                        collect(s_[2])
                elif s_[0] == "implies":
                    collect(s_[2])
        for b in blocks:
            collect(b["stmts"])
        if inline:
            collect(inline)
        for _ in range(d.randint(1, 2)):
            body = bodies[d.randint(0, len(bodies) - 1)] if d.chance(30) else bodies[-1 - d.randint(0, len(bodies) - 1)]
            body.insert(d.randint(0, len(body)), ["soft", g.cmp(1)])
    calls = []
    for _ in range(d.randint(1, 3)):
        k = d.choice(KINDS)
        calls.append({"kind": k, "seed": d.seed()})
    cls["blocks"] = blocks
    prog = {"enums": en, "classes": [cls]}
    return {"mode": "enum", "prog": prog, "inline": inline, "calls": calls,
            "sel": [d.randint(0, 1 << 16) for _ in range(8)], "pseed": d.seed()}


def _sized(bits, w, sg):
    return ["slit", sem.to_signed(bits, w), w] if sg else ["ulit", bits, w]


@hyp.composite
def wide_cases(d):
    """widths up to 64: draw a hidden assignment v*, generate statements anchored to hold at v*"""
    n = d.randint(1, 4)
    fs = []
    for i in range(n):
        w = d.choice(gen.WIDE_W)
        sg = d.chance(40)
        f = {"name": "f%d" % i, "kind": "int" if sg else "bit", "w": w, "signed": sg, "rand": i == 0 or d.chance(80)}
        f["init"] = gen.rand_in_type(d, f)
        fs.append(f)
    vstar = {f["name"]: (gen.rand_in_type(d, f) if f["rand"] else f["init"]) for f in fs}
    types = gen.types_of(fs)
    c = sem.Ctx(types, vstar)

    def val(depth):
        r = d.randint(0, 99)
        if depth <= 0 or r < 40:
            return ["f", d.choice(fs[:n])["name"]]
        if r < 50:
            f = d.choice(fs[:n])
            hi = d.randint(0, f["w"] - 1)
            lo = d.randint(max(0, hi - 12), hi)
            return ["ps", f["name"], hi, lo]
        op = d.choice(["+", "-", "&", "|", "^", "<<", ">>"])
        l = val(depth - 1)
        if op in ("<<", ">>"):
            return ["bin", op, l, ["lit", d.randint(0, 9)]]
        rr = val(depth - 1) if d.chance(70) else ["lit", d.randint(-50, 50)]
        return ["bin", op, l, rr]

    def anchored():
        E = val(2)
        bits, w = sem.ev(E, c)
        sg = sem.signed(E, c)
        k = d.randint(0, 99)
        lit = _sized(bits, w, sg)
        v_ = sem.to_signed(bits, w) if sg else bits
        if w <= 64 and d.chance(20) and sem.truth(["bin", "==", E, ["lit", v_]], c):
            # the same value written as a plain Python integer, also beyond 32 bits (the way a user writes an address);
            # only where it still denotes E's value: a literal wider than E widens the context E is evaluated in
            lit = ["lit", v_]
        if k < 35:
            return ["expr", ["bin", "==", E, lit]]
        if k < 50:
            return ["expr", ["bin", "!=", E, _sized((bits + 1) & sem.mask(w), w, sg)]]
        if k < 75:
            return ["expr", ["bin", d.choice(["<=", ">="]), E, lit]]
        if k < 88:
            F = val(1)
            fb, fw = sem.ev(F, c)
            return ["implies", ["bin", "==", F, _sized(fb, fw, sem.signed(F, c))], [["expr", ["bin", "==", E, lit]]]]
        # in-range around the value (kept inside the type of the literal)
        v = sem.to_signed(bits, w) if sg else bits
        lo_t, hi_t = (-(1 << (w - 1)), (1 << (w - 1)) - 1) if sg else (0, (1 << w) - 1)
        lo, hi = max(lo_t, v - d.randint(0, 3)), min(hi_t, v + d.randint(0, 3))
        mk = (lambda x: ["slit", x, w]) if sg else (lambda x: ["ulit", x, w])
        return ["expr", ["in", E, [["rng", mk(lo), mk(hi)]]]]

    stmts = [anchored() for _ in range(d.randint(1, 3))]
    en = {}
    if d.chance(45):
        # general statements (if / else-if / else, implies, unique, in-lists with field-valued items and bounds, not / and /
        # or, literal operands) over the wide fields, optionally with an enum field: kept when they hold at v*
        if d.chance(30):
            spec = d.choice(gen.ENUM_SPECS)
            ename = "E%d" % gen.ENUM_SPECS.index(spec)
            en[ename] = spec
            dom = [m[1] for m in spec["members"]]
            ef = {"name": "f%d" % len(fs), "kind": "enum", "w": 32, "signed": True, "rand": d.chance(70), "enum": ename, "dom": dom}
            ef["init"] = d.choice(dom)
            fs.append(ef)
            vstar[ef["name"]] = d.choice(dom) if ef["rand"] else ef["init"]
            types = gen.types_of(fs)
            c = sem.Ctx(types, vstar)
        near = [v + k for v in vstar.values() for k in (-1, 0, 1) if -(1 << 31) <= v + k < (1 << 31)]
        g = gen.G(d, fs, en, lits=gen.LITS + near)
        want = d.randint(1, 3)
        for _ in range(12):
            s_ = g.stmt(2)
            if gen.stmt_refs_field(s_) and sem.holds(s_, c):
                stmts.insert(d.randint(0, len(stmts)), s_)
                want -= 1
                if want <= 0:
                    break
    contradiction = None
    if d.chance(25):
        # contradiction by construction: E == c and E == c+1
        E = val(1)
        bits, w = sem.ev(E, c)
        sg = sem.signed(E, c)
        contradiction = [["expr", ["bin", "==", E, _sized(bits, w, sg)]],
                         ["expr", ["bin", "==", E, _sized((bits + 1) & sem.mask(w), w, sg)]]]
    calls = [{"kind": d.choice(KINDS), "seed": d.seed()} for _ in range(d.randint(1, 3))]
    prog = {"enums": en, "classes": [{"name": "T", "fields": fs, "blocks": [{"name": "c0", "stmts": stmts}]}]}
    pert = {"field": d.randint(0, 7), "bit": d.randint(0, 63)}
    return {"mode": "wide", "prog": prog, "inline": None, "calls": calls, "vstar": vstar,
            "contradiction": contradiction, "pert": pert, "sel": [], "pseed": d.seed()}


# ------------------------------------------------------------------------------------------------
# execution
def text_of(case):
    src = render.program_source(case["prog"])
    if case.get("inline"):
        src += "\n# inline (randomize_with):\n" + render.inline_source(case["inline"])
    return src


def V(prop, kind, detail, case, extra=None):
    v = {"property": prop, "kind": kind, "detail": detail, "case": case, "text": text_of(case)}
    if extra:
        v["text"] += "\n# " + extra
    return v


def check_state(env, types, stmts):
    """-> None or description of what is wrong with a returned state"""
    for name, t in types.items():
        v = env[name]
        if not isinstance(v, int) or not sem.in_type(v, t):
            return "field %s=%r outside its declared type" % (name, v)
    i = sem.first_false(stmts, types, env)
    if i is not None:
        return "statement #%d false at %s" % (i, cjson(env))
    return None


def run_case(case, acc=None, want=("C01", "C02")):
    """Execute one case; returns list of violations (all properties in `want`)."""
    vios = []
    prog = case["prog"]
    cls = flat.cls_of(prog)
    fields = cls["fields"]
    types = flat.types_of(prog)
    rf = [f for f in fields if f["rand"]]
    env0 = {f["name"]: f["init"] for f in fields}
    class_stmts = [s for b in cls["blocks"] for s in b["stmts"]]
    inline = case.get("inline") or []
    if not all(sem.well_formed(s) for s in class_stmts + inline):
        return vios, {}          # not a generated shape (left behind by structural reduction)
    if case["mode"] == "wide":
        try:
            if not sem.all_hold(class_stmts, flat.types_of(prog), dict(case["vstar"])):
                return vios, {}  # (a reducer candidate whose hidden assignment is no longer a solution claims nothing)
        except (KeyError, TypeError, ValueError):
            return vios, {}
    reset_library()
    try:
        ns = flat.build(prog)
        obj = flat.instantiate(ns, prog)
    except Exception as e:
        reset_library()
        if "C02" in want:
            vios.append(V("C02", "library_exception", "construction: " + exc_sig(e), case, repr(e)[:200]))
        return vios, {}

    info = {"returned": 0, "sf": 0}
    enum_mode = case["mode"] == "enum"
    S = {}
    if enum_mode:
        for with_inline in (False, True):
            if with_inline and not inline:
                continue
            r = flat.enumerate_solutions(types, rf, env0, class_stmts + (inline if with_inline else []))
            S[with_inline] = r
        info["nsol"] = len(S[False][1])
        info["space"] = len(S[False][0])
    names = [f["name"] for f in rf]

    def judge_call(kind, seed, stmts, expect_sat, label, extra_inline):
        """expect_sat: True / False / None(unknown)"""
        # previous values: leave whatever the last call produced in random fields, but non-random
        # fields are reset to their generated values so that the reference uses a known state
        st, exc = flat.do_call(ns, obj, kind, extra_inline, seed)
        if st == "exc":
            reset_library()
            if "C02" in want:
                vios.append(V("C02", "library_exception", "%s: %s" % (label, exc.sig), case,
                              "%s(seed=%d) raised %r" % (kind, seed, exc)))
            return st
        if st == "sf":
            info["sf"] += 1
            if expect_sat is True and "C02" in want:
                vios.append(V("C02", "spurious_solve_failure", label, case,
                              "%s(seed=%d) raised SolveFailure although the reference has solutions" % (kind, seed)))
            return st
        info["returned"] += 1
        try:
            env = flat.read_state(ns, obj, fields)
        except Exception as e:
            if "C01" in want:
                vios.append(V("C01", "readback_exception", "%s: %s" % (label, exc_sig(e)), case))
            return st
        if expect_sat is False and "C02" in want:
            vios.append(V("C02", "returned_on_unsat", label, case,
                          "%s(seed=%d) returned %s although no assignment satisfies the constraints" % (kind, seed, cjson(env))))
        bad = check_state(env, types, stmts)
        if bad is not None and "C01" in want:
            vios.append(V("C01", "unsound_value", label, case, "%s(seed=%d): %s" % (kind, seed, bad)))
        for f in fields:
            if not f["rand"] and env[f["name"]] != env0[f["name"]] and "C01" in want:
                vios.append(V("C01", "nonrandom_changed", label, case, "%s changed %s" % (kind, f["name"])))
        return st

    # 1. free draws
    for call in case["calls"]:
        kind = call["kind"]
        use_inline = kind.endswith("_with")
        stmts = class_stmts + (inline if use_inline else [])
        exp = None
        if enum_mode:
            exp = len(S[use_inline and bool(inline)][1]) > 0
        elif case["mode"] == "wide":
            exp = True
        judge_call(kind, call["seed"], stmts, exp, "free draw", inline if use_inline else None)
        if vios:
            return vios, info

    # 2. pinned probes
    if enum_mode:
        key = bool(inline)
        allv, sols = S[key]
        stmts = class_stmts + inline
        solset = set(sols)
        sel = [x for x in (case.get("sel") or []) if isinstance(x, int)]
        sel = (sel + [0] * 8)[:8]       # (the structural reducer may have shortened the selector list)
        probes = []
        if sols:
            for i in range(min(3, len(sols))):
                probes.append((sols[sel[i] % len(sols)], True, "member"))
        non = [v for v in allv if v not in solset]
        if non:
            # single-violation witnesses: assignments that violate exactly one top-level statement
            env = dict(env0)
            c = sem.Ctx(types, env)
            per_stmt = {}
            for vals in non:
                for nm, v in zip(names, vals):
                    env[nm] = v
                bad = [i for i, s in enumerate(stmts) if not sem.holds(s, c)]
                if len(bad) == 1:
                    per_stmt.setdefault(bad[0], []).append(vals)
            k = 0
            for i in sorted(per_stmt):
                lst = per_stmt[i]
                probes.append((lst[sel[3 + (k % 3)] % len(lst)], False, "single-violation witness of statement #%d" % i))
                k += 1
                if k >= 4:
                    break
            info["witness_stmts"] = len(per_stmt)
            for i in range(min(2, len(non))):
                probes.append((non[sel[6 + i] % len(non)], False, "non-member"))
        seen = set()
        for vals, member, label in probes:
            if (vals, member) in seen:
                continue
            seen.add((vals, member))
            pins = flat.pin_stmts(prog, rf, dict(zip(names, vals)))
            st, exc = flat.do_call(ns, obj, "randomize_with", inline + pins, case["pseed"])
            info["probes"] = info.get("probes", 0) + 1
            info["probe:" + label.split(" of ")[0]] = info.get("probe:" + label.split(" of ")[0], 0) + 1
            desc = "pin %s (%s)" % (cjson(dict(zip(names, vals))), label)
            if st == "exc":
                reset_library()
                if "C02" in want:
                    vios.append(V("C02", "library_exception", "pinned probe: " + exc.sig, case, desc + " raised %r" % (exc,)))
                break
            if st == "ret":
                got = flat.read_state(ns, obj, fields)
                gt = tuple(got[nm] for nm in names)
                if not member:
                    if "C01" in want:
                        vios.append(V("C01", "pin_nonmember_returned", label.split(" #")[0], case, desc + " returned %s" % cjson(got)))
                    if "C02" in want:
                        vios.append(V("C02", "pin_nonmember_returned", label.split(" #")[0], case, desc + " returned %s" % cjson(got)))
                    break
                if gt != vals and "C01" in want:
                    vios.append(V("C01", "pin_readback", "member", case, desc + " read back %s" % cjson(got)))
                    break
            else:
                if member and "C02" in want:
                    vios.append(V("C02", "pin_member_rejected", "member", case, desc + " raised SolveFailure"))
                    break
    elif case["mode"] == "wide":
        vstar = case["vstar"]
        stmts = class_stmts

        def pin_at(env, label):
            pins = []
            for f in rf:
                x = env[f["name"]]
                if f["kind"] == "enum":
                    pins.extend(flat.pin_stmts(prog, [f], env))
                else:
                    pins.append(["expr", ["bin", "==", ["f", f["name"]], (["slit", x, f["w"]] if f["signed"] else ["ulit", x, f["w"]])]])
            exp = sem.all_hold(stmts, types, env)
            st, exc = flat.do_call(ns, obj, "randomize_with", pins, case["pseed"])
            info["probes"] = info.get("probes", 0) + 1
            desc = "pin %s (%s)" % (cjson({f["name"]: env[f["name"]] for f in rf}), label)
            if st == "exc":
                reset_library()
                if "C02" in want:
                    vios.append(V("C02", "library_exception", "pinned probe: " + exc.sig, case, desc + " raised %r" % (exc,)))
                return False
            if st == "ret":
                got = flat.read_state(ns, obj, fields)
                if not exp:
                    for p in ("C01", "C02"):
                        if p in want:
                            vios.append(V(p, "pin_nonmember_returned", label, case, desc + " returned %s" % cjson(got)))
                    return False
                if any(got[f["name"]] != env[f["name"]] for f in rf) and "C01" in want:
                    vios.append(V("C01", "pin_readback", label, case, desc + " read back %s" % cjson(got)))
                    return False
            elif exp and "C02" in want:
                vios.append(V("C02", "pin_member_rejected", label, case, desc + " raised SolveFailure"))
                return False
            return True

        if pin_at(dict(vstar), "v*"):
            f = rf[case["pert"]["field"] % len(rf)]
            bit = case["pert"]["bit"] % f["w"]
            env = dict(vstar)
            if f["kind"] == "enum":
                env[f["name"]] = f["dom"][(f["dom"].index(vstar[f["name"]]) + 1 + bit) % len(f["dom"])]
            else:
                env[f["name"]] = sem.wrap((vstar[f["name"]] & sem.mask(f["w"])) ^ (1 << bit), f["w"], f["signed"])
            if pin_at(env, "v* with one bit flipped"):
                if case.get("contradiction"):
                    st, exc = flat.do_call(ns, obj, "randomize_with", case["contradiction"], case["pseed"])
                    info["contradictions"] = 1
                    if st == "ret" and "C02" in want:
                        vios.append(V("C02", "returned_on_unsat", "contradiction by construction", case,
                                      "inline %s returned" % cjson(case["contradiction"])))
                    elif st == "exc":
                        reset_library()
                        if "C02" in want:
                            vios.append(V("C02", "library_exception", "contradiction: " + exc.sig, case, repr(exc)))
    return vios, info


def classify(case, info, acc):
    prog = case["prog"]
    cls = flat.cls_of(prog)
    fs = cls["fields"]
    acc.label("mode:" + case["mode"])
    acc.label("fields:%d" % len(fs))
    if any(f["signed"] for f in fs if f["kind"] != "enum") and any(not f["signed"] for f in fs):
        acc.label("mixed-signedness field table")
    if any(f["kind"] == "enum" for f in fs):
        acc.label("has enum field")
    if case.get("inline"):
        acc.label("has inline block")
    if "nsol" in info:
        acc.label("sat" if info["nsol"] else "unsat")
        if 0 < info["nsol"] <= 4:
            acc.label("tight (<=4 solutions)")
    for k, v in info.items():
        if k.startswith("probe:"):
            acc.label(k, v)
    for c in case["calls"]:
        acc.label("call:" + c["kind"])
    kinds = set()

    def walk(s):
        kinds.add(s[0])
        if s[0] == "if":
            for _, b in s[1]:
                for x in b:
                    walk(x)
            for x in (s[2] or []):
                walk(x)
        elif s[0] == "implies":
            for x in s[2]:
                walk(x)
    for b in cls["blocks"]:
        for s in b["stmts"]:
            walk(s)
    for k in kinds:
        acc.label("stmt:" + k)
