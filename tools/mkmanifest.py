#!/usr/bin/env python3
"""Regenerate MANIFEST.json from the table below (run from /verif: python3 tools/mkmanifest.py)."""
import json, os, subprocess

HERE = os.path.dirname(os.path.dirname(os.path.abspath(__file__)))
ALL = ["C%02d" % i for i in range(1, 21)]

# property -> (category, technique, text, note, design_ref)
CHECKS = {
    "C01": ("exploration",
            "Hypothesis-generated constraint programs; differential against an independent reference evaluator; pinned two-directional probes; exhaustive enumeration of small value spaces",
            "Generated flat constraint programs (all listed operator classes, widths 1..64, both signednesses, enum fields, class + inline blocks, four call kinds). Every returned state is re-evaluated by an independent reference semantics; small-domain programs are compared with the exhaustively enumerated solution set; pinned probes assert that single-violation witnesses and non-members are rejected and members are returned exactly. Search-based: it finds lowering errors on the shapes it generates, it does not prove their absence.",
            "Trusts the reference evaluator (pvs/model/sem.py; per-node signed-iff-both-signed rule; signed / and % towards zero; ~ after extension to the context width), Boolector's answers, and the renderer (literal Python source, exec'd). Divisors are non-zero literals; ~ as a value on unsigned operands only.",
            "5/C01"),
    "C02": ("exploration",
            "Hypothesis-generated constraint programs; satisfiability decided by exhaustive enumeration; pinned probes; exception bucketing",
            "Same engine as C01 with different seeds: SolveFailure iff the enumerated reference solution set is empty; members pinned must be accepted, non-members rejected; any non-SolveFailure exception from inside the library on a valid program is a violation (bucketed by exception type and innermost library frame); wide programs are satisfiable by construction (anchored at a hidden assignment) or contradictory by construction.",
            "Satisfiability is exact only for programs whose random space is <= 2^13 assignments; wide programs rely on construction. Diagnostic flags at defaults.",
            "5/C02"),
    "C03": ("exploration",
            "Hypothesis RuleBasedStateMachine over one object against a dict model (values, modes, rangelist and list contents); enumerated solution sets per call",
            "Rules assign fields, toggle rand_mode, edit a mutable rangelist and a non-random list (both also used inside foreach bodies, over a random and a non-random list), and call randomize / randomize_with / vsc.randomize / vsc.randomize_with incl. free-standing calls over field subsets; after every call non-random fields must read the model's value (success or failure), the result must satisfy the reference under the CURRENT constants and contents, and SolveFailure iff the enumerated set is empty.",
            "rand_mode is driven on scalar fields only; values of random fields after a failed call are not compared.",
            "5/C03"),
    "C20": ("exploration",
            "generated ordered systems; enumerated truth + pinned probes; seeded draw campaigns with exact binomial uniformity tests gated by the hook's inferred range; metamorphic variant; control without the directive",
            "Constraints hold and satisfiability is unchanged under solve_order (free draws, pinned probes), pinning the earlier variable to each feasible value succeeds, the earlier variable is uniform over its feasible values when these fill its inferred range, also for a variant with different companion counts; the same system without the directive is drawn as a control to show the test has power.",
            "Uniformity only under the stated precondition (hook shows single-interval range = feasible set); alpha 1e-9 split over 2000 tests.",
            "5/C20"),
    "C04": ("exploration",
            "Hypothesis-generated list programs and edit/call histories; reference solution set enumerated over sizes 0..4 x element values; access-path agreement checks",
            "Fixed-size, random-size and non-random scalar lists with size bounds, foreach by item/index/both/nested, guarded index arithmetic, sum, unique, unique_vec, membership and constant subscripts; histories interleave calls with append/extend/clear/assign/setitem. After every successful call (size, elements) must lie in the enumerated set, len()/size/indexing/iteration must agree, fixed lists keep their length, and edits must act on exactly the exposed list.",
            "Random-size lists whose elements are constrained (foreach, sum, product, unique, membership) are judged like all others since the repair of the former finding c04-randsz-size-before-elements; after a failed call only the list's length is judged. Lists beyond the enumerable bound (3-10 elements of 4-32 bits) are judged by a solution-first family: every returned state against the reference, pinned perturbations of a hidden solution both ways.",
            "5/C04"),
    "C05": ("exploration",
            "Hypothesis-generated hard+soft programs; exact greedy-by-priority reference and result-only maximality over the enumerated solution space",
            "Small-domain programs mixing hard and soft statements (nested under if/else/implies, two class blocks, inline softs, call sequences). The hard solution set is enumerated; the result must be in it, must be maximal w.r.t. the soft terms, and must lie in the greedy set for an order consistent with the stated partial priority order; hard-satisfiable systems must never fail.",
            "Order between softs of different class blocks is left open (any interleaving accepted). A list family puts the softs into a foreach over a random-size list: the soft of element i applies only if the solved list has an element i.",
            "5/C05"),
    "C14": ("exploration",
            "Hypothesis-generated programs and call sequences; inferred ranges observed through the PYVSC_VERIF hook compared with projections of the enumerated solution set; seeded coupon check",
            "For every call of a generated call sequence the range list the library hands to the swizzler (hook payload) must contain every feasible value of every random field, and be the whole type range for unmentioned fields; on tiny unsigned programs a coupon-collector run must produce every solution.",
            "Needs the pre_solve hook (PYVSC_VERIF=1); the probability clause is decided through the range containment the property names plus the coupon check under the stated floor.",
            "5/C14"),
    "C15": ("exploration",
            "Hypothesis-generated dist programs judged by enumeration and pinned probes; seeded draw campaigns judged by exact binomial tails",
            "Hard part on every generated dist program (zero-weight and unlisted values never returned, listed values accepted, two-directional pins); frequency part with exact two-sided binomial tests per entry and per value in a range; distselect/randselect under generated global seeds.",
            "alpha = 1e-9 per run split over 2000 tests; frequencies only for dist fields nothing else constrains, disjoint entries.",
            "5/C15"),
    "C06": ("exploration",
            "generated call histories over instance populations; enumerated reference with dynamic references expanded per instance; pinned probes for 'no trace' and binding",
            "A generated class with two dynamic blocks that read a per-instance constant (one may hold a foreach over the instance's editable non-random list); histories edit that list, create instances before/after the target and call randomize_with with plain constraints and Boolean combinations (| & ~) of dynamic references, also through list elements of a holder; every result must lie in class AND this call's inline set evaluated on this very instance; probes check that earlier inline sets leave no trace and that referenced blocks bind to the right object.",
            "Dynamic blocks are referenced from inline blocks (directly, through a sub-object, a list element, the index of an inline foreach) and from one class constraint of a holder; instances of a derived class take part.",
            "5/C06"),
    "C07": ("exploration",
            "generated class hierarchies, instance populations and constraint_mode toggle histories against a per-instance enabled-block model; pinned probe pairs per block",
            "Hierarchies with overridden block names, instances top-level / nested / in lists, toggles after construction and at the end of the constructor (relax-in-new idiom), interleaved with calls and later creations; results must lie in the enumerated set of the most-derived enabled blocks of that very instance; an assignment violating only block B is accepted iff B is off for that instance, probed on every live instance.",
            "Nested and list instances are toggled through the instance object; every block references a field.",
            "5/C07"),
    "C08": ("exploration",
            "Hypothesis-generated object trees flattened to path-keyed reference programs; enumerated truth; pinned probes per flattened statement",
            "Trees with rand_attr/attr sub-objects, structurally identical siblings with distinguishing parent constraints, random and non-random object lists, cross-level constraints through paths and indices, violated own blocks on non-random sub-objects; results and two-directional pins are judged on the flattened program in which a sub-object's blocks count iff its whole ancestor chain is random. Sub-domains: lists holding subclass instances; lists of objects that hold ragged lists of objects reached through two foreach indices, a subscript by a non-random field that changes between calls, conditions on elements of a non-random object list.",
            "Classes of the tree may own a small scalar list whose elements are named through the path (s0.lx[1], arr[0].lx[1]). Bit-select f[i] through a list index is not generated (the DSL reads it as an array subscript).",
            "5/C08"),
    "C17": ("exploration",
            "generated object trees with logging pre/post_randomize callbacks; event multisets, order and observed values against the tree model",
            "Every class logs pre/post events; pre_randomize writes generated values into non-random fields read by constraints. Per call: pre and post each exactly once on exactly the objects random in the call, all pre before any post, result satisfies the reference under the pre-written values, post sees the final values.",
            "Callbacks do not randomize recursively; on SolveFailure only pre events are judged.",
            "5/C17"),
    "C09": ("exploration",
            "generated scenarios executed in fresh child processes under a variant matrix (hash seed x global seed x unrelated activity x diagnostics), traces compared; generated snapshot/restore histories against recorded sequences",
            "Metamorphic: the same scenario (explicit RandState built with mkFromSeed(n) or mkFromSeed(n, string), or the global seed) must give the same value trace under every variant (quick: baseline + 6 variants covering every level of every factor; thorough: the full 119-cell matrix sliced over shards). Snapshot histories check get_randstate independence, set_randstate copying and exact replay.",
            "Memory layout is approximated by hash-seed variation and allocation churn; a failing call is compared as 'failed' regardless of exception type.",
            "5/C09"),
    "C16": ("fault_enumeration",
            "generated histories with one injected fault from an enumerated set of fault positions; structural idle-state oracle + twin-session differential",
            "Fault kinds: exception in a constraint body during construction (top level, if_then, implies, foreach), in a randomize_with body (before/after/nested), in pre/post_randomize of the top object or a sub-object, SolveFailure with foreach/dist rewrites active (also in the rand set of a random-size list), SolveFailure with solve_fail_debug=1, a call the library aborts for contradicting solve_order directives after it rewrote the model. After the faulted call a random-size list must expose the elements it held before, the construction stacks must be empty and no solver handle or override constraint may remain; a twin session without the failed call must behave identically afterwards.",
            "Structural introspection uses private attribute names and degrades to 'not checked'; values left by the aborted call are equalised, not compared.",
            "5/C16"),
    "C10": ("exploration",
            "Hypothesis-generated bin specifications, exhaustive value sweep per specification, differential against an independent bin-partition model",
            "Generated coverpoint specifications (bin / bin_array with every count form, overlapping and unordered ranges, auto-bins, enum auto-bins, ignore/illegal bins, iff by field or callable) sampled with every value of the coverpoint's type; after every sample the per-bin increment vector (regular, ignore, illegal) must equal the reference membership vector. Further families: one bins dictionary shared by two coverpoints with different exclusions, covergroups that sample objects, samples during which the user's callable raises, and types of 12-64 bits judged by an interval-list reference at every bin endpoint and its neighbours.",
            "Trusts the reference partition rule in pvs/model/cov.py (written from the property text); hit counts are read through the model getters the property names.",
            "5/C10"),
    "C11": ("exploration",
            "Hypothesis-generated crosses over disjoint-bin coverpoints with gated sample sequences; reference = row-major product model",
            "Generated covergroups with 2-3 coverpoints of pairwise disjoint bins (single, array, auto, wildcard bins over binary-prefix blocks, gaps), a cross over 2-3 of them, iff on coverpoints and cross; bin count, names and order against the product of the coverpoints' bins; after every sample exactly the combination bin increments iff all gates hold and every coverpoint hit.",
            "Coverpoint bins are disjoint by construction; cross names are compared against the coverpoints' own bin names.",
            "5/C11"),
    "C12": ("exploration",
            "generated histories (create instance / sample) checked after every step against a dict-based model of instance and type coverage",
            "A parameterised covergroup class yields several shapes; histories interleave instance creation and samples; coverpoints may carry a sampling condition of their own; after every operation each instance's own hits, the type hits (bin-wise sum over same-shape instances), get_inst_coverage/get_coverage (weighted share of bins at at_least), bounds and monotonicity are compared with the model.",
            "Option inheritance (coverpoint inherits the covergroup's weight/at_least) follows the library's documented resolution.",
            "5/C12"),
    "C13": ("exploration",
            "generated histories with report points; report model, parsed text report and UCIS XML read-back compared with an independent dict model and the API getters",
            "Populations as in C12 plus ignore/illegal bins and optional instance names; at generated points the report model, the text report (parsed) and the written XML (re-read with PyUCIS) must list every type/instance/coverpoint/cross/bin once with the in-memory names and counts, percentages must equal the API's, and every getter must read the same before and after.",
            "PyUCIS (third party) does the XML I/O and report arithmetic: after read-back only names and counts are compared. Type-level coverpoint lines are compared with coverpoint.get_coverage() asked of every instance.",
            "5/C13"),
    "C19": ("exploration",
            "exhaustive (value, mask) sweep up to 8 bits + Hypothesis-generated pattern strings; oracle (v ^ value) & mask == 0 and the partition model",
            "Every (value, mask) pair of w<=6 bits (8 in the thorough tier) as single wildcard bin and (w<=5/6) as wildcard array, sampled with every value; generated string patterns in three bases with x X ? _ anywhere, several patterns per bin, arrays with and without a count.",
            "String patterns span the coverpoint width; (value, mask) arrays whose mask lacks the top bit are a recorded finding.",
            "5/C19"),
    "C18": ("exploration",
            "exhaustive enumeration (widths<=10, all access paths, part-select bounds) + Hypothesis for widths 11..64 and enums, oracle = wrap(v,w,signed) on Python ints",
            "Every integer in [-2^(w+1), 2^(w+1)] for widths 1..10, both signednesses, through 9 write paths and every read path; every part-select read (w<=8) and write (w<=6); boundary-biased generated cases for widths 11..64; enum fields through every path.",
            "Enum constructor initial values are not asserted (documented TODO in the library).",
            "5/C18"),
}

NOT_YET = "check not built yet in this round (planned, see DESIGN.md section 5)"


def main():
    checks = []
    for pid in ALL:
        if pid not in CHECKS:
            continue
        cat, tech, text, note, ref = CHECKS[pid]
        checks.append({
            "property_id": pid,
            "quick_cmd": "./check %s --tier quick" % pid,
            "thorough_cmd": "./check %s --tier thorough" % pid,
            "evidence_file": "evidence/%s.json" % pid,
            "replay_cmd_template": "./check %s --replay {path}" % pid,
            "engine": "pvs",
            "level_claimed": {"category": cat, "text": text, "design_ref": "DESIGN.md section " + ref},
            "level_note": note,
            "technique": tech,
        })
    try:
        commits = subprocess.check_output(
            ["git", "-C", "/repo", "log", "--format=%H %s", "--grep=^verif hook"], text=True).strip().splitlines()
    except Exception:
        commits = []
    man = {
        "version": 1,
        "setup_cmd": "sh tools/setup.sh",
        "hooks": {
            "guard": "PYVSC_VERIF",
            "enable": "environment variable PYVSC_VERIF=1 (set by ./check); pyvsc is pure Python, checks import it from /repo/src",
            "baseline_off_cmd": "cd /repo && env -u PYVSC_VERIF /venv/bin/python -m pytest -ra -q -p no:cacheprovider --timeout=900 --continue-on-collection-errors",
            "source_commits": [c.split()[0] for c in commits],
            "add_only": True,
        },
        "engines": [{"name": "pvs", "path": "pvs/", "serves_properties": sorted(CHECKS),
                     "kind_free_text": "property-based testing: Hypothesis generators + exhaustive enumeration, explicit reference models, process-per-shard runner"}],
        "checks": checks,
        "notes": "Every check: ./check <ID> --tier quick|thorough ; VERIF_SEED selects the seed; exit 0 held / 1 VIOLATION / 2 harness error. Known findings: known_findings.txt + findings/.",
        "not_applicable": [{"property_id": p, "reason": NOT_YET} for p in ALL if p not in CHECKS],
    }
    with open(os.path.join(HERE, "MANIFEST.json"), "w") as f:
        json.dump(man, f, indent=1)
        f.write("\n")
    print("MANIFEST.json: %d checks, %d not claimed" % (len(checks), len(man["not_applicable"])))


if __name__ == "__main__":
    main()
