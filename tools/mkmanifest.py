#!/usr/bin/env python3
"""Regenerate MANIFEST.json from the table below (run from /verif: python3 tools/mkmanifest.py)."""
import json, os, subprocess

HERE = os.path.dirname(os.path.dirname(os.path.abspath(__file__)))
ALL = ["C%02d" % i for i in range(1, 21)]

# property -> (category, technique, text, note, design_ref)
CHECKS = {
    "C01": ("exploration",
            "Hypothesis-generated constraint programs; differential against an independent reference evaluator; pinned two-directional probes; exhaustive enumeration of small value spaces",
            "Generated flat constraint programs (all listed operator classes, widths 1..64, both signednesses, enum fields, class + inline blocks, four call kinds). Every returned state is re-evaluated by an independent reference semantics; small-domain programs are compared with the exhaustively enumerated solution set; pinned probes assert that single-violation witnesses and non-members are rejected and members are returned exactly. Search-based: it finds lowering errors on the shapes it generates, it does not prove their absence.",
            "Trusts the reference evaluator (pvs/model/sem.py; per-node signed-iff-both-signed rule), Boolector's answers, and the renderer (literal Python source, exec'd).",
            "5/C01"),
    "C02": ("exploration",
            "Hypothesis-generated constraint programs; satisfiability decided by exhaustive enumeration; pinned probes; exception bucketing",
            "Same engine as C01 with different seeds: SolveFailure iff the enumerated reference solution set is empty; members pinned must be accepted, non-members rejected; any non-SolveFailure exception from inside the library on a valid program is a violation (bucketed by exception type and innermost library frame); wide programs are satisfiable by construction (anchored at a hidden assignment) or contradictory by construction.",
            "Satisfiability is exact only for programs whose random space is <= 2^13 assignments; wide programs rely on construction. Diagnostic flags at defaults.",
            "5/C02"),
    "C18": ("exploration",
            "exhaustive enumeration (widths<=10, all access paths, part-select bounds) + Hypothesis for widths 11..64 and enums, oracle = wrap(v,w,signed) on Python ints",
            "Every integer in [-2^(w+1), 2^(w+1)] for widths 1..10, both signednesses, through 9 write paths and every read path; every part-select read (w<=8) and write (w<=6); boundary-biased generated cases for widths 11..64; enum fields through every path.",
            "Enum constructor initial values are not asserted (documented TODO in the library).",
            "5/C18"),
}

NOT_YET = "check not built yet in this round (planned, see DESIGN.md section 5)"


def main():
    checks = []
    for pid in ALL:
        if pid not in CHECKS:
            continue
        cat, tech, text, note, ref = CHECKS[pid]
        checks.append({
            "property_id": pid,
            "quick_cmd": "./check %s --tier quick" % pid,
            "thorough_cmd": "./check %s --tier thorough" % pid,
            "evidence_file": "evidence/%s.json" % pid,
            "replay_cmd_template": "./check %s --replay {path}" % pid,
            "engine": "pvs",
            "level_claimed": {"category": cat, "text": text, "design_ref": "DESIGN.md section " + ref},
            "level_note": note,
            "technique": tech,
        })
    try:
        commits = subprocess.check_output(
            ["git", "-C", "/repo", "log", "--format=%H %s", "--grep=^verif hook"], text=True).strip().splitlines()
    except Exception:
        commits = []
    man = {
        "version": 1,
        "setup_cmd": "sh tools/setup.sh",
        "hooks": {
            "guard": "PYVSC_VERIF",
            "enable": "environment variable PYVSC_VERIF=1 (set by ./check); pyvsc is pure Python, checks import it from /repo/src",
            "baseline_off_cmd": "cd /repo && env -u PYVSC_VERIF /venv/bin/python -m pytest -ra -q -p no:cacheprovider --timeout=900 --continue-on-collection-errors",
            "source_commits": [c.split()[0] for c in commits],
            "add_only": True,
        },
        "engines": [{"name": "pvs", "path": "pvs/", "serves_properties": sorted(CHECKS),
                     "kind_free_text": "property-based testing: Hypothesis generators + exhaustive enumeration, explicit reference models, process-per-shard runner"}],
        "checks": checks,
        "notes": "Every check: ./check <ID> --tier quick|thorough ; VERIF_SEED selects the seed; exit 0 held / 1 VIOLATION / 2 harness error. Known findings: known_findings.txt + findings/.",
        "not_applicable": [{"property_id": p, "reason": NOT_YET} for p in ALL if p not in CHECKS],
    }
    with open(os.path.join(HERE, "MANIFEST.json"), "w") as f:
        json.dump(man, f, indent=1)
        f.write("\n")
    print("MANIFEST.json: %d checks, %d not claimed" % (len(checks), len(man["not_applicable"])))


if __name__ == "__main__":
    main()
