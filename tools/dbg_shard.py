"""dev helper: run one shard of a property module in-process.  usage: dbg_shard.py C02 '{"kind":"enum","i":0,"n":50}' [seed]"""
import sys, time, json, faulthandler
faulthandler.dump_traceback_later(int(__import__("os").environ.get("DBG_TIMEOUT", "120")), exit=True)
sys.path.insert(0, '/verif'); sys.path.insert(0, __import__('os').environ.get('PVS_REPO', '/repo') + '/src')
from pvs.core.acc import Acc
from pvs.core import runner
mod = runner.load_module(sys.argv[1])
acc = Acc()
import gc; gc.disable()
t = time.time()
mod.run_shard(json.loads(sys.argv[2]), int(sys.argv[3]) if len(sys.argv) > 3 else 123, "quick", acc)
sys.stdout.flush()
sys.stderr.write("wall %.1fs evaluations=%d nontrivial=%d viol=%d tolerated=%s inconclusive=%d\n" % (
    time.time() - t, acc.evaluations, len(acc.nontrivial) + acc.nontrivial_enum, len(acc.violations), dict(acc.tolerated), acc.inconclusive))
sys.stderr.write("hist %s\n" % dict(sorted(acc.hist.items())))
for sig, (n, v) in sorted(acc.buckets.items(), key=lambda kv: -kv[1][0]):
    sys.stderr.write("BUCKET n=%d %s\n%s\n\n" % (n, sig, v.get("text", "")))
for v in acc.violations[:5]:
    sys.stderr.write("VIOLATION %s %s\n%s\n" % (v['kind'], v['detail'], v.get('text', '')))
