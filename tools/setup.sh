#!/bin/sh
# Offline setup: make sure hypothesis is importable by /venv/bin/python (it is pre-installed in this image;
# otherwise install it from the offline wheelhouse into /verif/.deps).  Nothing is fetched from a network.
cd "$(dirname "$0")/.." || exit 2
if /venv/bin/python -c "import hypothesis" 2>/dev/null; then
  echo "hypothesis available in /venv"
else
  mkdir -p .deps
  /venv/bin/pip install --no-index --find-links /opt/veriftools/wheels --target .deps hypothesis || exit 2
fi
PYTHONPATH="/repo/src:.deps" /venv/bin/python -c "import hypothesis, vsc, pyboolector; print('setup ok: hypothesis', hypothesis.__version__)" || exit 2
mkdir -p evidence replays
