#!/bin/sh
# tools/run_thorough.sh [ID...] : run the registered thorough checks (default: all); prints one line per run
cd "$(dirname "$0")/.." || exit 2
for p in ${@:-C01 C02 C03 C04 C05 C06 C07 C08 C09 C10 C11 C12 C13 C14 C15 C16 C17 C18 C19 C20}; do
  t0=$(date +%s)
  out=$(./check $p --tier thorough 2>&1); rc=$?
  echo "thorough rc=$rc wall=$(( $(date +%s) - t0 ))s $(echo "$out" | tail -1)"
  if [ $rc -ne 0 ]; then echo "$out" | grep -v "^    " | tail -8; fi
done
