#!/usr/bin/env python3
"""Regenerate seeded/INDEX.md (and the table of DESIGN.md section 11) from seeded/*/meta.json."""
import glob, json, os, re

HERE = os.path.dirname(os.path.dirname(os.path.abspath(__file__)))
rows = []
for mf in sorted(glob.glob(os.path.join(HERE, "seeded", "*", "meta.json"))):
    m = json.load(open(mf))
    sid = os.path.basename(os.path.dirname(mf))
    caught = "; ".join("%s: %s" % (c["check"], c["result"]) for c in m.get("checks", []))
    rows.append("| %s | %s | %s | %s | %s |" % (sid, m["property"], m["change"].replace("|", "\\|"), m["needs"].replace("|", "\\|"), caught.replace("|", "\\|")))
table = "| id | property | change | needs, in order to manifest | checks (quick tier unless noted) |\n|---|---|---|---|---|\n" + "\n".join(rows) + "\n"
open(os.path.join(HERE, "seeded", "INDEX.md"), "w").write(
    "# Seeded changes\n\nEach directory: `patch.diff` (apply with `git -C /repo apply`), `demo.py` (exit 1 = property violated), "
    "`NOTES.md` (the author's description), `meta.json`, `verify.log` (what was run here to confirm it).\n\n" + table)
p = os.path.join(HERE, "DESIGN.md")
s = open(p).read()
a = s.index("## 11. Seeded changes and which checks catch them")
head_end = s.index("one: `git -C /repo apply /verif/seeded/<id>/patch.diff; ./check <ID>; git -C /repo checkout -- .`", a)
head_end = s.index("\n", head_end) + 1
s = s[:head_end] + "\n" + table + "\n" + open(os.path.join(HERE, "seeded", "NOTES_SECTION.md")).read() if os.path.exists(os.path.join(HERE, "seeded", "NOTES_SECTION.md")) else s[:head_end] + "\n" + table
open(p, "w").write(s)
print("%d seeded changes indexed" % len(rows))
