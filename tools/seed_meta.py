#!/usr/bin/env python3
"""tools/seed_meta.py <seed-id> <property> <change> <needs> : write seeded/<id>/meta.json from verify.log + arguments"""
import json, os, re, sys
sid, prop, change, needs = sys.argv[1:5]
d = os.path.join(os.path.dirname(os.path.dirname(os.path.abspath(__file__))), "seeded", sid)
log = open(os.path.join(d, "verify.log")).read()
checks = []
for m in re.finditer(r"check (C\d+) \((\w+)\) on patched tree: rc=(\d+) :: (.*)", log):
    kinds = sorted(set(re.findall(r"violation: (\w+)", m.group(4))))
    checks.append({"check": m.group(1), "tier": m.group(2), "exit": int(m.group(3)),
                   "result": ("caught (%s)" % ", ".join(kinds)) if m.group(3) == "1" else ("missed" if m.group(3) == "0" else "harness error")})
# a check that was run again (after the check had been strengthened, or at a later base commit) counts with its last result
last = {}
for c in checks:
    last[c["check"]] = c
checks = [last[k] for k in sorted(last)]
meta = {"id": sid, "property": prop, "change": change, "needs": needs,
        "ran": [l for l in log.splitlines() if l.startswith(("base commit", "demo ", "repository suite", "338 passed")) or " passed" in l][:6],
        "checks": checks}
json.dump(meta, open(os.path.join(d, "meta.json"), "w"), indent=1)
print(json.dumps(meta["checks"]))
