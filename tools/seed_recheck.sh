#!/bin/sh
# tools/seed_recheck.sh <ID> [checks...] : re-run checks against /repo HEAD + the stored patch of seeded/<ID>
# (scratch worktree, removed afterwards); also re-runs the demo both ways.  Appends to seeded/<ID>/verify.log
set -u
ID="$1"; shift
PROP=$(echo "$ID" | cut -c1-3)
CHECKS="${*:-$PROP}"
DST=/verif/seeded/$ID
WT=/tmp/seedrechk_$ID
rm -rf "$WT"; git -C /repo worktree prune
git -C /repo worktree add --detach "$WT" HEAD >/dev/null 2>&1 || exit 2
LOG="$DST/verify.log"
run_demo() { (cd "$WT" && PYTHONPATH="$WT/src" timeout 600 /venv/bin/python "$DST/demo.py" >/dev/null 2>&1); echo $?; }
echo "re-check at base commit: $(git -C /repo rev-parse --short HEAD)" >> "$LOG"
echo "demo without patch: exit $(run_demo)" >> "$LOG"
if ! git -C "$WT" apply "$DST/patch.diff" 2>>"$LOG"; then echo "PATCH DOES NOT APPLY" >> "$LOG"; tail -3 "$LOG"; git -C /repo worktree remove --force "$WT"; exit 1; fi
echo "demo with patch: exit $(run_demo)" >> "$LOG"
for c in $CHECKS; do
  out=$(cd /verif && PVS_REPO="$WT" timeout 1800 ./check "$c" --tier quick 2>&1); rc=$?
  echo "check $c (quick) on patched tree: rc=$rc :: $(echo "$out" | grep '^violation:' | head -3 | tr '\n' ';') $(echo "$out" | tail -1)" >> "$LOG"
done
git -C /repo worktree remove --force "$WT"
tail -4 "$LOG"
