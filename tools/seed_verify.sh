#!/bin/sh
# tools/seed_verify.sh <ID> <srcdir> [checks...]
#   Confirm an independently written breaking change and store it under /verif/seeded/<ID>/.
#   <srcdir> holds patch.diff, demo.py (exit 1 = property violated) and NOTES.md.
#   1. fresh scratch worktree of /repo HEAD: demo passes; apply patch: demo fails; repository suite passes with the patch
#   2. checks (default: the property's own) are run against the patched scratch worktree (PVS_REPO)
#   The scratch worktree is removed afterwards.  Results are appended to seeded/<ID>/verify.log
set -u
ID="$1"; SRC="$2"; shift 2
PROP=$(echo "$ID" | cut -c1-3)
CHECKS="${*:-$PROP}"
DST=/verif/seeded/$ID
mkdir -p "$DST"
cp "$SRC/patch.diff" "$DST/patch.diff"
cp "$SRC/demo.py" "$DST/demo.py"
[ -f "$SRC/NOTES.md" ] && cp "$SRC/NOTES.md" "$DST/NOTES.md"
WT=/tmp/seedchk_$ID
rm -rf "$WT"; git -C /repo worktree prune
git -C /repo worktree add --detach "$WT" HEAD >/dev/null 2>&1 || exit 2
LOG="$DST/verify.log"; : > "$LOG"
run_demo() { (cd "$WT" && PYTHONPATH="$WT/src" timeout 600 /venv/bin/python "$DST/demo.py" >/dev/null 2>&1); echo $?; }
echo "base commit: $(git -C /repo rev-parse --short HEAD)" >> "$LOG"
echo "demo without patch: exit $(run_demo)" >> "$LOG"
if ! git -C "$WT" apply "$DST/patch.diff" 2>>"$LOG"; then echo "PATCH DOES NOT APPLY" >> "$LOG"; cat "$LOG"; git -C /repo worktree remove --force "$WT"; exit 1; fi
echo "demo with patch: exit $(run_demo)" >> "$LOG"
(cd "$WT" && env -u PYVSC_VERIF PYTHONPATH="$WT/src" timeout 3000 /venv/bin/python -m pytest -q -p no:cacheprovider --timeout=900 \
   --continue-on-collection-errors -W ignore::DeprecationWarning -n 6 --junitxml=/tmp/seedchk_$ID.xml ve/unit >/dev/null 2>&1)
/venv/bin/python - "$ID" >> "$LOG" <<'PY'
import sys, xml.etree.ElementTree as ET
try:
    t = ET.parse('/tmp/seedchk_%s.xml' % sys.argv[1])
    tot = bad = 0
    names = []
    for tc in t.iter('testcase'):
        tot += 1
        if any(ch.tag in ('failure', 'error') for ch in tc):
            bad += 1
            names.append("%s::%s" % (tc.get('classname'), tc.get('name')))
    print("repository suite with patch: %d tests, %d failed %s" % (tot, bad, names[:5]))
except Exception as e:
    print("repository suite with patch: NO RESULT (%r)" % (e,))
PY
rm -f /tmp/seedchk_$ID.xml
for c in $CHECKS; do
  out=$(cd /verif && PVS_REPO="$WT" timeout 1800 ./check "$c" --tier quick 2>&1); rc=$?
  echo "check $c (quick) on patched tree: rc=$rc :: $(echo "$out" | grep '^violation:' | head -3 | tr '\n' ';') $(echo "$out" | tail -1)" >> "$LOG"
done
git -C /repo worktree remove --force "$WT"
cat "$LOG"
