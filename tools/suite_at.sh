#!/bin/sh
# tools/suite_at.sh <commit-ish> <tag> : run the repository suite on a scratch worktree of /repo at <commit-ish>
# (hooks OFF), compare with the stable baseline list; prints missing stable passes.  Scratch worktree is removed.
set -e
C="$1"; TAG="$2"
WT=/tmp/pvs_wt_$TAG
rm -rf "$WT"; git -C /repo worktree prune
git -C /repo worktree add --detach "$WT" "$C" >/dev/null 2>&1
cd "$WT"
env -u PYVSC_VERIF PYTHONPATH="$WT/src" /venv/bin/python -m pytest -q -p no:cacheprovider --timeout=900 \
  --continue-on-collection-errors -W ignore::DeprecationWarning -n 10 --junitxml=/tmp/pvs_junit_$TAG.xml > /tmp/pvs_suite_$TAG.log 2>&1 || true
cd /
git -C /repo worktree remove --force "$WT"
/venv/bin/python - "$TAG" <<'PY'
import sys, json, xml.etree.ElementTree as ET
tag = sys.argv[1]
base = json.load(open('/root/.vp/BASELINE.json'))
stable = set(base['stable_pass'])
t = ET.parse('/tmp/pvs_junit_%s.xml' % tag)
passed, failed = set(), set()
for tc in t.iter('testcase'):
    name = "%s::%s" % (tc.get('classname'), tc.get('name'))
    bad = any(ch.tag in ('failure', 'error', 'skipped') for ch in tc)
    (failed if bad else passed).add(name)
missing = sorted(stable - passed)
print("suite[%s]: %d passed, %d failed/skipped; stable baseline %d, missing from passed: %d" % (tag, len(passed), len(failed), len(stable), len(missing)))
for m in missing: print("  MISSING", m)
print("  failed:", sorted(failed)[:20])
PY
