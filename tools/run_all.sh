#!/bin/sh
# tools/run_all.sh [seed...] : run every registered quick check with the given VERIF_SEED values; prints one line per run
cd "$(dirname "$0")/.." || exit 2
for s in ${@:-1}; do
  for p in C01 C02 C03 C04 C05 C06 C07 C08 C09 C10 C11 C12 C13 C14 C15 C16 C17 C18 C19 C20; do
    out=$(VERIF_SEED=$s ./check $p --tier quick 2>&1); rc=$?
    echo "seed=$s rc=$rc $(echo "$out" | tail -1)"
    if [ $rc -ne 0 ]; then echo "$out" | grep -v "^    " | tail -6; fi
  done
done
