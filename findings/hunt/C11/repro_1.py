"""C11 / defect 1: elements of an array bin are named after their ABSOLUTE position in
the coverpoint, so a bin_array that follows another bin gets shifted element names, and
a bin_array made of a range plus single values gets DUPLICATE names.  The cross bins are
named after them, so two different cross bins carry the same name.
"""
import sys
import itertools
import vsc


@vsc.covergroup
class cg_names(object):
    def __init__(self):
        self.with_sample(dict(a=vsc.bit_t(4), b=vsc.bit_t(1)))
        self.cp1 = vsc.coverpoint(self.a, bins={
            "z": vsc.bin(0),
            "a": vsc.bin_array([], [1, 2], 4),      # three value bins: 1, 2, 4
        })
        self.cp2 = vsc.coverpoint(self.b, bins={
            "lo": vsc.bin(0), "hi": vsc.bin(1)})
        self.cr = vsc.cross([self.cp1, self.cp2])


# ---- independent model: bins in declaration order, array elements numbered 0.. inside
# ---- their own array (this is what the library itself does when the array comes first,
# ---- and what doc/source/coverage.rst shows: a[0], a[1], a[2], a[3])
cp1_bins = [("z", {0}), ("a[0]", {1}), ("a[1]", {2}), ("a[2]", {4})]
cp2_bins = [("lo", {0}), ("hi", {1})]
exp_names = ["<%s,%s>" % (n1, n2) for (n1, _), (n2, _) in itertools.product(cp1_bins, cp2_bins)]

cg = cg_names()
cr = cg.get_model().cross_l[0]
got_names = [cr.get_bin_name(i) for i in range(cr.get_n_bins())]

# sample a=2,b=1 and a=4,b=1: two different combinations
cg.sample(2, 1)
cg.sample(4, 1)
cg.sample(4, 1)
hits_by_name = {}
for i in range(cr.get_n_bins()):
    hits_by_name.setdefault(cr.get_bin_name(i), []).append(cr.get_bin_hits(i))

bad = False
print("cross bin names :", got_names)
print("expected        :", exp_names)
if len(set(got_names)) != len(got_names):
    dups = sorted(n for n in set(got_names) if got_names.count(n) > 1)
    print("FAIL: distinct cross bins share a name:", dups)
    for n in dups:
        print("      hits reported under %s: %s  (which one is <value 2> and which <value 4>?)" % (n, hits_by_name[n]))
    bad = True
if got_names != exp_names:
    print("FAIL: cross bins are not named after the coverpoint bins' own element index")
    bad = True
sys.exit(1 if bad else 0)
