"""C11 / defect 5: an iff condition (on a cross or on a coverpoint) that combines two
comparisons with & or |, negates one with ~, or uses inside()/not_inside() is accepted when
the covergroup is built, but every sample() then raises: the sample-time evaluator
(ExprModel.val()) cannot combine two boolean values and has no implementation for unary and
'inside' expressions.  The coverpoints have already been counted when the cross raises, so
coverpoint and cross counts diverge as well.
"""
import sys
import vsc

conds = [
    ("(a > 2) & (b < 5)", lambda s: (s.a > 2) & (s.b < 5), lambda a, b: a > 2 and b < 5),
    ("(a > 6) | (b < 2)", lambda s: (s.a > 6) | (s.b < 2), lambda a, b: a > 6 or b < 2),
    ("~(a > 6)", lambda s: ~(s.a > 6), lambda a, b: not (a > 6)),
    ("a.inside(rangelist(1,[4,5]))", lambda s: s.a.inside(vsc.rangelist(1, [4, 5])), lambda a, b: a in (1, 4, 5)),
    ("a.not_inside(rangelist(1,[4,5]))", lambda s: s.a.not_inside(vsc.rangelist(1, [4, 5])), lambda a, b: a not in (1, 4, 5)),
    # control: a single comparison works
    ("a > 2", lambda s: (s.a > 2), lambda a, b: a > 2),
]

bad = False
for text, mk, oracle in conds:
    @vsc.covergroup
    class cg_iff(object):
        def __init__(self):
            self.with_sample(dict(a=vsc.bit_t(3), b=vsc.bit_t(3)))
            self.cp1 = vsc.coverpoint(self.a, bins={"a": vsc.bin_array([], [0, 7])})
            self.cp2 = vsc.coverpoint(self.b, bins={"b": vsc.bin_array([], [0, 7])})
            self.cr = vsc.cross([self.cp1, self.cp2], iff=mk(self))

    cg = cg_iff()
    m = cg.get_model()
    cr = m.cross_l[0]
    exp = [0] * 64
    errs = {}
    for a in range(8):
        for b in range(8):
            if oracle(a, b):
                exp[a * 8 + b] += 1
            try:
                cg.sample(a, b)
            except Exception as e:
                errs[type(e).__name__ + ": " + str(e)] = errs.get(type(e).__name__ + ": " + str(e), 0) + 1
    got = [cr.get_bin_hits(i) for i in range(64)]
    ok = (got == exp and not errs)
    print("iff=%-34s cross hits got=%2d expected=%2d, cp1 hits=%2d  %s" % (
        text, sum(got), sum(exp), sum(m.coverpoint_l[0].hit_l), "ok" if ok else "FAIL"))
    for k, v in errs.items():
        print("      %d of 64 sample() calls raised %s" % (v, k))
    bad |= not ok
sys.exit(1 if bad else 0)
