"""C11 / defect 3: a covergroup that samples an object passed to sample()
(with_sample(dict(it=item()))) re-binds only the object's FIRST-LEVEL scalar fields to the
sampled object.  Fields of a nested sub-object (it.s.en) and list elements (it.l[0]) stay
bound to the private template object created in with_sample, whose values never change.
A cross whose iff is such a field is gated by a constant: it never counts although its iff
holds on the sampled object (and a coverpoint on such a field always hits the same bin).
"""
import sys
import random
import vsc


@vsc.randobj
class sub_c(object):
    def __init__(self):
        self.en = vsc.rand_bit_t(1)
        self.k = vsc.rand_bit_t(2)


@vsc.randobj
class item_c(object):
    def __init__(self):
        self.a = vsc.rand_bit_t(2)
        self.b = vsc.rand_bit_t(2)
        self.s = vsc.rand_attr(sub_c())
        self.l = vsc.rand_list_t(vsc.bit_t(2), sz=2)


@vsc.covergroup
class cg_obj(object):
    def __init__(self):
        self.with_sample(dict(it=item_c()))
        self.cpa = vsc.coverpoint(self.it.a, bins={"a": vsc.bin_array([], [0, 3])})
        self.cpb = vsc.coverpoint(self.it.b, bins={"b": vsc.bin_array([], [0, 3])})
        self.cpk = vsc.coverpoint(self.it.s.k, bins={"k": vsc.bin_array([], [0, 3])})
        # cross gated by a field of the nested object
        self.cr_sub = vsc.cross([self.cpa, self.cpb], iff=self.it.s.en)
        # cross gated by a list element
        self.cr_lst = vsc.cross([self.cpa, self.cpb], iff=(self.it.l[0] == 1))
        # cross over a coverpoint that reads the nested object
        self.cr_k = vsc.cross([self.cpa, self.cpk])


random.seed(11)
cg = cg_obj()
items = [item_c(), item_c()]
exp = {"cr_sub": [0] * 16, "cr_lst": [0] * 16, "cr_k": [0] * 16}
for n in range(60):
    it = items[n % 2]
    it.a = random.randrange(4)
    it.b = random.randrange(4)
    it.s.en = random.randrange(2)
    it.s.k = random.randrange(4)
    it.l[0] = random.randrange(2)
    cg.sample(it)
    # plain-Python model of the property
    if it.s.en:
        exp["cr_sub"][it.a * 4 + it.b] += 1
    if it.l[0] == 1:
        exp["cr_lst"][it.a * 4 + it.b] += 1
    exp["cr_k"][it.a * 4 + it.s.k] += 1

bad = False
for cr in cg.get_model().cross_l:
    got = [cr.get_bin_hits(i) for i in range(cr.get_n_bins())]
    ok = (got == exp[cr.name])
    print("%-7s %s  total hits got=%d expected=%d" % (cr.name, "ok" if ok else "FAIL", sum(got), sum(exp[cr.name])))
    if not ok:
        print("        got     ", got)
        print("        expected", exp[cr.name])
        bad = True
sys.exit(1 if bad else 0)
