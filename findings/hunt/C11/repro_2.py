"""C11 / defect 2: a bin_array([N], ...) (or auto-bins) whose value count is <= N is not
partitioned; in that branch the running element index is advanced once per RANGE, not
once per value, so a single value after a range is named with an index the range already
used.  The cross again has several bins with one name - here even when the array is the
first (only) bin of the coverpoint.
"""
import sys
import itertools
import vsc


@vsc.covergroup
class cg_names2(object):
    def __init__(self):
        self.with_sample(dict(a=vsc.bit_t(3), b=vsc.bit_t(3)))
        # six values, up to eight bins -> one bin per value
        self.cp1 = vsc.coverpoint(self.a, bins={"b": vsc.bin_array([8], [0, 4], 6)})
        # auto-bins of a 3-bit value (8 <= auto_bin_max) with two ignored values
        self.cp2 = vsc.coverpoint(self.b, ignore_bins={"ig": vsc.bin(5, 7)})
        self.cr = vsc.cross([self.cp1, self.cp2])


exp1 = ["b[%d]" % i for i in range(6)]       # values 0,1,2,3,4,6
exp2 = ["cp2[%d]" % i for i in range(6)]     # values 0,1,2,3,4,6
exp_names = ["<%s,%s>" % t for t in itertools.product(exp1, exp2)]

cg = cg_names2()
m = cg.get_model()
cr = m.cross_l[0]
got1 = [m.coverpoint_l[0].get_bin_name(i) for i in range(m.coverpoint_l[0].get_n_bins())]
got2 = [m.coverpoint_l[1].get_bin_name(i) for i in range(m.coverpoint_l[1].get_n_bins())]
got_names = [cr.get_bin_name(i) for i in range(cr.get_n_bins())]

print("cp1 bins:", got1, " expected", exp1)
print("cp2 bins:", got2, " expected", exp2)
bad = False
if cr.get_n_bins() != 36:
    print("FAIL: cross has", cr.get_n_bins(), "bins, expected 36")
    bad = True
ndup = len(got_names) - len(set(got_names))
if ndup:
    print("FAIL: %d of the %d cross bins repeat the name of another cross bin, e.g." % (ndup, len(got_names)),
          sorted(n for n in set(got_names) if got_names.count(n) > 1)[:4])
    bad = True
if got_names != exp_names:
    print("FAIL: cross bin names differ from <cp1 bin,cp2 bin> of the declared bins")
    bad = True

# show that the two same-named bins are really different combinations
cg.sample(1, 0)   # value 1 -> b[1]
cg.sample(6, 0)   # value 6 -> also reported as b[1]
rep = [(cr.get_bin_name(i), cr.get_bin_hits(i)) for i in range(cr.get_n_bins()) if cr.get_bin_hits(i)]
print("after sample(1,0) and sample(6,0):", rep)
sys.exit(1 if bad else 0)
