"""C11 / defect 6: ignore_bins / illegal_bins are documented to trim their values from
the other bins of the coverpoint, but wildcard_bin and wildcard_bin_array drop the exclusion
list.  A value that the coverpoint declares ignored (or illegal) therefore still hits the
wildcard bin, and the cross counts a combination for a sample whose coverpoint value is, by
declaration, in no bin of that coverpoint.  (With bin/bin_array bins the same declaration
works.)
"""
import sys
import vsc


def mk(kind):
    @vsc.covergroup
    class cg_ign(object):
        def __init__(self):
            self.with_sample(dict(a=vsc.bit_t(4), b=vsc.bit_t(1)))
            if kind == "wildcard":
                bins = {"hi": vsc.wildcard_bin("0b1xxx"),            # 8..15
                        "lo": vsc.wildcard_bin_array([], "0b00xx")}  # 0,1,2,3
            else:
                bins = {"hi": vsc.bin([8, 15]),
                        "lo": vsc.bin_array([], [0, 3])}
            self.cp1 = vsc.coverpoint(self.a, bins=bins,
                                      ignore_bins={"ign": vsc.bin(9)},
                                      illegal_bins={"ill": vsc.bin(2)})
            self.cp2 = vsc.coverpoint(self.b, bins={"b": vsc.bin_array([], [0, 1])})
            self.cr = vsc.cross([self.cp1, self.cp2])
    return cg_ign()


# plain-Python model: which cp1 bin does a value belong to after trimming 9 and 2
def cp1_bin(v):
    if v in (9, 2):
        return None
    if 8 <= v <= 15:
        return 0
    if 0 <= v <= 3:
        return 1 + [0, 1, 3].index(v)      # lo has the elements 0, 1, 3 left
    return None


bad = False
for kind in ("plain", "wildcard"):
    cg = mk(kind)
    cr = cg.get_model().cross_l[0]
    n_exp = (1 + 3) * 2
    print("%s bins: cross has %d bins, expected %d" % (kind, cr.get_n_bins(), n_exp))
    if cr.get_n_bins() != n_exp:
        bad = True
    for v in range(16):
        before = sum(cr.get_bin_hits(i) for i in range(cr.get_n_bins()))
        cg.sample(v, 1)
        delta = sum(cr.get_bin_hits(i) for i in range(cr.get_n_bins())) - before
        want = 0 if cp1_bin(v) is None else 1
        if delta != want:
            print("   FAIL %s bins: sample(a=%d) changed the cross by %d, expected %d%s" % (
                kind, v, delta, want, " (value is in ignore_bins/illegal_bins)" if v in (9, 2) else ""))
            bad = True
sys.exit(1 if bad else 0)
