"""C11 / defect 4: with_sample(dict(it=base_c())) addresses the object's fields by their
POSITION in the template object's (alphabetically ordered) field list.  When an object of a
derived class is sampled - it has the same fields, plus its own - the positions shift, so
the coverpoints and the cross's iff silently read OTHER fields of the sampled object.
"""
import sys
import vsc


@vsc.randobj
class base_c(object):
    def __init__(self):
        self.m = vsc.rand_bit_t(3)
        self.en = vsc.rand_bit_t(1)
        self.k = vsc.rand_bit_t(3)


@vsc.randobj
class derived_c(base_c):
    def __init__(self):
        super().__init__()
        self.aa = vsc.rand_bit_t(3)      # sorts before en/k/m
        self.zz = vsc.rand_bit_t(3)


@vsc.covergroup
class cg_poly(object):
    def __init__(self):
        self.with_sample(dict(it=base_c()))
        self.cpm = vsc.coverpoint(self.it.m, bins={"m": vsc.bin_array([], [0, 7])})
        self.cpk = vsc.coverpoint(self.it.k, bins={"k": vsc.bin_array([], [0, 7])})
        self.cr = vsc.cross([self.cpm, self.cpk], iff=self.it.en)


cg = cg_poly()
cr = cg.get_model().cross_l[0]
exp = [0] * 64
bad = False


def sample(it):
    global bad
    before = [cr.get_bin_hits(i) for i in range(64)]
    cg.sample(it)
    after = [cr.get_bin_hits(i) for i in range(64)]
    got = [cr.get_bin_name(i) for i in range(64) for _ in range(after[i] - before[i])]
    want = ["<m[%d],k[%d]>" % (it.m, it.k)] if it.en else []       # plain-Python model
    ok = (got == want)
    print("%-9s m=%d k=%d en=%d : cross bins incremented %s, expected %s  %s" % (
        type(it).__name__, it.m, it.k, it.en, got, want, "ok" if ok else "FAIL"))
    bad |= not ok


b = base_c()
b.m, b.k, b.en = 1, 2, 1
sample(b)
d = derived_c()
d.m, d.k, d.en, d.aa, d.zz = 3, 4, 1, 7, 6
sample(d)                       # expected <m[3],k[4]>
d.en, d.aa = 0, 1
sample(d)                       # gated off: expected nothing
sys.exit(1 if bad else 0)
