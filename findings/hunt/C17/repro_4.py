# C17 defect 4: list elements that keep a back-reference to their container
# (self.owner = owner) make the container a field of each element. While the
# used-as-random flags are computed for a call, the walk re-enters the ROOT through
# that reference at level > 0 and demotes it to "not random": the top object's own
# pre_/post_randomize are skipped, and every field of the top object that comes
# after the list (in name order) is silently not randomized.
import sys
import vsc

LOG = []

@vsc.randobj
class Child:
    def __init__(self, owner, n):
        self.owner = owner            # plain back-reference to the container
        self.n = n
        self.x = vsc.rand_bit_t(8)
    def pre_randomize(self):
        LOG.append((self.n, "pre"))
    def post_randomize(self):
        LOG.append((self.n, "post"))

@vsc.randobj
class Parent:
    def __init__(self):
        self.a = vsc.rand_bit_t(8)
        self.z = vsc.rand_bit_t(8)
        self.items = vsc.rand_list_t(Child(None, "template"))
        for i in range(2):
            self.items.append(Child(self, "c%d" % i))
    def pre_randomize(self):
        LOG.append(("P", "pre"))
    def post_randomize(self):
        LOG.append(("P", "post"))

p = Parent()
p.set_randstate(vsc.RandState.mkFromSeed(1))
bad = False
zs = set()
for call in range(10):
    LOG.clear()
    p.randomize()
    zs.add(int(p.z))
    # oracle: exact counts. One pre and one post for the top object and each of the
    # two elements, every pre before every post
    exp = {("P", "pre"): 1, ("P", "post"): 1, ("c0", "pre"): 1, ("c0", "post"): 1,
           ("c1", "pre"): 1, ("c1", "post"): 1}
    got = {}
    for e in LOG:
        got[e] = got.get(e, 0) + 1
    if got != exp:
        if not bad:
            print("call %d: callbacks %s" % (call, LOG))
            print("         expected exactly once each of %s" % sorted(exp))
        bad = True
if len(zs) == 1:
    print("rand field 'z' of the top object held %s after all 10 calls (never randomized)" % zs)
    bad = True
if bad:
    print("FAIL: the top object was demoted to non-random by the back-reference of its list elements")
    sys.exit(1)
print("OK")
