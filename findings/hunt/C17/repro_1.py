# C17 defect 1: post_randomize runs before a random-size list has been cut back
# to its solved size, so list.sum / list.product / 'in' / indexing inside the
# callback still see the scratch elements the solver grew the list with.
import sys
import vsc

SEEN = []

@vsc.randobj
class Item:
    def __init__(self):
        self.sl = vsc.randsz_list_t(vsc.uint8_t())

    @vsc.constraint
    def c(self):
        self.sl.size.inside(vsc.rangelist((1, 6)))
        with vsc.foreach(self.sl) as it:
            it > 0

    def post_randomize(self):
        elems = [int(v) for v in self.sl]          # the list the user sees (len == size)
        beyond_ok = False
        try:
            self.sl[len(elems)]                    # one past the end
        except IndexError:
            beyond_ok = True
        SEEN.append(dict(
            n=len(self.sl), elems=elems,
            sum_in_cb=self.sl.sum,
            zero_in=(0 in self.sl),                # every real element is > 0
            index_past_end_raises=beyond_ok))

it = Item()
it.set_randstate(vsc.RandState.mkFromSeed(1))
bad = 0
for i in range(8):
    it.randomize()
    s = SEEN[-1]
    after = [int(v) for v in it.sl]
    # oracle: plain-Python model of the list that the callback must see = the final list
    exp_sum = sum(after)
    ok = (s["elems"] == after and s["sum_in_cb"] == exp_sum and it.sl.sum == exp_sum
          and s["zero_in"] == (0 in after) and s["index_past_end_raises"])
    if not ok:
        bad += 1
        print("call %d: final list %s (sum %d) but post_randomize saw sum=%d, "
              "'0 in list'=%s, list[len] raised IndexError=%s" % (
                  i, after, exp_sum, s["sum_in_cb"], s["zero_in"], s["index_past_end_raises"]))
if bad:
    print("FAIL: post_randomize ran before the random-size list held its final contents in %d of 8 calls" % bad)
    sys.exit(1)
print("OK")
