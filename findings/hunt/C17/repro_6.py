# C17 defect 6: replacing a rand sub-object between two calls (obj.s = vsc.rand_attr(New()))
# is accepted silently, but only the Python attribute changes: the field model keeps
# the OLD object. Later calls run pre_/post_randomize on the detached old object and
# never on (nor randomize) the object the user now sees as obj.s.
# (Scalar fields refuse this with "Cannot re-construct field"; list elements and whole
# lists can be re-assigned and the model follows.)
import sys
import vsc

LOG = []

@vsc.randobj
class Sub:
    def __init__(self, n):
        self.n = n
        self.x = vsc.rand_bit_t(8)
    def pre_randomize(self):
        LOG.append((self.n, "pre"))
    def post_randomize(self):
        LOG.append((self.n, "post"))

@vsc.randobj
class Top:
    def __init__(self):
        self.s = vsc.rand_attr(Sub("old"))
        self.a = vsc.rand_bit_t(8)
    @vsc.constraint
    def c(self):
        self.a == self.s.x

t = Top()
t.set_randstate(vsc.RandState.mkFromSeed(3))
t.randomize()
assert LOG == [("old", "pre"), ("old", "post")], LOG

try:
    t.s = vsc.rand_attr(Sub("new"))
except Exception as e:
    # refusing the assignment outright would be a consistent answer as well
    print("OK (assignment refused: %s)" % e)
    sys.exit(0)

bad = False
for call in range(5):
    LOG.clear()
    t.randomize()
    # oracle: the random sub-object of t is the object t.s denotes ("new"): exactly one
    # pre and one post on it, none on the object that is no longer part of t, and the
    # class constraint a == s.x holds on what the user reads back
    exp = [("new", "pre"), ("new", "post")]
    if LOG != exp or int(t.a) != int(t.s.x):
        print("call %d: callbacks %s (expected %s); t.s is %r, a=%d, t.s.x=%d" % (
            call, LOG, exp, t.s.n, t.a, t.s.x))
        bad = True
if bad:
    print("FAIL: callbacks and solving still address the replaced sub-object")
    sys.exit(1)
print("OK")
