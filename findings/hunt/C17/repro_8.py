# C17 defect 8: free-standing vsc.randomize(x, y) computes the used-as-random flags
# target by target. A target that is also reachable from a LATER target as a non-random
# sub-object is demoted again by that later walk: vsc.randomize(t.cfg, t) neither
# randomizes t.cfg nor calls its callbacks, while vsc.randomize(t, t.cfg) does - and
# then calls them twice.
import sys
import vsc

LOG = []

@vsc.randobj
class Cfg:
    def __init__(self):
        self.x = vsc.rand_bit_t(8)
    @vsc.constraint
    def c(self):
        self.x > 0
    def pre_randomize(self):
        LOG.append(("cfg", "pre"))
    def post_randomize(self):
        LOG.append(("cfg", "post"))

@vsc.randobj
class Top:
    def __init__(self):
        self.cfg = vsc.attr(Cfg())         # not random when only Top is randomized
        self.a = vsc.rand_bit_t(8)
    def pre_randomize(self):
        LOG.append(("top", "pre"))
    def post_randomize(self):
        LOG.append(("top", "post"))

t = Top()
rs = vsc.RandState.mkFromSeed(1)
bad = False
for order in ("top,cfg", "cfg,top"):
    LOG.clear()
    t.cfg.x = 0
    if order == "top,cfg":
        vsc.randomize(t, t.cfg, randstate=rs)
    else:
        vsc.randomize(t.cfg, t, randstate=rs)
    # oracle: both objects are targets of the call: exactly one pre and one post each,
    # whatever the order of the arguments; cfg.x is solved (> 0)
    counts = {k: LOG.count(k) for k in [("top", "pre"), ("top", "post"), ("cfg", "pre"), ("cfg", "post")]}
    if any(v != 1 for v in counts.values()) or int(t.cfg.x) == 0:
        print("vsc.randomize(%s): %s, cfg.x=%d (expected each exactly once and cfg.x > 0)" % (
            order, counts, t.cfg.x))
        bad = True
if bad:
    print("FAIL: callbacks on an explicitly named target depend on the argument order")
    sys.exit(1)
print("OK")
