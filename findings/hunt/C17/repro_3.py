# C17 defect 3: rand_mode of a rand-qualified SUB-OBJECT cannot be switched off.
# Assigning  obj.sub.rand_mode = False  is silently stored as a plain Python attribute
# (the model's rand_mode, which set_used_rand honours, is never touched), so the
# sub-object stays random and keeps getting pre_/post_randomize; reading rand_mode back
# raises AttributeError('_int_rand_info').
import sys
import vsc

LOG = []

@vsc.randobj
class Sub:
    def __init__(self):
        self.x = vsc.rand_bit_t(8)
    def pre_randomize(self):
        LOG.append("Sub.pre")
    def post_randomize(self):
        LOG.append("Sub.post")

@vsc.randobj
class Top:
    def __init__(self):
        self.s = vsc.rand_attr(Sub())
        self.a = vsc.rand_bit_t(8)

t = Top()
t.set_randstate(vsc.RandState.mkFromSeed(3))
with vsc.raw_mode():
    t.s.rand_mode = False          # same idiom as the documented  item.a.rand_mode = False
t.s.x = 5

problems = []
xs = []
for i in range(4):
    t.randomize()
    xs.append(int(t.s.x))
# oracle: a rand-qualified field whose rand_mode is off is not random: no callbacks
# on it (exact count 0) and its content is left alone
if LOG:
    problems.append("callbacks on the sub-object whose rand_mode is off: %s" % LOG)
if xs != [5, 5, 5, 5]:
    problems.append("s.x changed although s is not random: %s" % xs)
try:
    with vsc.raw_mode():
        rm = t.s.rand_mode
    if rm is not False:
        problems.append("rand_mode reads back as %r" % (rm,))
except AttributeError as e:
    problems.append("reading t.s.rand_mode raises AttributeError: %s" % e)

if problems:
    for p in problems:
        print(p)
    print("FAIL: rand_mode=False on a rand sub-object has no effect on the used-as-random status")
    sys.exit(1)
print("OK")
