# C17 defect 7: an object appended to a rand list from post_randomize (after the solve)
# is marked used-as-random like one appended from pre_randomize, and the post_randomize
# walk iterates the live list - so the new element immediately receives post_randomize
# although it was not part of the call: no pre_randomize, never solved.
import sys
import vsc

LOG = []

@vsc.randobj
class Elem:
    def __init__(self, n):
        self.n = n
        self.x = vsc.rand_bit_t(8)
    @vsc.constraint
    def c(self):
        self.x > 0
    def pre_randomize(self):
        LOG.append((self.n, "pre"))
    def post_randomize(self):
        LOG.append((self.n, "post", int(self.x)))

@vsc.randobj
class Top:
    def __init__(self):
        self.l = vsc.rand_list_t(Elem("template"))
        self.l.append(Elem("e0"))
        self.cnt = 0
    def post_randomize(self):
        # queue a follow-up item for the NEXT call
        self.cnt += 1
        self.l.append(Elem("new%d" % self.cnt))

t = Top()
t.set_randstate(vsc.RandState.mkFromSeed(3))
bad = False
for call in range(3):
    LOG.clear()
    t.randomize()
    # oracle: per object, #post == #pre == 1 for the objects in the list when the call
    # started, 0 for anything else; and post_randomize only ever sees a solved x (> 0)
    members = ["e0"] + ["new%d" % i for i in range(1, call + 1)]
    for name in set(e[0] for e in LOG) | set(members):
        npre = sum(1 for e in LOG if e[0] == name and e[1] == "pre")
        npost = sum(1 for e in LOG if e[0] == name and e[1] == "post")
        exp = 1 if name in members else 0
        if (npre, npost) != (exp, exp):
            print("call %d: %s got %d pre / %d post, expected %d / %d" % (call, name, npre, npost, exp, exp))
            bad = True
    for e in LOG:
        if e[1] == "post" and e[2] == 0:
            print("call %d: post_randomize of %s saw x=0, which violates its own constraint x > 0" % (call, e[0]))
            bad = True
if bad:
    print("FAIL: post_randomize ran on an object that was not part of the randomize call")
    sys.exit(1)
print("OK")
