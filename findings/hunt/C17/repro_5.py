# C17 defect 5: a rand sub-object that is handed its parent in the constructor
# (self.owner = owner) freezes the PARENT's field model at that moment: the child's
# model build finds the half-constructed parent among its attributes and builds the
# parent's model right there. The sub-object itself and every field the parent
# declares afterwards never make it into the model: no pre_/post_randomize on the
# rand sub-object, and it is never randomized.
import sys
import vsc

LOG = []

@vsc.randobj
class Child:
    def __init__(self, owner):
        self.owner = owner            # plain back-reference to the parent
        self.x = vsc.rand_bit_t(8)
    def pre_randomize(self):
        LOG.append(("c", "pre"))
    def post_randomize(self):
        LOG.append(("c", "post"))

@vsc.randobj
class Parent:
    def __init__(self):
        self.a = vsc.rand_bit_t(8)
        self.c = vsc.rand_attr(Child(self))
        self.z = vsc.rand_bit_t(8)
    def pre_randomize(self):
        LOG.append(("P", "pre"))
    def post_randomize(self):
        LOG.append(("P", "post"))

p = Parent()
p.set_randstate(vsc.RandState.mkFromSeed(1))
bad = False
xs = set(); zs = set()
for call in range(10):
    LOG.clear()
    p.randomize()
    xs.add(int(p.c.x)); zs.add(int(p.z))
    # oracle: exact sequence for a two-object tree
    exp = [("P", "pre"), ("c", "pre"), ("P", "post"), ("c", "post")]
    if sorted(LOG) != sorted(exp) or [e for e in LOG if e[1] == "pre"] != LOG[:2]:
        if not bad:
            print("call %d: callbacks %s, expected %s" % (call, LOG, exp))
        bad = True
if len(xs) == 1 or len(zs) == 1:
    print("values over 10 calls: c.x in %s, z in %s (never randomized)" % (sorted(xs), sorted(zs)))
    bad = True
print("fields in the parent's model:", [f.name for f in p.get_model().field_l], "- expected a, c, z")
if bad:
    print("FAIL: the rand sub-object holding a back-reference is not part of its parent's randomization")
    sys.exit(1)
print("OK")
