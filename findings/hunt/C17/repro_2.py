# C17 defect 2: which fields are random in a call is decided BEFORE pre_randomize
# runs, so a pre_randomize that switches a field's rand_mode off and assigns it a
# value is ignored for that call: the solver overwrites the value.
import sys
import vsc

@vsc.randobj
class Item:
    def __init__(self):
        self.a = vsc.rand_bit_t(8)
        self.b = vsc.rand_bit_t(8)
        self.freeze = False

    @vsc.constraint
    def ab_c(self):
        self.b == self.a

    def pre_randomize(self):
        if self.freeze:
            with vsc.raw_mode():
                self.a.rand_mode = False      # documented rand_mode API
            self.a = 77                       # 'a' is a non-random field from here on

it = Item()
it.set_randstate(vsc.RandState.mkFromSeed(3))
it.randomize()
it.freeze = True
res = []
for i in range(3):
    it.randomize()
    res.append((int(it.a), int(it.b)))
# oracle: 'a' is non-random and holds 77 when pre_randomize returns; the only
# solution of  b == a  is then (77, 77), in every one of the calls
exp = [(77, 77)] * 3
if res != exp:
    print("(a,b) after the three calls whose pre_randomize froze a at 77: %s, expected %s" % (res, exp))
    print("FAIL: the value assigned by pre_randomize to the (now non-random) field was not the one the solver used")
    sys.exit(1)
print("OK")
