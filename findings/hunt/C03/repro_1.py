"""C03 / defect 1: membership in a random-size list that is NOT random in the call
contributes nothing, so the constraint is unsatisfiable instead of 'one of the
current elements'.

    cd /tmp/hunt_C03 && PYTHONPATH=/tmp/hunt_C03/src /venv/bin/python hunt_out/repro_1.py
"""
import sys
import vsc
from vsc.model.solve_failure import SolveFailure

bad = []

# --- scenario A: free-standing call, the list is simply not passed -----------------
lst = vsc.randsz_list_t(vsc.uint8_t())
lst.extend([3, 5, 9])
a = vsc.rand_uint8_t()
content = [int(v) for v in lst]
# oracle: brute force over the 8-bit domain of 'a'
legal = {v for v in range(256) if v in content}
seen = set()
for seed in range(20):
    try:
        with vsc.randomize_with(a, randstate=vsc.RandState.mkFromSeed(seed)):
            a.inside(lst)
        seen.add(a.get_val())
    except SolveFailure:
        bad.append("A: seed %d: SolveFailure, but %d values of 'a' are legal: %s" % (
            seed, len(legal), sorted(legal)))
        break
if [int(v) for v in lst] != content:
    bad.append("A: the list that was not passed changed: %s" % [int(v) for v in lst])
if not seen <= legal:
    bad.append("A: illegal values %s" % sorted(seen - legal))

# --- scenario B: the list was randomized by its owner earlier; a later call on
#     another object uses its content -----------------------------------------------
@vsc.randobj
class Owner(object):
    def __init__(self):
        self.sl = vsc.randsz_list_t(vsc.uint8_t())
    @vsc.constraint
    def sz_c(self):
        self.sl.size in vsc.rangelist((2, 4))

@vsc.randobj
class Picker(object):
    def __init__(self, owner):
        self.owner = vsc.attr(owner)     # non-random sub-object
        self.pick = vsc.rand_uint8_t()
    @vsc.constraint
    def pick_c(self):
        self.pick in self.owner.sl

o = Owner()
o.set_randstate(vsc.RandState.mkFromSeed(1))
o.randomize()
content = [int(v) for v in o.sl]
p = Picker(o)
p.set_randstate(vsc.RandState.mkFromSeed(2))
try:
    p.randomize()
    if p.pick not in content:
        bad.append("B: pick=%d not in %s" % (p.pick, content))
except SolveFailure:
    bad.append("B: SolveFailure, but 'pick' may be any of %s" % content)
if [int(v) for v in o.sl] != content:
    bad.append("B: the non-random list changed")

if bad:
    print("DEFECT 1 reproduced:")
    for b in bad:
        print("  " + b)
    sys.exit(1)
print("ok")
