"""C03 / defect 2: a randomize call rewrites the stored elements of a NON-random list
of signed elements that a constraint references, so str(list), list.sum and 
list.product read differently before and after the call.

    cd /tmp/hunt_C03 && PYTHONPATH=/tmp/hunt_C03/src /venv/bin/python hunt_out/repro_2.py
"""
import sys
import vsc

@vsc.randobj
class Item(object):
    def __init__(self):
        self.tbl = vsc.list_t(vsc.int8_t(), init=[-1, -100, 5])   # not random
        self.a = vsc.rand_int16_t()
    @vsc.constraint
    def a_c(self):
        self.a == self.tbl[1]

def reads(it):
    return dict(
        elems=[int(v) for v in it.tbl],
        text=str(it.tbl),
        sum=it.tbl.sum,
        product=it.tbl.product)

it = Item()
it.set_randstate(vsc.RandState.mkFromSeed(1))
before = reads(it)
it.randomize()
after = reads(it)

print("a         = %d" % it.a)
print("before    : %s" % before)
print("after     : %s" % after)
print("plain-Python model of the content: sum=%d product=%d" % (
    sum([-1, -100, 5]), (-1)*(-100)*5))

diff = [k for k in before if before[k] != after[k]]
if diff:
    print("DEFECT 2 reproduced: reads of a non-random list changed across randomize(): %s" % diff)
    sys.exit(1)
print("ok")
