"""C03 / defect 4: rand_mode switched off in pre_randomize is not honoured by the call 
that invoked pre_randomize: the field is still solved for and overwritten.

    cd /tmp/hunt_C03 && PYTHONPATH=/tmp/hunt_C03/src /venv/bin/python hunt_out/repro_4.py
"""
import sys
import vsc

@vsc.randobj
class Item(object):
    def __init__(self):
        self.a = vsc.rand_uint8_t()
        self.b = vsc.rand_uint8_t()
        self.freeze_a = False

    def pre_randomize(self):
        if self.freeze_a:
            with vsc.raw_mode():
                self.a.rand_mode = False
            self.a = 5

    @vsc.constraint
    def ab_c(self):
        self.b > self.a

it = Item()
it.set_randstate(vsc.RandState.mkFromSeed(1))
it.randomize()
it.freeze_a = True
res = []
for i in range(4):
    it.randomize()
    res.append((it.a, it.b))

print("(a, b) of the calls whose pre_randomize froze a at 5: %s" % res)
# oracle: at solve time rand_mode of 'a' is off and a == 5 -> a stays 5, b in 6..255
bad = [(i, r) for i, r in enumerate(res) if r[0] != 5 or not (r[1] > 5)]
if bad:
    print("DEFECT 4 reproduced: field with rand_mode off (set in pre_randomize) was randomized: %s" % bad)
    sys.exit(1)
print("ok")
