"""C03 / defect 5: the width of a binary sub-expression is computed once and cached 
(ExprBinModel.width). When an operand is the sum of a list, editing the list between 
calls changes the operand's width, but the enclosing expression keeps the width of the
first call. The result depends on the history of the object: an internal solver error 
after the list has grown, a different solution space after it has shrunk.

    cd /tmp/hunt_C03 && PYTHONPATH=/tmp/hunt_C03/src /venv/bin/python hunt_out/repro_5.py
"""
import sys
import vsc
from vsc.model.solve_failure import SolveFailure

bad = []

# --- A: the non-random list grows between two calls ---------------------------------
def mk_a():
    @vsc.randobj
    class Pkt(object):
        def __init__(self):
            self.lens = vsc.list_t(vsc.uint32_t())     # not random
            self.total = vsc.rand_uint32_t()
        @vsc.constraint
        def total_c(self):
            self.total == self.lens.sum + 1
    return Pkt()

p = mk_a()
p.set_randstate(vsc.RandState.mkFromSeed(1))
p.lens.append(10)
p.randomize()
if p.total != 11:
    bad.append("A: first call: total=%d, expected 11" % p.total)
p.lens.append(20)                                   # edit between calls
expected = sum(int(v) for v in p.lens) + 1          # plain-Python model: 31
try:
    p.randomize()
    if p.total != expected:
        bad.append("A: second call: total=%d, expected %d" % (p.total, expected))
except SolveFailure:
    bad.append("A: second call: SolveFailure, expected total=%d" % expected)
except Exception as e:
    bad.append("A: second call raised %s: %s (expected total=%d)" % (type(e).__name__, e, expected))
# (a fresh object holding the same content solves)
q = mk_a()
q.lens.extend([10, 20])
q.randomize()
print("A: fresh object with lens=[10, 20]: total=%d" % q.total)

# --- B: the non-random list shrinks between two calls --------------------------------
def mk_b():
    @vsc.randobj
    class Acc(object):
        def __init__(self):
            self.tbl = vsc.list_t(vsc.uint8_t())       # not random
            self.a = vsc.rand_uint8_t()
            self.b = vsc.rand_uint8_t()
        @vsc.constraint
        def ab_c(self):
            self.a == self.tbl.sum + self.b
    return Acc()

def feasible(obj, b_val):
    try:
        with obj.randomize_with() as it:
            it.b == b_val
        return (True, obj.a)
    except SolveFailure:
        return (False, None)

hist = mk_b()
hist.set_randstate(vsc.RandState.mkFromSeed(1))
hist.tbl.extend([1, 1, 1, 1])
hist.randomize()
hist.tbl.clear()
hist.tbl.append(200)            # same content as 'fresh' below from here on

fresh = mk_b()
fresh.set_randstate(vsc.RandState.mkFromSeed(1))
fresh.tbl.append(200)

# oracle: both objects hold tbl == [200]; the constraint must mean the same for both
for b_val in (10, 55, 56, 100, 255):
    r_hist = feasible(hist, b_val)
    r_fresh = feasible(fresh, b_val)
    print("B: tbl=[200] b==%3d  object with history: %-14s fresh object: %s" % (b_val, r_hist, r_fresh))
    if r_hist != r_fresh:
        bad.append("B: b==%d: object with history -> %s, fresh object -> %s" % (b_val, r_hist, r_fresh))

if bad:
    print("DEFECT 5 reproduced:")
    for x in bad:
        print("  " + x)
    sys.exit(1)
print("ok")
