"""C03 / defect 3: a randomize call nested in pre_randomize treats the random fields 
of the *outer* call as random too, although they are not passed to it: it ignores 
their current value and overwrites them.

    cd /tmp/hunt_C03 && PYTHONPATH=/tmp/hunt_C03/src /venv/bin/python hunt_out/repro_3.py
"""
import sys
import vsc

@vsc.randobj
class Helper(object):
    def __init__(self):
        self.v = vsc.rand_uint8_t()

@vsc.randobj
class Item(object):
    def __init__(self):
        self.a = vsc.rand_uint8_t()
        self.b = vsc.rand_uint8_t()
        self.helper = vsc.attr(Helper())     # non-random: filled procedurally
        self.log = []

    def pre_randomize(self):
        # Derive the helper from the value 'a' has *now* (the previous draw)
        a_before = self.a
        with self.helper.randomize_with() as h:
            h.v < self.a
        self.log.append((a_before, self.a, self.helper.v))

    @vsc.constraint
    def ab_c(self):
        self.b > self.a

it = Item()
it.set_randstate(vsc.RandState.mkFromSeed(3))
it.helper.set_randstate(vsc.RandState.mkFromSeed(4))
it.a = 10
for i in range(5):
    it.randomize()

bad = []
for i, (a_before, a_after, v) in enumerate(it.log):
    # oracle: 'a' is not passed to helper.randomize_with(): it is a constant there.
    # Legal helper values: {v | v < a_before}; 'a' itself must not move
    if a_after != a_before:
        bad.append("call %d: nested call changed 'a' (not passed to it): %d -> %d" % (i, a_before, a_after))
    if not (v < a_before):
        bad.append("call %d: helper.v=%d is not below a=%d (value at the time of the nested call)" % (i, v, a_before))

print("log (a before nested call, a after nested call, helper.v): %s" % it.log)
if bad:
    print("DEFECT 3 reproduced:")
    for b in bad:
        print("  " + b)
    sys.exit(1)
print("ok")
