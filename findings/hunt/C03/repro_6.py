"""C03 / defect 6: whether a sub-object is random is stored on the sub-object, not on 
the attribute that holds it. An object held with vsc.attr() (non-random) by one owner
is randomized by that owner's randomize() as soon as any other owner has declared the 
same object with vsc.rand_attr() (or appended it to a rand_list_t).

    cd /tmp/hunt_C03 && PYTHONPATH=/tmp/hunt_C03/src /venv/bin/python hunt_out/repro_6.py
"""
import sys
import vsc

@vsc.randobj
class Cfg(object):
    def __init__(self):
        self.max_len = vsc.rand_uint8_t()
        self.mode = vsc.rand_uint8_t()

@vsc.randobj
class Item(object):
    """Uses the configuration; must never change it"""
    def __init__(self, cfg):
        self.cfg = vsc.attr(cfg)            # non-random sub-object
        self.len = vsc.rand_uint8_t()
    @vsc.constraint
    def len_c(self):
        self.len < self.cfg.max_len

@vsc.randobj
class Env(object):
    """Owns the configuration and randomizes it"""
    def __init__(self, cfg):
        self.cfg = vsc.rand_attr(cfg)

def run(with_env):
    cfg = Cfg()
    cfg.max_len = 50
    cfg.mode = 7
    item = Item(cfg)
    item.set_randstate(vsc.RandState.mkFromSeed(1))
    if with_env:
        env = Env(cfg)      # only constructed, never randomized here
    trace = []
    for i in range(4):
        before = (cfg.max_len, cfg.mode)
        item.randomize()
        trace.append((before, (cfg.max_len, cfg.mode), item.len))
    return trace

bad = []
for with_env in (False, True):
    trace = run(with_env)
    print("another owner holds cfg as rand_attr: %s" % with_env)
    for before, after, ln in trace:
        print("   cfg before=%s after=%s  item.len=%d" % (before, after, ln))
        # oracle: cfg is a non-random sub-object of item: unchanged, and len < cfg.max_len
        if before != after:
            bad.append("with_env=%s: item.randomize() changed its non-random sub-object: %s -> %s" % (
                with_env, before, after))
        if not (ln < before[0]):
            bad.append("with_env=%s: len=%d is not below the max_len=%d held at the time of the call" % (
                with_env, ln, before[0]))

if bad:
    print("DEFECT 6 reproduced:")
    for b in bad:
        print("  " + b)
    sys.exit(1)
print("ok")
