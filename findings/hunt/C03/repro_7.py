"""C03 / defect 7: when the size of a random-size list is tied to a NON-random field
(or to the size of a non-random list), the size range is inferred from that field's 
*type* instead of from the value it holds in the call. With a 32-bit field the call 
aborts ('Max size ... exceeds 100000') although the field acts as the constant 3.

    cd /tmp/hunt_C03 && PYTHONPATH=/tmp/hunt_C03/src /venv/bin/python hunt_out/repro_7.py
"""
import sys
import vsc
from vsc.model.solve_failure import SolveFailure

def mk(kind):
    @vsc.randobj
    class Burst(object):
        def __init__(self):
            self.data = vsc.randsz_list_t(vsc.uint8_t())
            self.n = vsc.uint32_t(3)                               # not random
            self.m = vsc.rand_uint32_t(3)                          # rand_mode switched off below
            self.ref = vsc.list_t(vsc.uint8_t(), init=[7, 8, 9])   # not random
        @vsc.constraint
        def size_c(self):
            if kind == "literal":
                self.data.size == 3
            elif kind == "non-random field":
                self.data.size == self.n
            elif kind == "rand_mode-off field":
                self.data.size == self.m
            elif kind == "size of non-random list":
                self.data.size == self.ref.size
    return Burst()

bad = []
for kind in ("literal", "non-random field", "rand_mode-off field", "size of non-random list"):
    b = mk(kind)
    b.set_randstate(vsc.RandState.mkFromSeed(1))
    with vsc.raw_mode():
        b.m.rand_mode = False
    for n in (3, 5):
        b.n = n
        b.m = n
        b.ref.clear()
        b.ref.extend(range(n))
        want = 3 if kind == "literal" else n        # oracle: the constant in force
        try:
            b.randomize()
            got = len(b.data)
            print("%-26s constant=%d -> size %d" % (kind, want, got))
            if got != want:
                bad.append("%s: size %d, expected %d" % (kind, got, want))
        except SolveFailure:
            bad.append("%s: SolveFailure, expected size %d" % (kind, want))
        except Exception as e:
            print("%-26s constant=%d -> %s: %s" % (kind, want, type(e).__name__, e))
            bad.append("%s: raised %s: %s (expected a list of size %d)" % (kind, type(e).__name__, e, want))
        if (b.n, b.m, len(b.ref)) != (n, n, n):
            bad.append("%s: a non-random operand changed" % kind)

if bad:
    print("DEFECT 7 reproduced:")
    for x in bad:
        print("  " + x)
    sys.exit(1)
print("ok")
