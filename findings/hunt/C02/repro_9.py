"""Enum-type fields (and enumerator literals) are hard-wired to SIGNED 32 bits.

An IntEnum with an enumerator >= 2**31 (bit masks, addresses) is re-interpreted
as negative inside the solver, so relational constraints over it fail although
they are satisfiable; an enumerator >= 2**32 makes randomize() raise a
BoolectorException.

Oracle: exhaustive enumeration of the enumerators (the whole domain of the field).
"""
import sys
from enum import IntEnum
import vsc
from vsc.model.solve_failure import SolveFailure

class Region(IntEnum):
    LOW  = 0x00000000
    MID  = 0x40000000
    HIGH = 0x80000000

class Wide(IntEnum):
    A = 1
    B = 0x100000000

@vsc.randobj
class Item:
    def __init__(self):
        self.e = vsc.rand_enum_t(Region)
    @vsc.constraint
    def c(self):
        self.e > Region.MID

@vsc.randobj
class WideItem:
    def __init__(self):
        self.e = vsc.rand_enum_t(Wide)
    @vsc.constraint
    def c(self):
        self.e != Wide.A

bad = []
for name, T, E, pred in (("e > Region.MID", Item, Region, lambda e: e > Region.MID),
                         ("e != Wide.A", WideItem, Wide, lambda e: e != Wide.A)):
    sols = [e for e in E if pred(e)]
    print("%s: solutions %s" % (name, [repr(s) for s in sols]))
    assert len(sols) > 0
    it = T()
    it.set_randstate(vsc.RandState.mkFromSeed(1))
    try:
        it.randomize()
        try:
            v = it.e
        except Exception as e:
            print("  DEFECT: randomize() returned, but the field holds no enumerator (%s: %s)" % (type(e).__name__, e))
            bad.append(name)
            continue
        if v in sols:
            print("  ok: %r" % v)
        else:
            print("  DEFECT: returned %r" % v)
            bad.append(name)
    except SolveFailure:
        print("  DEFECT: SolveFailure on a satisfiable system")
        bad.append(name)
    except Exception as e:
        print("  DEFECT: internal %s: %s" % (type(e).__name__, e))
        bad.append(name)

if bad:
    print("FAIL:", bad)
    sys.exit(1)
print("PASS")
