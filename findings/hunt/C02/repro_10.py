"""A dynamic constraint referenced (by plain call) from inside a foreach body is
mis-copied when the foreach is expanded: the copy visitor has no case for a
dynamic-constraint reference, falls back to visiting the referenced BLOCK in
copy mode, and leaves a stray nested constraint block inside the expansion.

  * under a condition on a random element: randomize() raises IndexError;
  * under a condition that folds to a constant: the referenced constraint is
    silently dropped, and an unsatisfiable system returns normally.

Oracle: exhaustive enumeration of a (3 bits) and the two 3-bit elements.
"""
import sys, itertools
import vsc
from vsc.model.solve_failure import SolveFailure

@vsc.randobj
class Sat:
    def __init__(self):
        self.l = vsc.rand_list_t(vsc.bit_t(3), 2)
        self.a = vsc.rand_bit_t(3)
    @vsc.dynamic_constraint
    def a_is_5(self):
        self.a == 5
    @vsc.constraint
    def c(self):
        with vsc.foreach(self.l, idx=True) as i:
            with vsc.if_then(self.l[i] == 2):
                self.a_is_5()
        self.l[0] == 2
sat_pred = lambda a, x, y: (a == 5 if x == 2 else True) and (a == 5 if y == 2 else True) and x == 2

@vsc.randobj
class Unsat:
    def __init__(self):
        self.l = vsc.rand_list_t(vsc.bit_t(3), 2)
        self.a = vsc.rand_bit_t(3)
    @vsc.dynamic_constraint
    def a_is_5(self):
        self.a == 5
    @vsc.constraint
    def c(self):
        with vsc.foreach(self.l, idx=True) as i:
            with vsc.if_then(i == 1):
                self.a_is_5()
        self.a != 5
unsat_pred = lambda a, x, y: a == 5 and a != 5

bad = []
for name, T, pred in (("dynamic ref under a random condition", Sat, sat_pred),
                      ("dynamic ref under a constant condition", Unsat, unsat_pred)):
    n = sum(1 for v in itertools.product(range(8), repeat=3) if pred(*v))
    print("%s: %d solutions" % (name, n))
    it = T()
    it.set_randstate(vsc.RandState.mkFromSeed(1))
    try:
        it.randomize()
        v = (int(it.a), int(it.l[0]), int(it.l[1]))
        if n == 0:
            print("  DEFECT: unsatisfiable, but returned a=%d l=%s" % (v[0], v[1:]))
            bad.append(name)
        elif pred(*v):
            print("  ok: a=%d l=%s" % (v[0], v[1:]))
        else:
            print("  DEFECT: returned violating a=%d l=%s" % (v[0], v[1:]))
            bad.append(name)
    except SolveFailure:
        if n == 0:
            print("  ok: SolveFailure")
        else:
            print("  DEFECT: SolveFailure on a satisfiable system")
            bad.append(name)
    except Exception as e:
        print("  DEFECT: internal %s: %s" % (type(e).__name__, e))
        bad.append(name)

if bad:
    print("FAIL:", bad)
    sys.exit(1)
print("PASS")
