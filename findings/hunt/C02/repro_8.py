"""A list subscripted by a RANDOM field is resolved with whatever value that
field happens to hold when the constraint is handed to the solver, instead of
being solved together with it.

    self.i == 2
    self.arr[self.i] == 9       # means arr[2] == 9
    self.arr[0] == 1

The index field and the selected element end up in different rand sets: the
element that is really selected (arr[2]) is treated as unconstrained, is given
a random value first and is then frozen; the constraint arr[2] == 9 is checked
against that frozen value, and randomize() raises SolveFailure on a satisfiable
system (unless the random value happens to be 9).

Oracle: exhaustive enumeration over i (2 bits) and four 4-bit elements.
"""
import sys, itertools
import vsc
from vsc.model.solve_failure import SolveFailure

@vsc.randobj
class Item:
    def __init__(self):
        self.arr = vsc.rand_list_t(vsc.bit_t(4), 4)
        self.i = vsc.rand_bit_t(2)
    @vsc.constraint
    def c(self):
        self.i == 2
        self.arr[self.i] == 9
        self.arr[0] == 1

def pred(i, a0, a1, a2, a3):
    arr = (a0, a1, a2, a3)
    return i == 2 and arr[i] == 9 and arr[0] == 1

n = sum(1 for v in itertools.product(range(4), range(16), range(16), range(16), range(16)) if pred(*v))
print("i == 2 and arr[i] == 9 and arr[0] == 1: %d solutions" % n)
assert n > 0

bad = []
for seed in range(6):
    it = Item()
    it.set_randstate(vsc.RandState.mkFromSeed(seed))
    try:
        it.randomize()
        v = (int(it.i),) + tuple(int(e) for e in it.arr)
        if pred(*v):
            print("  seed %d: ok %s" % (seed, v))
        else:
            print("  seed %d: DEFECT: returned i=%d arr=%s" % (seed, v[0], v[1:]))
            bad.append(seed)
    except SolveFailure:
        print("  seed %d: DEFECT: SolveFailure on a satisfiable system" % seed)
        bad.append(seed)
    except Exception as e:
        print("  seed %d: DEFECT: internal %s: %s" % (seed, type(e).__name__, e))
        bad.append(seed)

if bad:
    print("FAIL: seeds", bad)
    sys.exit(1)
print("PASS")
