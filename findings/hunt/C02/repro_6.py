"""A bit-select 'x[n]' of a field that is reached through a list element is
taken for a LIST subscript: randomize() raises AttributeError
("'FieldScalarModel' object has no attribute 'field_l'").

'part select [bit]' is a documented feature, and it works on a plain field
(self.a[4] != 0) and on a field of a sub-object; the slice form x[m:l] works on
list elements too. Only the single-bit form on an expression fails, because
expr.__getitem__ cannot tell a bit-select from a subscript.

Oracle: exhaustive enumeration of the 3-bit values.
"""
import sys, itertools
import vsc
from vsc.model.solve_failure import SolveFailure

@vsc.randobj
class Elem:
    def __init__(self):
        self.x = vsc.rand_bit_t(3)

@vsc.randobj
class Top:
    def __init__(self):
        self.objs = vsc.rand_list_t(Elem(), 0)
        for _ in range(2):
            self.objs.append(Elem())
        self.l = vsc.rand_list_t(vsc.bit_t(3), 2)

def c_obj_const(it):
    it.objs[0].x[2] == 1
    it.objs[1].x[0] == 1
def c_obj_foreach(it):
    with vsc.foreach(it.objs, idx=True) as i:
        it.objs[i].x[2] == 1
def c_scalar_const(it):
    it.l[0][2] == 1
    it.l[1][0] == 1
def c_obj_slice(it):            # control: the slice form works
    it.objs[0].x[2:2] == 1
    it.objs[1].x[0:0] == 1

g_obj = lambda o: (int(o.objs[0].x), int(o.objs[1].x))
g_l = lambda o: (int(o.l[0]), int(o.l[1]))
cases = [
    ("objs[k].x[n], slice form (control)", c_obj_slice, g_obj, lambda a, b: (a >> 2) & 1 == 1 and b & 1 == 1),
    ("objs[k].x[n], constant k", c_obj_const, g_obj, lambda a, b: (a >> 2) & 1 == 1 and b & 1 == 1),
    ("objs[i].x[n] in foreach", c_obj_foreach, g_obj, lambda a, b: (a >> 2) & 1 == 1 and (b >> 2) & 1 == 1),
    ("l[k][n], scalar list", c_scalar_const, g_l, lambda a, b: (a >> 2) & 1 == 1 and b & 1 == 1),
]
bad = []
for name, body, get, pred in cases:
    sols = [v for v in itertools.product(range(8), repeat=2) if pred(*v)]
    assert len(sols) > 0
    t = Top()
    t.set_randstate(vsc.RandState.mkFromSeed(1))
    try:
        with t.randomize_with() as it:
            body(it)
        v = get(t)
        if pred(*v):
            print("%-36s %2d solutions  ok: %s" % (name, len(sols), v))
        else:
            print("%-36s %2d solutions  DEFECT: returned %s" % (name, len(sols), v))
            bad.append(name)
    except SolveFailure:
        print("%-36s %2d solutions  DEFECT: SolveFailure" % (name, len(sols)))
        bad.append(name)
    except Exception as e:
        print("%-36s %2d solutions  DEFECT: internal %s: %s" % (name, len(sols), type(e).__name__, e))
        bad.append(name)

if bad:
    print("FAIL:", bad)
    sys.exit(1)
print("PASS")
