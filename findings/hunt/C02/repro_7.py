"""An element of a list that sits inside a list element cannot be named with
constant indices: 'self.objs[0].arr[1] == 3' makes randomize() raise
NotImplementedError("Cannot subscript an lvalue of type ... ExprIndexedFieldRefModel").

The same element is reachable when the outer index is a foreach index (the
expander rewrites the reference before anything asks for its width), so the
construct as such is supported; only the un-expanded form is not.

Oracle: exhaustive enumeration of the 3-bit element values.
"""
import sys, itertools
import vsc
from vsc.model.solve_failure import SolveFailure

@vsc.randobj
class Inner:
    def __init__(self):
        self.arr = vsc.rand_list_t(vsc.bit_t(3), 2)

def mk(body):
    @vsc.randobj
    class Top:
        def __init__(self):
            self.objs = vsc.rand_list_t(Inner(), 0)
            for _ in range(2):
                self.objs.append(Inner())
        @vsc.constraint
        def top_c(self):
            body(self)
    return Top

def const_idx(self):
    self.objs[0].arr[1] == 3
    self.objs[1].arr[0] > self.objs[0].arr[1]
def foreach_idx(self):          # control: same relation, outer index from a foreach
    with vsc.foreach(self.objs, idx=True) as i:
        with vsc.if_then(i == 0):
            self.objs[i].arr[1] == 3
        with vsc.else_then:
            self.objs[i].arr[0] > 3

pred = lambda a01, a10: a01 == 3 and a10 > a01
sols = [v for v in itertools.product(range(8), repeat=2) if pred(*v)]
print("objs[0].arr[1] == 3 and objs[1].arr[0] > objs[0].arr[1]: %d solutions" % len(sols))
assert len(sols) > 0

bad = []
for name, body in (("foreach index (control)", foreach_idx), ("constant indices", const_idx)):
    t = mk(body)()
    t.set_randstate(vsc.RandState.mkFromSeed(1))
    try:
        t.randomize()
        v = (int(t.objs[0].arr[1]), int(t.objs[1].arr[0]))
        if pred(*v):
            print("  %-24s ok: %s" % (name, v))
        else:
            print("  %-24s DEFECT: returned %s" % (name, v))
            bad.append(name)
    except SolveFailure:
        print("  %-24s DEFECT: SolveFailure on a satisfiable system" % name)
        bad.append(name)
    except Exception as e:
        print("  %-24s DEFECT: internal %s: %s" % (name, type(e).__name__, e))
        bad.append(name)

if bad:
    print("FAIL:", bad)
    sys.exit(1)
print("PASS")
