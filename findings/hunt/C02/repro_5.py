"""Inside a foreach, an implication that guards a neighbour access is not
evaluated before the body is expanded: the out-of-range element is looked up
anyway and randomize() raises IndexError.

    with vsc.foreach(self.l, idx=True) as i:
        with vsc.implies(i < 2):            # 3 elements: i+1 exists for i < 2
            self.l[i] > self.l[i+1]

This is the usual way to write 'descending' (SystemVerilog: foreach (l[i])
(i < 2) -> l[i] > l[i+1]). The same body under vsc.if_then(i < 2) solves,
because constant if-conditions ARE folded during expansion.

Oracle: exhaustive enumeration of the three 3-bit elements.
"""
import sys, itertools
import vsc
from vsc.model.solve_failure import SolveFailure

def mk(guard):
    @vsc.randobj
    class Item:
        def __init__(self):
            self.l = vsc.rand_list_t(vsc.bit_t(3), 3)
        @vsc.constraint
        def desc_c(self):
            with vsc.foreach(self.l, idx=True) as i:
                with guard(i < 2):
                    self.l[i] > self.l[i+1]
    return Item

pred = lambda x, y, z: x > y > z
sols = [v for v in itertools.product(range(8), repeat=3) if pred(*v)]
print("l[0] > l[1] > l[2] over 3-bit elements: %d solutions" % len(sols))
assert len(sols) > 0

bad = []
for name, guard in (("if_then", vsc.if_then), ("implies", vsc.implies)):
    it = mk(guard)()
    it.set_randstate(vsc.RandState.mkFromSeed(1))
    try:
        it.randomize()
        v = tuple(int(e) for e in it.l)
        if pred(*v):
            print("  guard %-8s ok: %s" % (name, v))
        else:
            print("  guard %-8s DEFECT: returned %s" % (name, v))
            bad.append(name)
    except SolveFailure:
        print("  guard %-8s DEFECT: SolveFailure on a satisfiable system" % name)
        bad.append(name)
    except Exception as e:
        print("  guard %-8s DEFECT: internal %s: %s" % (name, type(e).__name__, e))
        bad.append(name)

if bad:
    print("FAIL:", bad)
    sys.exit(1)
print("PASS")
