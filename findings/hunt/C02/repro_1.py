"""Signed '/' and '%' are lowered to the solver's UNSIGNED division/remainder.

A satisfiable system over signed fields is reported unsatisfiable (SolveFailure).
Oracle: exhaustive enumeration of the 4-bit signed domain, with both the
truncating (SystemVerilog/C) and the flooring (Python) meaning of / and %: the
systems below are satisfiable under either meaning.
"""
import sys
import vsc
from vsc.model.solve_failure import SolveFailure

def tdiv(a, b):              # truncating division (SystemVerilog, C)
    q = abs(a) // abs(b)
    return q if (a < 0) == (b < 0) else -q
def tmod(a, b):
    return a - b * tdiv(a, b)

DOM = range(-8, 8)
bad = []

def run(name, obj, preds):
    sols = {k: [a for a in DOM if p(a)] for k, p in preds.items()}
    print("%s: solutions trunc=%s floor=%s" % (name, sols["trunc"], sols["floor"]))
    assert all(len(s) > 0 for s in sols.values()), "oracle: must be satisfiable under both meanings"
    obj.set_randstate(vsc.RandState.mkFromSeed(1))
    try:
        obj.randomize()
    except SolveFailure:
        print("  DEFECT: SolveFailure on a satisfiable system")
        bad.append(name)
        return
    except Exception as e:
        print("  DEFECT: %s: %s" % (type(e).__name__, e))
        bad.append(name)
        return
    a = int(obj.a)
    if a in sols["trunc"] or a in sols["floor"]:
        print("  ok: a=%d" % a)
    else:
        print("  DEFECT: returned a=%d, which satisfies the constraints under neither meaning" % a)
        bad.append(name)

@vsc.randobj
class DivItem:
    def __init__(self):
        self.a = vsc.rand_int_t(4)
    @vsc.constraint
    def c(self):
        self.a / 2 == -3

@vsc.randobj
class ModItem:
    def __init__(self):
        self.a = vsc.rand_int_t(4)
    @vsc.constraint
    def c(self):
        self.a < 0
        self.a % 3 == 0

run("a / 2 == -3", DivItem(), {"trunc": lambda a: tdiv(a, 2) == -3, "floor": lambda a: a // 2 == -3})
run("a < 0 and a % 3 == 0", ModItem(), {"trunc": lambda a: a < 0 and tmod(a, 3) == 0, "floor": lambda a: a < 0 and a % 3 == 0})

if bad:
    print("FAIL:", bad)
    sys.exit(1)
print("PASS")
