"""The 1-bit result of comparing two SIGNED operands is itself treated as signed.

When that result is used as a value (compared with 1, or added up to count how
many relations hold) it is sign-extended, so 'true' becomes -1 instead of 1 and
a satisfiable system raises SolveFailure. The same constraints over unsigned
fields solve.

Oracle: exhaustive enumeration of the 4-bit domains (a comparison is worth 1
when it holds and 0 when it does not, in Python as in SystemVerilog).
"""
import sys, itertools
import vsc
from vsc.model.solve_failure import SolveFailure

bad = []

def run(name, obj, names, dom, pred):
    sols = [v for v in itertools.product(dom, repeat=len(names)) if pred(*v)]
    print("%s: %d solutions" % (name, len(sols)))
    assert len(sols) > 0
    obj.set_randstate(vsc.RandState.mkFromSeed(1))
    try:
        obj.randomize()
    except SolveFailure:
        print("  DEFECT: SolveFailure on a satisfiable system")
        bad.append(name)
        return
    except Exception as e:
        print("  DEFECT: internal %s: %s" % (type(e).__name__, e))
        bad.append(name)
        return
    v = tuple(int(getattr(obj, n)) for n in names)
    if pred(*v):
        print("  ok:", dict(zip(names, v)))
    else:
        print("  DEFECT: returned violating values", dict(zip(names, v)))
        bad.append(name)

def mk(signed):
    T = vsc.rand_int_t if signed else vsc.rand_bit_t
    @vsc.randobj
    class Eq1:
        def __init__(self):
            self.a = T(4)
            self.b = T(4)
        @vsc.constraint
        def c(self):
            (self.a < self.b) == 1
    @vsc.randobj
    class Count:
        def __init__(self):
            self.a = T(4)
            self.b = T(4)
            self.c = T(4)
        @vsc.constraint
        def cnt_c(self):
            # exactly two of the three relations hold
            (self.a < self.b) + (self.b < self.c) + (self.c < self.a) == 2
    return Eq1, Count

for signed in (False, True):
    dom = range(-8, 8) if signed else range(16)
    kind = "signed" if signed else "unsigned"
    Eq1, Count = mk(signed)
    run("%s (a < b) == 1" % kind, Eq1(), ["a", "b"], dom, lambda a, b: int(a < b) == 1)
    run("%s (a<b)+(b<c)+(c<a) == 2" % kind, Count(), ["a", "b", "c"], dom,
        lambda a, b, c: int(a < b) + int(b < c) + int(c < a) == 2)

if bad:
    print("FAIL:", bad)
    sys.exit(1)
print("PASS")
