"""Every Python int in a constraint becomes a SIGNED 32-BIT literal, whatever its value.

  * a literal >= 2**32 makes randomize() raise a BoolectorException (an internal
    exception, on a satisfiable system);
  * a literal in 2**31 .. 2**32-1 compared with a signed 32-bit field is
    re-interpreted as a negative number: a satisfiable system raises SolveFailure.

Oracle: plain integer arithmetic, enumerated over the whole type for the 8-bit
field, and over the only part of the type that the lower bound leaves for the
32-bit ones.
"""
import sys
import vsc
from vsc.model.solve_failure import SolveFailure

bad = []

def run(name, obj, dom, pred):
    sols = [a for a in dom if pred(a)]
    print("%s: %d solutions" % (name, len(sols)))
    assert len(sols) > 0
    obj.set_randstate(vsc.RandState.mkFromSeed(1))
    try:
        obj.randomize()
    except SolveFailure:
        print("  DEFECT: SolveFailure on a satisfiable system")
        bad.append(name)
        return
    except Exception as e:
        print("  DEFECT: internal %s: %s" % (type(e).__name__, e))
        bad.append(name)
        return
    a = int(obj.a)
    if pred(a):
        print("  ok: a=%d" % a)
    else:
        print("  DEFECT: returned a=%d which violates the constraints" % a)
        bad.append(name)

@vsc.randobj
class U8:
    def __init__(self):
        self.a = vsc.rand_uint8_t()
    @vsc.constraint
    def c(self):
        self.a < 0x100000000          # 2**32: true for every value of a

@vsc.randobj
class U32:
    def __init__(self):
        self.a = vsc.rand_uint32_t()
    @vsc.constraint
    def c(self):
        self.a > 0xFFFFFFF0
        self.a < 0x100000000          # 2**32: true for every value of a

@vsc.randobj
class S32:
    def __init__(self):
        self.a = vsc.rand_int32_t()
    @vsc.constraint
    def c(self):
        self.a > 0x7FFFFFF0
        self.a < 0x80000000           # 2**31: true for every value of a

run("uint8 a < 2**32", U8(), range(256), lambda a: a < 0x100000000)
# a > 0xFFFFFFF0 leaves the 15 largest values of the type
run("uint32 a > 0xFFFFFFF0 and a < 2**32", U32(), range(0xFFFFFFF0, 1 << 32),
    lambda a: a > 0xFFFFFFF0 and a < 0x100000000)
# a > 0x7FFFFFF0 leaves the 15 largest values of the type
run("int32 a > 0x7FFFFFF0 and a < 2**31", S32(), range(0x7FFFFFF0, 1 << 31),
    lambda a: a > 0x7FFFFFF0 and a < 0x80000000)

if bad:
    print("FAIL:", bad)
    sys.exit(1)
print("PASS")
