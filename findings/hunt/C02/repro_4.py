"""A dist weight whose value (or range) lies outside the field's type makes
randomize() raise a BoolectorException, although the system is satisfiable.

The hard part of a dist ('a in {20, 5}') is built at 32 bits and solves; the
steering literal that the swizzler builds for the selected weight is created at
the FIELD's width, and a value that does not fit aborts the call. Whether the
call fails depends on which weight the random state selects, so several seeds
are run; a correct library returns a == 5 for every seed (20 is not a value of
a 4-bit field, 5 is).

Oracle: exhaustive enumeration of the 4-bit domain.
"""
import sys
import vsc
from vsc.model.solve_failure import SolveFailure

@vsc.randobj
class Item:
    def __init__(self):
        self.a = vsc.rand_bit_t(4)
    @vsc.constraint
    def c(self):
        vsc.dist(self.a, [vsc.weight(20, 1), vsc.weight(5, 1)])

@vsc.randobj
class ItemRange:
    def __init__(self):
        self.a = vsc.rand_bit_t(4)
    @vsc.constraint
    def c(self):
        vsc.dist(self.a, [vsc.weight((10, 40), 1)])

bad = []
for name, T, pred in (("dist{20,5}", Item, lambda a: a in (20, 5)),
                      ("dist{[10:40]}", ItemRange, lambda a: 10 <= a <= 40)):
    sols = [a for a in range(16) if pred(a)]
    print("%s on a 4-bit field: solutions %s" % (name, sols))
    assert len(sols) > 0
    for seed in range(8):
        it = T()
        it.set_randstate(vsc.RandState.mkFromSeed(seed))
        try:
            it.randomize()
            if int(it.a) not in sols:
                print("  seed %d DEFECT: returned a=%d" % (seed, int(it.a)))
                bad.append((name, seed))
        except SolveFailure:
            print("  seed %d DEFECT: SolveFailure on a satisfiable system" % seed)
            bad.append((name, seed))
        except Exception as e:
            print("  seed %d DEFECT: internal %s: %s" % (seed, type(e).__name__, e))
            bad.append((name, seed))

if bad:
    print("FAIL: %d of 16 calls" % len(bad))
    sys.exit(1)
print("PASS")
