"""C09 defect 1: elements left in a random-size list by an earlier call take part in
the next solve when that call allows fewer elements -> a restored snapshot does not
replay, and a used and a fresh object seeded alike diverge.

Oracles (exact comparisons, no eyeballing):
  (a) get_randstate() snapshot, calls B,A,A, set_randstate(snapshot), calls B,A,A:
      the two value sequences must be identical.
  (b) a used object and a fresh object of the same class that are given the same
      RandState and the same calls must produce identical values (all their
      non-random state is identical).
"""
import sys
import vsc


@vsc.randobj
class Pkt:
    def __init__(self):
        self.l = vsc.randsz_list_t(vsc.uint8_t())
        self.a = vsc.rand_uint8_t()

    @vsc.constraint
    def cc(self):
        self.l.size <= 8
        with vsc.foreach(self.l) as it:
            it < 100


def A(o):     # long list
    with o.randomize_with() as it:
        it.l.size >= 4
    return (o.a, list(o.l))


def B(o):     # short list
    with o.randomize_with() as it:
        it.l.size <= 2
    return (o.a, list(o.l))


bad = 0
for sd in range(8):
    # (a) replay on the same object
    o = Pkt()
    o.set_randstate(vsc.RandState.mkFromSeed(sd))
    A(o)
    snap = o.get_randstate()
    v1 = [B(o), A(o), A(o)]
    o.set_randstate(snap)
    v2 = [B(o), A(o), A(o)]
    if v1 != v2:
        bad += 1
        print("seed %d: restored snapshot does not replay" % sd)
        print("   first : %s" % str(v1))
        print("   replay: %s" % str(v2))

    # (b) used object vs fresh object, same RandState, same calls
    used = Pkt()
    used.set_randstate(vsc.RandState.mkFromSeed(1000 + sd))
    A(used)                      # leaves 4..8 elements in used.l
    fresh = Pkt()
    rs = vsc.RandState.mkFromSeed(sd)
    used.set_randstate(rs)
    fresh.set_randstate(rs)
    u = [B(used), A(used)]
    f = [B(fresh), A(fresh)]
    if u != f:
        bad += 1
        print("seed %d: used and fresh object diverge from one RandState" % sd)
        print("   used : %s" % str(u))
        print("   fresh: %s" % str(f))

if bad:
    print("FAIL: %d mismatches (values depend on the list length left by an earlier call)" % bad)
    sys.exit(1)
print("OK")
sys.exit(0)
