"""C09 defect 3: vsc.randomize(obj) / vsc.randomize_with(obj) ignore the random state
that was set on the object with set_randstate(); they draw a new seed from Python's
global random module on every call.  The values of an explicitly seeded object then
depend on unrelated use of the global random module (and the object's own state is
never advanced).

Oracle (exact): same class, same RandState seed, same sequence of API calls; the only
difference between the two runs is unrelated activity on the global random module.
The property demands identical values.
"""
import random
import sys
import vsc


@vsc.randobj
class Item:
    def __init__(self):
        self.a = vsc.rand_uint8_t()
        self.b = vsc.rand_uint8_t()

    @vsc.constraint
    def ab_c(self):
        self.a < self.b


def run(global_seed, form):
    random.seed(global_seed)          # unrelated: somebody else uses the random module
    o = Item()
    o.set_randstate(vsc.RandState.mkFromSeed(7))
    before = o.get_randstate().rng.getstate()
    out = []
    for i in range(4):
        if form == "randomize":
            vsc.randomize(o)
        else:
            with vsc.randomize_with(o):
                o.a > 3
        out.append((o.a, o.b))
    advanced = o.get_randstate().rng.getstate() != before
    return out, advanced


bad = 0
for form in ("randomize", "randomize_with"):
    v1, adv1 = run(1, form)
    v2, adv2 = run(2, form)
    if v1 != v2:
        bad += 1
        print("vsc.%s(obj): object seeded with mkFromSeed(7) in both runs" % form)
        print("   global random.seed(1): %s" % str(v1))
        print("   global random.seed(2): %s" % str(v2))
    if not adv1:
        print("   (the object's own RandState was not used at all: it did not advance)")

# reference: the method form honours the object's state
def run_method(global_seed):
    random.seed(global_seed)
    o = Item()
    o.set_randstate(vsc.RandState.mkFromSeed(7))
    out = []
    for i in range(4):
        o.randomize()
        out.append((o.a, o.b))
    return out
assert run_method(1) == run_method(2)

if bad:
    print("FAIL: an explicitly seeded object depends on the global random module")
    sys.exit(1)
print("OK")
sys.exit(0)
