"""C09 defect 4: a dist constraint whose range bounds are random fields is steered with
the values those fields held BEFORE the call (the result of the previous
randomization), so the outcome depends on leftover values and not only on
seed/model/history: a restored snapshot does not replay, and a used and a fresh object
seeded alike diverge.

(The same bounds in a plain 'in' constraint - the documented
 'self.b in vsc.rangelist(vsc.rng(self.c,self.d))' - replay exactly; checked below.)

Oracles (exact): (a) snapshot / restore replay on one object; (b) used object vs fresh
object from one RandState.  Every produced solution is also checked against the
constraints with plain Python.
"""
import sys
import vsc


@vsc.randobj
class D:
    def __init__(self):
        self.lo = vsc.rand_uint8_t()
        self.hi = vsc.rand_uint8_t()
        self.a = vsc.rand_uint8_t()

    @vsc.constraint
    def c(self):
        self.lo < self.hi
        vsc.dist(self.a, [
            vsc.weight((self.lo, self.hi), 10),
            vsc.weight(255, 1)])


@vsc.randobj
class I:      # same shape with 'in' instead of 'dist': must (and does) replay
    def __init__(self):
        self.lo = vsc.rand_uint8_t()
        self.hi = vsc.rand_uint8_t()
        self.a = vsc.rand_uint8_t()

    @vsc.constraint
    def c(self):
        self.lo < self.hi
        self.a in vsc.rangelist(vsc.rng(self.lo, self.hi), 255)


def snap(o):
    assert o.lo < o.hi and (o.lo <= o.a <= o.hi or o.a == 255), "illegal solution"
    return (o.lo, o.hi, o.a)


def check(cls):
    bad = 0
    for sd in range(10):
        o = cls()
        o.set_randstate(vsc.RandState.mkFromSeed(sd))
        o.randomize()
        s = o.get_randstate()
        v1 = []
        for i in range(3):
            o.randomize(); v1.append(snap(o))
        o.set_randstate(s)
        v2 = []
        for i in range(3):
            o.randomize(); v2.append(snap(o))
        if v1 != v2:
            bad += 1
            if bad <= 2:
                print("%s seed %d: restored snapshot does not replay" % (cls.__name__, sd))
                print("   first : %s" % str(v1))
                print("   replay: %s" % str(v2))

        used = cls(); used.set_randstate(vsc.RandState.mkFromSeed(500 + sd)); used.randomize()
        fresh = cls()
        rs = vsc.RandState.mkFromSeed(sd)
        used.set_randstate(rs); fresh.set_randstate(rs)
        used.randomize(); fresh.randomize()
        if snap(used) != snap(fresh):
            bad += 1
            if bad <= 4:
                print("%s seed %d: used %s != fresh %s from one RandState" % (
                    cls.__name__, sd, str(snap(used)), str(snap(fresh))))
    return bad


bad_in = check(I)
bad_dist = check(D)
print("mismatches: 'in' form %d, 'dist' form %d (20 comparisons each)" % (bad_in, bad_dist))
if bad_in or bad_dist:
    print("FAIL: the result depends on the values the bound fields held before the call")
    sys.exit(1)
print("OK")
sys.exit(0)
