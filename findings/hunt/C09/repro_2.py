"""C09 defect 2: a snapshot restored from pre_randomize() does not replay the values
that followed it - set_randstate() called from the hook is ignored by the call that
is running (it only takes effect one call later; the draws of the running call come
from an orphaned RandState object).

Oracle (self-consistent, exact): get_randstate() taken in pre_randomize of call k is
the state before any draw of call k, so the values that follow it are those of calls
k, k+1, ...  Restoring that snapshot in pre_randomize of a later call m must make
calls m, m+1 produce the values of calls k, k+1.  A second, external oracle: seeding
from pre_randomize must give the values that seeding just before the call gives.
"""
import sys
import vsc


@vsc.randobj
class Item:
    def __init__(self):
        self.a = vsc.rand_uint8_t()
        self.b = vsc.rand_uint8_t()
        self.take = False
        self.snap = None
        self.restore = None

    @vsc.constraint
    def ab_c(self):
        self.a < self.b

    def pre_randomize(self):
        if self.take:
            self.snap = self.get_randstate()
            self.take = False
        if self.restore is not None:
            self.set_randstate(self.restore)
            self.restore = None


bad = 0

# --- snapshot and restore, both from the hook ---------------------------------
o = Item()
o.set_randstate(vsc.RandState.mkFromSeed(11))
o.randomize()
o.take = True
first = []
for i in range(2):                 # calls k, k+1
    o.randomize()
    first.append((o.a, o.b))
o.randomize()
o.randomize()
o.restore = o.snap
replay = []
for i in range(2):                 # calls m, m+1
    o.randomize()
    replay.append((o.a, o.b))
if first != replay:
    bad += 1
    print("snapshot taken in pre_randomize, restored in pre_randomize:")
    print("   values that followed the snapshot: %s" % str(first))
    print("   values after restoring it        : %s" % str(replay))

# --- external oracle: seed in the hook == seed before the call -----------------
ref = Item()
ref.set_randstate(vsc.RandState.mkFromSeed(42))
exp = []
for i in range(3):
    ref.randomize()
    exp.append((ref.a, ref.b))

p = Item()
p.set_randstate(vsc.RandState.mkFromSeed(1))
p.randomize()
p.restore = vsc.RandState.mkFromSeed(42)
got = []
for i in range(3):
    p.randomize()
    got.append((p.a, p.b))
if exp != got:
    bad += 1
    print("set_randstate(mkFromSeed(42)) from pre_randomize:")
    print("   expected (seeded before the call): %s" % str(exp))
    print("   got                              : %s" % str(got))
    if got[1:] == exp[:2]:
        print("   -> the new state is used one call late; the running call ignored it")

if bad:
    print("FAIL")
    sys.exit(1)
print("OK")
sys.exit(0)
