#!/usr/bin/env python
"""C05 / defect 3: the soft constraints of a dynamic constraint are silently discarded
when the dynamic constraint is referenced inside an expression (the documented
'it.d1() | it.d2()' / '&' forms) instead of as a statement of its own.

'it.small() & (it.b == 1)' makes 'small' hold in full, so its soft 'a == 3' is applicable
and can be honoured together with the hard constraints - the property demands a == 3.
The equivalent two-statement form (it.small() ; it.b == 1) is used as a cross-check.

Oracle: exact greedy reference over the enumerated value space.
"""
import itertools, sys
import vsc


def reference(domains, hard, soft):
    names = list(domains)
    sols = []
    for vals in itertools.product(*[domains[n] for n in names]):
        env = dict(zip(names, vals))
        if all(h(env) for h in hard):
            sols.append(env)
    assert sols
    for s in reversed(soft):
        nxt = [e for e in sols if s(e)]
        if nxt:
            sols = nxt
    return sols


@vsc.randobj
class Item:
    def __init__(self):
        self.a = vsc.rand_bit_t(4)
        self.b = vsc.rand_bit_t(4)

    @vsc.dynamic_constraint
    def small(self):
        self.a < 8
        vsc.soft(self.a == 3)


dom = {'a': range(16), 'b': range(16)}
allowed = reference(dom,
                    [lambda e: e['a'] < 8, lambda e: e['b'] == 1],
                    [lambda e: e['a'] == 3])

it = Item()
it.set_randstate(vsc.RandState.mkFromSeed(1))
bad = 0
for k in range(6):
    with it.randomize_with() as i:
        i.small()
        i.b == 1
    env2 = {'a': int(it.a), 'b': int(it.b)}
    with it.randomize_with() as i:
        i.small() & (i.b == 1)
    env1 = {'a': int(it.a), 'b': int(it.b)}
    ok1 = env1 in allowed
    ok2 = env2 in allowed
    print("call %d: statement form %s %s | expression form %s %s" % (
        k, env2, "ok" if ok2 else "WRONG", env1, "ok" if ok1 else "WRONG (soft 'a == 3' of small() dropped)"))
    if not (ok1 and ok2):
        bad += 1

if bad:
    print("FAIL: %d calls; reference allows only %s" % (bad, allowed))
    sys.exit(1)
print("OK")
