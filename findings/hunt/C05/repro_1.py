#!/usr/bin/env python
"""C05 / defect 1: a soft constraint inside a dynamic constraint that is referenced
more than once in one call outranks soft constraints stated LATER (same block, and inline).

Oracle: exact greedy-by-priority reference over the exhaustively enumerated value space.
"""
import itertools, sys
import vsc


def reference(domains, hard, soft):
    """domains: {name: range}; hard: [pred(env)]; soft: [pred(env)] in statement
    order (later = higher priority). Returns the set of allowed solutions."""
    names = list(domains)
    sols = []
    for vals in itertools.product(*[domains[n] for n in names]):
        env = dict(zip(names, vals))
        if all(h(env) for h in hard):
            sols.append(env)
    assert sols, "reference: hard constraints unsatisfiable"
    for s in reversed(soft):
        nxt = [e for e in sols if s(e)]
        if nxt:
            sols = nxt
    return sols


@vsc.randobj
class Item:
    def __init__(self):
        self.a = vsc.rand_bit_t(1)
        self.x = vsc.rand_bit_t(4)

    @vsc.dynamic_constraint
    def dflt(self):
        vsc.soft(self.x == 3)

    @vsc.constraint
    def c(self):
        with vsc.if_then(self.a == 1):
            self.dflt()
        with vsc.else_then:
            self.dflt()
        vsc.soft(self.x == 5)       # stated later in the same block: must win


dom = {'a': range(2), 'x': range(16)}
bad = 0

# -- scenario A: class-level only, guard pinned by an inline hard constraint
hard = [lambda e: e['a'] == 0]
soft = [lambda e: (e['a'] != 1) or e['x'] == 3,      # if a==1: dflt()
        lambda e: (e['a'] == 1) or e['x'] == 3,      # else:    dflt()
        lambda e: e['x'] == 5]
allowed = reference(dom, hard, soft)
it = Item()
it.set_randstate(vsc.RandState.mkFromSeed(1))
for k in range(4):
    with it.randomize_with() as i:
        i.a == 0
    env = {'a': int(it.a), 'x': int(it.x)}
    if env not in allowed:
        bad += 1
        print("A call %d: got %s, reference allows only %s "
              "(later soft 'x == 5' of the same block lost to the earlier soft inside dflt())" % (k, env, allowed))

# -- scenario B: an inline soft must beat the class-level ones
soft_b = soft + [lambda e: e['x'] == 9]
allowed_b = reference(dom, hard, soft_b)
it2 = Item()
it2.set_randstate(vsc.RandState.mkFromSeed(2))
for k in range(4):
    with it2.randomize_with() as i:
        i.a == 0
        vsc.soft(i.x == 9)
    env = {'a': int(it2.a), 'x': int(it2.x)}
    if env not in allowed_b:
        bad += 1
        print("B call %d: got %s, reference allows only %s "
              "(inline soft 'x == 9' lost to a class-level soft inside dflt())" % (k, env, allowed_b))

if bad:
    print("FAIL: %d calls violate 'later soft wins / inline over class-level'" % bad)
    sys.exit(1)
print("OK")
