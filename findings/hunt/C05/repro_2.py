#!/usr/bin/env python
"""C05 / defect 2: soft priorities are cleared BEFORE pre_randomize runs, so an object
that joins the hierarchy in pre_randomize (appended to a list) keeps the priorities a
previous, standalone randomize() call left on its class-level soft constraints. Those
stale values are added to the ones of the current call, and a class-level soft of the
element then outranks an INLINE soft of the call.

Oracle: exact greedy-by-priority reference over the enumerated value space.
"""
import itertools, sys
import vsc


def reference(domains, hard, soft):
    names = list(domains)
    sols = []
    for vals in itertools.product(*[domains[n] for n in names]):
        env = dict(zip(names, vals))
        if all(h(env) for h in hard):
            sols.append(env)
    assert sols
    for s in reversed(soft):
        nxt = [e for e in sols if s(e)]
        if nxt:
            sols = nxt
    return sols


@vsc.randobj
class Child:
    def __init__(self):
        self.x = vsc.rand_bit_t(4)
        self.y = vsc.rand_bit_t(4)

    @vsc.constraint
    def cc(self):
        vsc.soft(self.y == 2)
        vsc.soft(self.y != 3)
        vsc.soft(self.x == 1)      # class-level default


def mk_parent_cls(pool):
    @vsc.randobj
    class Parent:
        def __init__(self):
            self.l = vsc.rand_list_t(Child(), sz=0)

        def pre_randomize(self):
            # (re)populate the list from a pool of existing items
            self.l.clear()
            for c in pool:
                self.l.append(c)
    return Parent


dom = {'x': range(16), 'y': range(16)}
soft = [lambda e: e['y'] == 2, lambda e: e['y'] != 3, lambda e: e['x'] == 1,   # class level (Child.cc)
        lambda e: e['x'] == 7]                                                # inline
allowed = reference(dom, [], soft)

bad = 0
for used_before in (False, True):
    c = Child()
    c.set_randstate(vsc.RandState.mkFromSeed(3))
    if used_before:
        c.randomize()          # the item was randomized on its own earlier
    p = mk_parent_cls([c])()
    p.set_randstate(vsc.RandState.mkFromSeed(1))
    with p.randomize_with() as it:
        vsc.soft(it.l[0].x == 7)
    env = {'x': int(p.l[0].x), 'y': int(p.l[0].y)}
    ok = env in allowed
    print("item randomized standalone before: %-5s -> got %s, reference allows %s : %s" % (
        used_before, env, allowed, "ok" if ok else "WRONG (inline soft lost to a class-level soft)"))
    if not ok:
        bad += 1

if bad:
    print("FAIL: the outcome of the same call depends on the history of the appended object")
    sys.exit(1)
print("OK")
