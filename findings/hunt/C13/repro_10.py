"""vsc.report_coverage() (default: stdout) does not print the report returned by
vsc.get_coverage_report(): a leftover debug print in the save visitor adds one
'cg.typename=<T>' line per covergroup type in front of it (and every call of
get_coverage_report()/get_coverage_report_model()/write_coverage_db() prints them too)."""
import sys, io, contextlib
import vsc

@vsc.covergroup
class cg_p(object):
    def __init__(self):
        self.with_sample(a=vsc.bit_t(4))
        self.cp1 = vsc.coverpoint(self.a, bins={"a": vsc.bin_array([], 1, 2, 4, 8)})

cg1 = cg_p(); cg1.sample(1)

buf = io.StringIO()
with contextlib.redirect_stdout(buf):
    expected = vsc.get_coverage_report(details=True)   # the report text proper
leak1 = buf.getvalue()

buf = io.StringIO()
with contextlib.redirect_stdout(buf):
    vsc.report_coverage(details=True)                  # documented: writes the report to stdout
printed = buf.getvalue()

buf = io.StringIO()
with contextlib.redirect_stdout(buf):
    vsc.write_coverage_db(io.StringIO())
leak2 = buf.getvalue()

bad = []
if printed != expected:
    extra = [l for l in printed.splitlines() if l not in expected.splitlines()]
    bad.append("report_coverage() printed lines that are not part of the report: %s" % extra)
if leak1:
    bad.append("get_coverage_report() wrote to stdout: %r" % leak1)
if leak2:
    bad.append("write_coverage_db() wrote to stdout: %r" % leak2)
for b in bad:
    print("DEFECT:", b)
sys.exit(1 if bad else 0)
