"""Empty covergroup population (a run in which no covergroup was instantiated):
write_coverage_db() writes an XML file that violates the UCIS schema (no
instanceCoverages element), so it cannot be read back at all."""
import sys, io
import vsc
from vsc.impl.coverage_registry import CoverageRegistry
from ucis.xml.xml_factory import XmlFactory
from ucis.report.coverage_report_builder import CoverageReportBuilder
from _common import quiet

assert len(CoverageRegistry.inst().covergroup_types()) == 0
assert quiet(vsc.get_coverage_report) == ""            # the in-memory report is fine: nothing to show
assert quiet(vsc.get_coverage_report_model).covergroups == []

out = io.StringIO()
quiet(vsc.write_coverage_db, out)                      # succeeds silently
bad = []
try:
    rep = CoverageReportBuilder.build(XmlFactory.read(io.StringIO(out.getvalue())))
    if rep.covergroups != []:
        bad.append("re-read report not empty")
except Exception as e:
    bad.append("saved XML cannot be read back: %s: %s" % (type(e).__name__, str(e).splitlines()[0]))

for b in bad:
    print("DEFECT:", b)
sys.exit(1 if bad else 0)
