"""A covergroup whose sample parameter (or coverpoint) is called 'name' makes every
report and save raise: the facade keeps the instance name in the user's attribute
namespace (self.name) and takes whatever it finds there as the instance name."""
import sys, io, traceback
import vsc
from _common import quiet

@vsc.covergroup
class cg_reg(object):
    def __init__(self):
        self.with_sample(name=vsc.bit_t(2), a=vsc.bit_t(2))
        self.cp_n = vsc.coverpoint(self.name, bins={"v": vsc.bin_array([], [0, 3])})
        self.cp_a = vsc.coverpoint(self.a, bins={"v": vsc.bin_array([], [0, 3])})

cg = cg_reg()
cg.sample(1, 2)
assert quiet(cg.get_inst_coverage) == 25.0            # sampling and the query API work

bad = []
iname = cg.get_model().name
if not isinstance(iname, str):
    bad.append("instance name held by the model is %r, not a string" % (iname,))
for what, fn in (("get_coverage_report_model", lambda: vsc.get_coverage_report_model()),
                 ("get_coverage_report", lambda: vsc.get_coverage_report(details=True)),
                 ("write_coverage_db", lambda: vsc.write_coverage_db(io.StringIO()))):
    try:
        quiet(fn)
    except Exception as e:
        bad.append("%s raised %s: %s" % (what, type(e).__name__, e))

for b in bad:
    print("DEFECT:", b)
sys.exit(1 if bad else 0)
