"""A covergroup without coverpoints (e.g. all of them switched off by a constructor
parameter): get_coverage()/get_inst_coverage() return 100.0, every report shows 0%."""
import sys
import vsc
from _common import quiet

@vsc.covergroup
class cg_opt(object):
    def __init__(self, with_a):
        self.with_sample(a=vsc.bit_t(4))
        if with_a:
            self.cp_a = vsc.coverpoint(self.a, bins={"a": vsc.bin(1, 2, 4)})

cg = cg_opt(False)
cg.sample(1)

mem_t, mem_i = quiet(cg.get_coverage), quiet(cg.get_inst_coverage)
rep = quiet(vsc.get_coverage_report_model).covergroups[0]
txt = quiet(vsc.get_coverage_report)
bad = []
if abs(rep.coverage - mem_t) > 1e-6:
    bad.append("report TYPE coverage %.2f, get_coverage() %.2f" % (rep.coverage, mem_t))
if abs(rep.covergroups[0].coverage - mem_i) > 1e-6:
    bad.append("report INST coverage %.2f, get_inst_coverage() %.2f" % (rep.covergroups[0].coverage, mem_i))
if bad:
    print(txt)
for b in bad:
    print("DEFECT:", b)
sys.exit(1 if bad else 0)
