"""More than 1000 equally-named (e.g. unnamed) instances of one covergroup type:
the generated instance names stop being unique, so the report contains several
instances under the same name and the saved XML can no longer tell them apart."""
import sys, io
from lxml import etree
import vsc
from _common import quiet

@vsc.covergroup
class cg_port(object):
    def __init__(self):
        self.with_sample(a=vsc.bit_t(2))
        self.cp = vsc.coverpoint(self.a, bins={"v": vsc.bin_array([], [0, 3])})

N = 1003
insts = [cg_port() for _ in range(N)]
# make the last three distinguishable: instance k gets (k - 999) hits in bin v[0]
for k in (1000, 1001, 1002):
    for _ in range(k - 999):
        insts[k].sample(0)

bad = []
rep = quiet(vsc.get_coverage_report_model)
names = [i.name for i in rep.covergroups[0].covergroups]
assert len(names) == N
dups = sorted(set(n for n in names if names.count(n) > 1))
if dups:
    bad.append("report: %d instances but only %d distinct INST names; duplicated: %s (positions %s)" % (
        N, len(set(names)), dups, [i for i, n in enumerate(names) if n in dups]))

out = io.StringIO()
quiet(vsc.write_coverage_db, out)
xml_names = [e.get("name") for e in etree.fromstring(out.getvalue().encode()).iter("{*}cgInstance")]
if len(set(xml_names)) != N:
    bad.append("XML: %d cgInstance elements, %d distinct names" % (len(xml_names), len(set(xml_names))))

for b in bad:
    print("DEFECT:", b)
sys.exit(1 if bad else 0)
