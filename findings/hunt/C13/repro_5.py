"""The covergroup 'weight' option (doc/source/coverage.rst, "Specifying Covergroup
Options", both examples) is dropped by reports and saves: every TYPE and INST
scope is emitted with weight 1, whatever is held in the covergroup's model."""
import sys, io
from lxml import etree
import vsc
from _common import quiet

@vsc.covergroup
class cg_w(object):                                    # verbatim documentation example
    def __init__(self, weight=1):
        self.with_sample(a=vsc.bit_t(4))
        self.options.weight = weight
        self.cp1 = vsc.coverpoint(self.a, bins={
            "a": vsc.bin(1, 2, 4),
            "b": vsc.bin(8, [12, 15])})

cg1 = cg_w(10)
cg2 = cg_w(20)
cg1.sample(1)

mem = [cg1.get_model().options.weight, cg2.get_model().options.weight]
assert mem == [10, 20]                                  # what is held in memory

bad = []
rep = quiet(vsc.get_coverage_report_model).covergroups[0]
got = [i.weight for i in rep.covergroups]
if got != mem:
    bad.append("report model INST weights %s, in memory %s" % (got, mem))

out = io.StringIO()
quiet(vsc.write_coverage_db, out)
got = [int(e.find("{*}options").get("weight"))
       for e in etree.fromstring(out.getvalue().encode()).iter("{*}cgInstance")]
if got != mem:
    bad.append("XML cgInstance/options@weight %s, in memory %s" % (got, mem))

for b in bad:
    print("DEFECT:", b)
sys.exit(1 if bad else 0)
