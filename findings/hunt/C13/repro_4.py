"""coverpoint.get_coverage() / cross.get_coverage() on the user-facing coverpoint
objects return the INSTANCE coverage; they never agree with the type-level
CVP/CROSS percentages of the report once a type has more than one instance
(covergroup.get_coverage() does return the type coverage)."""
import sys
import vsc
from _common import quiet

@vsc.covergroup
class cg_doc(object):                      # the example of doc/source/coverage.rst "Coverage API"
    def __init__(self):
        self.with_sample(a=vsc.bit_t(4), b=vsc.bit_t(4))
        self.cp1 = vsc.coverpoint(self.a, bins={"a": vsc.bin_array([], 1, 2, 4, 8)})
        self.cp2 = vsc.coverpoint(self.b, bins={"b": vsc.bin_array([], 1, 2)})
        self.x = vsc.cross([self.cp1, self.cp2])

cg1 = cg_doc()
cg2 = cg_doc()
h1 = [(1, 1)]
h2 = [(2, 2), (4, 1)]
for s in h1: cg1.sample(*s)
for s in h2: cg2.sample(*s)

# oracle by plain counting
a_bins, b_bins = [1, 2, 4, 8], [1, 2]
def cov(hist):
    cp1 = 100.0 * len({a for a, _ in hist if a in a_bins}) / 4
    x = 100.0 * len({(a, b) for a, b in hist if a in a_bins and b in b_bins}) / 8
    return cp1, x
type_cp1, type_x = cov(h1 + h2)            # 75.0, 37.5
inst_cp1, inst_x = cov(h1)                 # 25.0, 12.5

rep = quiet(vsc.get_coverage_report_model).covergroups[0]
assert abs(rep.coverpoints[0].coverage - type_cp1) < 1e-6          # report TYPE / CVP cp1
assert abs(rep.crosses[0].coverage - type_x) < 1e-6                # report TYPE / CROSS x
assert abs(rep.covergroups[0].coverpoints[0].coverage - inst_cp1) < 1e-6

bad = []
# the covergroup-level API distinguishes type and instance ...
assert quiet(cg1.get_coverage) != quiet(cg1.get_inst_coverage)
# ... the coverpoint-level API does not
got = cg1.cp1.get_coverage()
if abs(got - type_cp1) > 1e-6:
    bad.append("cg1.cp1.get_coverage() = %.2f, report 'TYPE/CVP cp1' = %.2f (cp1.get_inst_coverage() = %.2f)" % (
        got, type_cp1, cg1.cp1.get_inst_coverage()))
got = cg1.x.get_coverage()
if abs(got - type_x) > 1e-6:
    bad.append("cg1.x.get_coverage() = %.2f, report 'TYPE/CROSS x' = %.2f" % (got, type_x))

for b in bad:
    print("DEFECT:", b)
sys.exit(1 if bad else 0)
