"""Helper the C13 reproducers import (re-created: the hunter's original was not copied)."""
import contextlib
import io


def quiet(fn, *a, **kw):
    """call fn with the library's diagnostic prints suppressed"""
    with contextlib.redirect_stdout(io.StringIO()):
        return fn(*a, **kw)
