"""at_least (and goal) never reach the saved database: the UCIS XML says
at_least="1" for every coverpoint/cross, so coverage recomputed from the file
differs from get_coverage()/get_inst_coverage() and from the in-memory report."""
import sys, os, tempfile
from lxml import etree
import vsc
from ucis.xml.xml_factory import XmlFactory
from ucis.report.coverage_report_builder import CoverageReportBuilder
from _common import quiet

@vsc.covergroup
class cg_al(object):
    def __init__(self):
        self.with_sample(dict(a=vsc.uint8_t(), b=vsc.uint8_t()))
        self.options.at_least = 2                     # doc/source/coverage.rst "Coverpoint Options"
        self.cp1 = vsc.coverpoint(self.a, bins={"a": vsc.bin_array([], 1, 2, 4, 8)},
                                  options=dict(at_least=3))
        self.cp2 = vsc.coverpoint(self.b, bins={"b": vsc.bin_array([], 1, 2, 4, 8)})
        self.x = vsc.cross([self.cp1, self.cp2])

cg = cg_al()
hist = [(1, 1), (1, 1), (1, 1), (2, 2), (2, 2), (4, 4), (8, 8)]
for a, b in hist:
    cg.sample(a, b)

# independent oracle: plain counting
def pct(counts, n_bins, at_least):
    return 100.0 * sum(1 for c in counts.values() if c >= at_least) / n_bins
from collections import Counter
exp_cp1 = pct(Counter(a for a, _ in hist), 4, 3)      # 25.0
exp_cp2 = pct(Counter(b for _, b in hist), 4, 2)      # 50.0
exp_x = pct(Counter(hist), 16, 2)                     # 12.5
exp_cg = (exp_cp1 + exp_cp2 + exp_x) / 3

fn = tempfile.mktemp(suffix=".xml")
quiet(vsc.write_coverage_db, fn)
bad = []

# (1) raw XML, read with lxml
doc = etree.parse(fn)
def opts(kind, name):
    for e in doc.iter("{*}" + kind):
        if e.get("name") == name:
            return e.find("{*}options")
for kind, name, want in (("coverpoint", "cp1", 3), ("coverpoint", "cp2", 2), ("cross", "x", 2)):
    got = int(opts(kind, name).get("at_least"))
    if got != want:
        bad.append("XML %s %s: at_least=%d, in memory %d" % (kind, name, got, want))

# (2) consequence (informational: the PyUCIS reader additionally hard-codes the
# per-bin threshold, so only check (1) decides the exit status)
rep = CoverageReportBuilder.build(XmlFactory.read(fn))
os.unlink(fn)
inst = rep.covergroups[0].covergroups[0]
got = dict(cp1=inst.coverpoints[0].coverage, cp2=inst.coverpoints[1].coverage, x=inst.crosses[0].coverage)
for k, want in (("cp1", exp_cp1), ("cp2", exp_cp2), ("x", exp_x)):
    if abs(got[k] - want) > 1e-6:
        print("consequence: re-read %s coverage %.2f%%, counted by hand %.2f%%" % (k, got[k], want))

# in-memory side agrees with the oracle (so the loss is in the saved file)
mem = quiet(cg.get_inst_coverage)
assert abs(mem - exp_cg) < 1e-3, (mem, exp_cg)
mrep = quiet(vsc.get_coverage_report_model).covergroups[0].covergroups[0]
assert abs(mrep.coverpoints[0].coverage - exp_cp1) < 1e-6
if abs(inst.coverage - mem) > 1e-3:
    print("consequence: re-read covergroup coverage %.2f%% vs get_inst_coverage() %.2f%%" % (inst.coverage, mem))

for b in bad:
    print("DEFECT:", b)
sys.exit(1 if bad else 0)
