"""An instance name given through options.name after construction (allowed by the
documentation: options may be configured 'after construction, and before the
covergroup is sampled for the first time') never reaches report or XML; the same
name given through set_name() does."""
import sys, io
from lxml import etree
import vsc
from _common import quiet

@vsc.covergroup
class cg_late(object):
    def __init__(self):
        self.with_sample(a=vsc.bit_t(4))
        self.cp1 = vsc.coverpoint(self.a, bins={"a": vsc.bin(1, 2, 4)})

cg1 = cg_late()
cg1.options.name = "my_cg1"        # as in ve/unit/test_covergroup_options.py::test_comment
cg2 = cg_late()
cg2.set_name("my_cg2")
cg1.sample(1)

expected = [cg1.options.name, cg2.get_name()]          # names held by the user-visible objects
assert expected == ["my_cg1", "my_cg2"]

bad = []
rep = quiet(vsc.get_coverage_report_model).covergroups[0]
got = [i.name for i in rep.covergroups]
if got != expected:
    bad.append("report INST names %s, expected %s" % (got, expected))
out = io.StringIO()
quiet(vsc.write_coverage_db, out)
got = [e.get("name") for e in etree.fromstring(out.getvalue().encode()).iter("{*}cgInstance")]
if got != expected:
    bad.append("XML cgInstance names %s, expected %s" % (got, expected))

for b in bad:
    print("DEFECT:", b)
sys.exit(1 if bad else 0)
