"""An instance is renamed in every report/XML because an UNRELATED covergroup
type has an instance with the same name: instance names are made unique over
the whole database instead of within their own type."""
import sys, os, tempfile
from lxml import etree
import vsc
from _common import quiet

@vsc.covergroup
class cg_rx(object):
    def __init__(self, name):
        self.with_sample(a=vsc.bit_t(2))
        self.options.name = name          # documented 'name' instance option
        self.cp = vsc.coverpoint(self.a, bins={"v": vsc.bin_array([], [0, 3])})

@vsc.covergroup
class cg_tx(object):
    def __init__(self, name):
        self.with_sample(a=vsc.bit_t(2))
        self.options.name = name
        self.cp = vsc.coverpoint(self.a, bins={"v": vsc.bin_array([], [0, 3])})

rx = [cg_rx("port0"), cg_rx("port1")]
tx = [cg_tx("port0"), cg_tx("port1")]
tx[0].sample(1)
tx[1].sample(2)

# oracle: the names held in memory, per type (they are already unique inside each type)
expected = {"cg_rx": ["port0", "port1"], "cg_tx": ["port0", "port1"]}
for insts in (rx, tx):
    assert [i.get_model().name for i in insts] == ["port0", "port1"]

bad = []
rep = quiet(vsc.get_coverage_report_model)
got = {t.name: [i.name for i in t.covergroups] for t in rep.covergroups}
if got != expected:
    bad.append("report model instance names %s, in memory %s" % (got, expected))

txt = quiet(vsc.get_coverage_report)
got_txt = {}
for line in txt.splitlines():
    w = line.split()
    if w[0] == "TYPE":
        cur = w[1]; got_txt[cur] = []
    elif w[0] == "INST":
        got_txt[cur].append(w[1])
if got_txt != expected:
    bad.append("text report instance names %s" % got_txt)

fn = tempfile.mktemp(suffix=".xml")
quiet(vsc.write_coverage_db, fn)
got_xml = {}
for e in etree.parse(fn).iter("{*}cgInstance"):
    got_xml.setdefault(e.find("{*}cgId").get("cgName"), []).append(e.get("name"))
os.unlink(fn)
if got_xml != expected:
    bad.append("XML cgInstance names %s" % got_xml)

for b in bad:
    print("DEFECT:", b)
sys.exit(1 if bad else 0)
