import sys, random, itertools, io, contextlib
import vsc
from vsc.model.solve_failure import SolveFailure

# ---------- AST -------------
class F:  # field ref
    def __init__(s, name, w, sg): s.name, s.w, s.sg = name, w, sg
    def src(s): return "self.%s" % s.name
    def ty(s): return (s.w, s.sg)
class L:
    def __init__(s, v): s.v = v
    def src(s): return "(%d)" % s.v if s.v < 0 else "%d" % s.v
    def ty(s):
        n = s.v.bit_length() + 1
        return (max(32, n), True)
class Bin:
    def __init__(s, op, l, r): s.op, s.l, s.r = op, l, r
    def src(s): return "(%s %s %s)" % (s.l.src(), s.op, s.r.src())
    def ty(s):
        if s.op in CMP: return (1, False)
        lw, ls = s.l.ty(); rw, rs = s.r.ty()
        return (max(lw, rw), ls and rs)
class Not:
    def __init__(s, e): s.e = e
    def src(s): return "(~%s)" % s.e.src()
    def ty(s): return s.e.ty()
class PS:
    def __init__(s, f, hi, lo): s.f, s.hi, s.lo = f, hi, lo
    def src(s):
        if s.lo is None: return "self.%s[%d]" % (s.f.name, s.hi)
        return "self.%s[%d:%d]" % (s.f.name, s.hi, s.lo)
    def ty(s): return ((s.hi - (s.lo if s.lo is not None else s.hi)) + 1, False)
class In:
    def __init__(s, e, items, form): s.e, s.items, s.form = e, items, form
    def src(s):
        its = []
        for it in s.items:
            if isinstance(it, tuple):
                its.append("vsc.rng(%s,%s)" % (it[0].src(), it[1].src()) if s.form & 1 else "(%s,%s)" % (it[0].src(), it[1].src()))
            else:
                its.append(it.src())
        rl = "vsc.rangelist(%s)" % ",".join(its)
        if getattr(s, "neg", False):
            return "%s.not_inside(%s)" % (s.e.src(), rl)
        if s.form & 2 or not getattr(s, "top", False):
            return "%s.inside(%s)" % (s.e.src(), rl)
        return "(%s in %s)" % (s.e.src(), rl)
    def ty(s): return (1, False)

CMP = ("==", "!=", "<", "<=", ">", ">=")

def mask(v, w): return v & ((1 << w) - 1)
def tosigned(v, w):
    v = mask(v, w)
    return v - (1 << w) if v >> (w - 1) else v

def ext(v, fw, sg, tw):
    """v is a fw-bit pattern; extend to tw bits"""
    if tw <= fw: return v
    if sg: return mask(tosigned(v, fw), tw)
    return v

def ev(e, env, ctx=-1):
    """returns bit pattern of width max(ctx, own width)"""
    if isinstance(e, F):
        return mask(env[e.name], e.w)  # own width (parent extends)
    if isinstance(e, L):
        w = max(e.ty()[0], ctx)
        return mask(e.v, w)
    if isinstance(e, PS):
        v = mask(env[e.f.name], e.f.w)
        lo = e.lo if e.lo is not None else e.hi
        return (v >> lo) & ((1 << (e.hi - lo + 1)) - 1)
    if isinstance(e, Not):
        w, sg = e.e.ty()
        # SV: operand extended to context first
        cw = max(ctx, w)
        v = evx(e.e, env, cw, sg)
        return mask(~v, cw)
    if isinstance(e, In):
        lhs = e.e
        r = False
        for it in e.items:
            if isinstance(it, tuple):
                r = r or (truth(Bin(">=", lhs, it[0]), env) and truth(Bin("<=", lhs, it[1]), env))
            else:
                r = r or truth(Bin("==", lhs, it), env)
        return 1 if r else 0
    if isinstance(e, Bin):
        lw, ls = e.l.ty(); rw, rs = e.r.ty()
        sg = ls and rs
        if e.op in CMP:
            cw = max(lw, rw)   # self-determined
        else:
            cw = max(ctx, lw, rw)
        l = evx(e.l, env, cw, sg)
        r = evx(e.r, env, cw, sg)
        if e.op in CMP:
            if sg:
                l = tosigned(l, cw); r = tosigned(r, cw)
            return 1 if {"==": l == r, "!=": l != r, "<": l < r, "<=": l <= r, ">": l > r, ">=": l >= r}[e.op] else 0
        if e.op == "+": return mask(l + r, cw)
        if e.op == "-": return mask(l - r, cw)
        if e.op == "*": return mask(l * r, cw)
        if e.op == "&": return l & r
        if e.op == "|": return l | r
        if e.op == "^": return l ^ r
        if e.op == "<<": return mask(l << r, cw) if r < 256 else 0
        if e.op == ">>": return (l >> r) if r < 256 else 0
        if e.op == "/":
            if r == 0: return None
            return l // r
        if e.op == "%":
            if r == 0: return None
            return l % r
    raise Exception("ev " + str(e))

def evx(e, env, cw, sg):
    w, _ = e.ty()
    v = ev(e, env, cw)
    if v is None: raise ZeroDivisionError()
    # nodes other than field/partselect already come back at width max(cw, w)
    if isinstance(e, (F, PS, In)) or (isinstance(e, Bin) and e.op in CMP):
        return ext(v, w, sg, cw)
    return v

def truth(e, env):
    v = ev(e, env)
    return v != 0

# statements
class SExpr:
    def __init__(s, e): s.e = e
    def src(s, ind): return [ind + s.e.src()]
    def ok(s, env): return truth(s.e, env)
class SIf:
    def __init__(s, arms, els): s.arms, s.els = arms, els
    def src(s, ind):
        out = []
        for i, (c, body) in enumerate(s.arms):
            out.append(ind + "with vsc.%s(%s):" % ("if_then" if i == 0 else "else_if", c.src()))
            for b in body: out += b.src(ind + "    ")
            if not body: out.append(ind + "    pass")
        if s.els is not None:
            out.append(ind + "with vsc.else_then:")
            for b in s.els: out += b.src(ind + "    ")
            if not s.els: out.append(ind + "    pass")
        return out
    def ok(s, env):
        for c, body in s.arms:
            if truth(c, env):
                return all(b.ok(env) for b in body)
        if s.els is not None:
            return all(b.ok(env) for b in s.els)
        return True
class SImp:
    def __init__(s, c, body): s.c, s.body = c, body
    def src(s, ind):
        out = [ind + "with vsc.implies(%s):" % s.c.src()]
        for b in s.body: out += b.src(ind + "    ")
        return out
    def ok(s, env): return (not truth(s.c, env)) or all(b.ok(env) for b in s.body)
class SUniq:
    def __init__(s, fs): s.fs = fs
    def src(s, ind): return [ind + "vsc.unique(%s)" % ",".join(f.src() for f in s.fs)]
    def ok(s, env):
        for a, b in itertools.combinations(s.fs, 2):
            if not truth(Bin("!=", a, b), env): return False
        return True

class Gen:
    def __init__(s, rnd, opts):
        s.r = rnd; s.o = opts
    def fields(s):
        n = s.r.randint(2, 4)
        fl = []
        for i in range(n):
            w = s.r.choice(s.o.get("widths", [1, 2, 3, 4, 5]))
            sg = s.r.random() < s.o.get("psigned", 0.4)
            fl.append(F("f%d" % i, w, sg))
        s.fl = fl
        return fl
    def lit(s):
        if s.o.get("wide") and s.r.random() < 0.5:
            return L(s.r.choice(s.o.get("biglits", [0x7fffffff, -0x80000000, 255, 256, 65535, 1000, 0x7ffffffe, 128, -128, -129, 127, -32768, 32767, 32768])))
        return L(s.r.choice([0, 1, 2, 3, 4, 5, 7, 8, 15, 16, 31, -1, -2, -3, -8]))
    def arith(s, d):
        c = s.r.random()
        if d <= 0 or c < 0.35:
            c2 = s.r.random()
            if c2 < 0.6: return s.r.choice(s.fl)
            if c2 < 0.85: return s.lit()
            f = s.r.choice(s.fl)
            hi = s.r.randint(0, f.w - 1)
            if s.r.random() < 0.4: return PS(f, hi, None)
            return PS(f, hi, s.r.randint(0, hi))
        ops = s.o.get("ops", ["+", "-", "*", "&", "|", "^", "<<", ">>"])
        op = s.r.choice(ops)
        l = s.arith(d - 1)
        if op in ("<<", ">>"):
            us = [f for f in s.fl if not f.sg]
            r = s.r.choice(us) if us and s.r.random() < 0.4 else L(s.r.randint(0, 4))
        else:
            r = s.arith(d - 1)
        if isinstance(l, L) and not s.o.get("lit_lhs", False):
            # python int on the left of an operator is not supported for non-commutative forms; keep fields/exprs on the left
            if isinstance(r, L): l = s.r.choice(s.fl)
            elif op in ("+", "*", "&", "|", "^"): l, r = r, l
            else: l = s.r.choice(s.fl)
        return Bin(op, l, r)
    def boolean(s, d):
        c = s.r.random()
        if d <= 0 or c < 0.55:
            c2 = s.r.random()
            if c2 < 0.75:
                l = s.arith(s.r.randint(0, 2)); r = s.arith(s.r.randint(0, 2))
                if isinstance(l, L):
                    l, r = r, l
                    if isinstance(l, L): l = s.r.choice(s.fl)
                return Bin(s.r.choice(CMP), l, r)
            # in
            lhs = s.r.choice(s.fl) if s.r.random() < 0.7 else s.arith(1)
            if isinstance(lhs, L): lhs = s.r.choice(s.fl)
            items = []
            for _ in range(s.r.randint(1, 3)):
                if s.r.random() < 0.5:
                    a = s.lit() if s.r.random() < 0.7 else s.r.choice(s.fl)
                    b = s.lit() if s.r.random() < 0.7 else s.r.choice(s.fl)
                    items.append((a, b))
                else:
                    items.append(s.lit() if s.r.random() < 0.7 else s.r.choice(s.fl))
            form = s.r.choice([0, 1, 2, 3, 4, 5])
            e = In(lhs, items, form)
            if form & 4:
                e.neg = True
                return NotIn(e)
            return e
        if c < 0.7: return Not(s.boolean(d - 1))
        return Bin(s.r.choice(["&", "|"]), s.boolean(d - 1), s.boolean(d - 1))
    def stmt(s, d):
        c = s.r.random()
        if d <= 0 or c < 0.5:
            e = s.boolean(2)
            if isinstance(e, In) and not isinstance(e, NotIn): e.top = True
            return SExpr(e)
        if c < 0.75:
            arms = []
            for _ in range(s.r.randint(1, 3)):
                arms.append((s.boolean(1), [s.stmt(d - 1) for _ in range(s.r.randint(1, 2))]))
            els = [s.stmt(d - 1) for _ in range(s.r.randint(1, 2))] if s.r.random() < 0.5 else None
            return SIf(arms, els)
        if c < 0.9:
            return SImp(s.boolean(1), [s.stmt(d - 1) for _ in range(s.r.randint(1, 2))])
        k = s.r.randint(2, len(s.fl))
        return SUniq(s.r.sample(s.fl, k))

class NotIn(In):
    def __init__(s, inner): s.inner = inner
    def src(s): return s.inner.src()
    def ty(s): return (1, False)

_orig_ev = ev
def ev(e, env, ctx=-1):
    if isinstance(e, NotIn):
        return 1 - _orig_ev(In(e.inner.e, e.inner.items, 0), env)
    return _orig_ev(e, env, ctx)

_cnt = [0]
def build_class(fl, nonrand, blocks):
    _cnt[0] += 1
    name = "T%d" % _cnt[0]
    lines = ["@vsc.randobj", "class %s:" % name, "    def __init__(self):"]
    for f in fl:
        if f.name in nonrand:
            ctor = "vsc.int_t(%d)" % f.w if f.sg else "vsc.bit_t(%d)" % f.w
        else:
            ctor = "vsc.rand_int_t(%d)" % f.w if f.sg else "vsc.rand_bit_t(%d)" % f.w
        lines.append("        self.%s = %s" % (f.name, ctor))
    for i, stmts in enumerate(blocks):
        lines.append("    @vsc.constraint")
        lines.append("    def c%d(self):" % i)
        for st in stmts:
            lines += st.src("        ")
    src = "\n".join(lines)
    ns = {"vsc": vsc}
    exec(src, ns)
    return ns[name], src

def domain(f):
    return range(-(1 << (f.w - 1)), 1 << (f.w - 1)) if f.sg else range(0, 1 << f.w)

def one(seed, opts, nseeds=6, verbose=False):
    rnd = random.Random(seed)
    g = Gen(rnd, opts)
    fl = g.fields()
    nonrand = {}
    for f in fl[1:]:
        if rnd.random() < 0.2:
            d = domain(f); nonrand[f.name] = rnd.randint(d[0], d[-1])
    blocks = [[g.stmt(opts.get("sd", 2)) for _ in range(rnd.randint(1, opts.get("ns", 3)))] for _ in range(rnd.randint(1, opts.get("nb", 2)))]
    stmts = [s for b in blocks for s in b]
    buf = io.StringIO()
    try:
        with contextlib.redirect_stdout(buf):
            cls, src = build_class(fl, nonrand, blocks)
            obj = cls()
    except Exception as ex:
        return ("builderr", repr(ex), None)
    for n, v in nonrand.items(): setattr(obj, n, v)
    # reference solution set
    randf = [f for f in fl if f.name not in nonrand]
    sols = set()
    wide = opts.get("wide", False)
    try:
      if not wide:
        for vals in itertools.product(*[domain(f) for f in randf]):
              env = dict(nonrand)
              for f, v in zip(randf, vals): env[f.name] = v
              if all(s.ok(env) for s in stmts): sols.add(vals)
    except ZeroDivisionError:
        return ("skip", None, None)
    res = []
    for s in range(nseeds):
        obj.set_randstate(vsc.RandState.mkFromSeed(seed * 100 + s))
        try:
            with contextlib.redirect_stdout(buf):
                obj.randomize()
        except SolveFailure:
            if wide: return ("ok-unsat?", None, None)
            if sols: return ("incomplete", src, (len(sols), sorted(sols)[:3], nonrand))
            return ("ok-unsat", None, None)
        except Exception as ex:
            return ("exc", src, repr(ex))
        vals = tuple(int(getattr(obj, f.name)) for f in randf)
        for n, v in nonrand.items():
            if getattr(obj, n) != v: return ("nonrand-changed", src, (n, v, getattr(obj, n)))
        if wide:
            env = dict(nonrand)
            for f, v in zip(randf, vals): env[f.name] = v
            for f, v in zip(randf, vals):
                if v not in domain(f): return ("VIOLATION-type", src, (f.name, v))
            try:
                okk = all(s.ok(env) for s in stmts)
            except ZeroDivisionError:
                return ("skip", None, None)
            if not okk:
                return ("VIOLATION", src, (dict(zip([f.name for f in randf], vals)), nonrand))
        elif vals not in sols:
            return ("VIOLATION", src, (dict(zip([f.name for f in randf], vals)), nonrand))
    return ("ok", None, None)

if __name__ == "__main__":
    lo, hi = int(sys.argv[1]), int(sys.argv[2])
    opts = {}
    if len(sys.argv) > 3: opts = eval(sys.argv[3])
    stats = {}
    import signal
    class TO(Exception): pass
    def h(*a): raise TO()
    signal.signal(signal.SIGALRM, h)
    for sd in range(lo, hi):
        signal.alarm(20)
        try:
            r = one(sd, opts)
        except TO:
            r = ("timeout", None, None)
        signal.alarm(0)
        sys.stdout.flush()
        stats[r[0]] = stats.get(r[0], 0) + 1
        if r[0] in ("VIOLATION", "VIOLATION-type", "exc", "nonrand-changed", "incomplete"):
            print("=== seed", sd, r[0]); print(r[1]); print(r[2])
    print(stats)
