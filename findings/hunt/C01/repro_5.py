"""Defect 5: every Python integer literal becomes a 32-bit SIGNED literal whatever its value.
A literal in [2**31, 2**32) therefore turns negative when it meets a signed operand of
up to 32 bits (a literal >= 2**32 raises from the solver binding instead).

    a : signed 32-bit, f : 1 bit
    if (a < 0x80000000) f == 1  else f == 0        -- every int32 is < 2**31, so f must be 1
    b : signed 32-bit:   b not in [0 .. 0xFFFFFFFF] -- so b must be negative
Oracle: the same relations evaluated on the returned values with Python integers.
"""
import sys
import vsc

@vsc.randobj
class Item(object):
    def __init__(self):
        self.a = vsc.rand_int32_t()
        self.f = vsc.rand_bit_t(1)
        self.b = vsc.rand_int32_t()
    @vsc.constraint
    def c(self):
        with vsc.if_then(self.a < 0x80000000):
            self.f == 1
        with vsc.else_then:
            self.f == 0
        self.b.not_inside(vsc.rangelist(vsc.rng(0, 0xFFFFFFFF)))

bad = []
o = Item()
for seed in range(1, 11):
    o.set_randstate(vsc.RandState.mkFromSeed(seed))
    o.randomize()
    if o.f != (1 if o.a < 0x80000000 else 0):
        bad.append("seed %d: a=%d f=%d, but a < 0x80000000 holds so f must be 1" % (seed, o.a, o.f))
    if 0 <= o.b <= 0xFFFFFFFF:
        bad.append("seed %d: b=%d lies inside [0 .. 0xFFFFFFFF]" % (seed, o.b))

for b in bad[:10]: print(b)
if bad:
    print("FAIL: %d violations: the literals 0x80000000 / 0xFFFFFFFF were taken as -2**31 / -1" % len(bad))
    sys.exit(1)
print("ok")
