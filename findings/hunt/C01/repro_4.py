"""Defect 4: '~' is applied at the operand's own width; the result is then ZERO-extended to
the width of the surrounding expression (SystemVerilog - and Python - extend first).

    m : 16-bit, k : 8-bit          (m & ~k) == 0      "m has no bit outside k"
    n : 16-bit                     n == ~k
Oracle: brute force on the returned values with 16-bit arithmetic: ~k is 0xFF00 | (~k & 0xFF).
"""
import sys
import vsc

@vsc.randobj
class Item(object):
    def __init__(self):
        self.m = vsc.rand_uint16_t()
        self.n = vsc.rand_uint16_t()
        self.k = vsc.rand_uint8_t()
    @vsc.constraint
    def c(self):
        (self.m & ~self.k) == 0
        self.n == ~self.k

bad = []
o = Item()
for seed in range(1, 11):
    o.set_randstate(vsc.RandState.mkFromSeed(seed))
    o.randomize()
    notk = (~o.k) & 0xFFFF
    if (o.m & notk) != 0:
        bad.append("seed %d: m=0x%04x k=0x%02x: m & ~k = 0x%04x, not 0" % (seed, o.m, o.k, o.m & notk))
    if o.n != notk:
        bad.append("seed %d: n=0x%04x k=0x%02x: ~k is 0x%04x in a 16-bit expression" % (seed, o.n, o.k, notk))

for b in bad[:10]: print(b)
if bad:
    print("FAIL: %d violations: the upper bits of ~k are 0 instead of 1" % len(bad))
    sys.exit(1)
print("ok")
