"""Defect 3: the 1-bit result of a comparison of two SIGNED operands is treated as a signed
number (true == -1) when it is used as an operand.

(a) 'x > 5 implies y > 5' written as  (x > 5) <= (y > 5)   -- x, y signed 4-bit
(b) 'at most one of three flags'     (p == 1) + (q == 1) + (r == 1) <= 1   -- signed fields
With unsigned fields both idioms work; with signed fields the relation is inverted / vacuous.
Oracle: brute-force evaluation with comparison results 0/1 (SystemVerilog and Python agree).
"""
import sys
import vsc

@vsc.randobj
class Imp(object):
    def __init__(self):
        self.x = vsc.rand_int_t(4)
        self.y = vsc.rand_int_t(4)
    @vsc.constraint
    def c(self):
        (self.x > 5) <= (self.y > 5)

@vsc.randobj
class Cnt(object):
    def __init__(self):
        self.p = vsc.rand_int8_t()
        self.q = vsc.rand_int8_t()
        self.r = vsc.rand_int8_t()
    @vsc.constraint
    def c(self):
        self.p in vsc.rangelist(0, 1)
        self.q in vsc.rangelist(0, 1)
        self.r in vsc.rangelist(0, 1)
        (self.p == 1) + (self.q == 1) + (self.r == 1) <= 1

imp_ok = {(x, y) for x in range(-8, 8) for y in range(-8, 8) if int(x > 5) <= int(y > 5)}
cnt_ok = {(p, q, r) for p in (0, 1) for q in (0, 1) for r in (0, 1) if (p == 1) + (q == 1) + (r == 1) <= 1}

bad = []
o = Imp()
for seed in range(1, 31):
    o.set_randstate(vsc.RandState.mkFromSeed(seed))
    o.randomize()
    if (o.x, o.y) not in imp_ok:
        bad.append("seed %d: x=%d y=%d returned for (x > 5) <= (y > 5)" % (seed, o.x, o.y))
o = Cnt()
for seed in range(1, 31):
    o.set_randstate(vsc.RandState.mkFromSeed(seed))
    o.randomize()
    if (o.p, o.q, o.r) not in cnt_ok:
        bad.append("seed %d: p,q,r=%d,%d,%d returned for (p==1)+(q==1)+(r==1) <= 1" % (seed, o.p, o.q, o.r))

for b in bad[:12]: print(b)
if bad:
    print("FAIL: %d draws violate the constraint (comparison results are sign-extended to -1)" % len(bad))
    sys.exit(1)
print("ok")
