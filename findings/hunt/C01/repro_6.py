"""Defect 6: a zero divisor satisfies '/' and '%' constraints (the solver defines x/0 = all ones
and x%0 = x; SystemVerilog yields X - the constraint does not hold - and Python raises).

    a, b : 4-bit unsigned        a / b > 9        only b == 1, a in 10..15 satisfy this
    c, d : 4-bit unsigned        c % d == 3
Oracle: brute force over the 256 value pairs; a pair with a zero divisor is never a solution.
"""
import sys
import vsc

@vsc.randobj
class Item(object):
    def __init__(self):
        self.a = vsc.rand_bit_t(4)
        self.b = vsc.rand_bit_t(4)
        self.c = vsc.rand_bit_t(4)
        self.d = vsc.rand_bit_t(4)
    @vsc.constraint
    def c_div(self):
        self.a / self.b > 9
    @vsc.constraint
    def c_mod(self):
        self.c % self.d == 3

div_ok = {(a, b) for a in range(16) for b in range(1, 16) if a // b > 9}
mod_ok = {(c, d) for c in range(16) for d in range(1, 16) if c % d == 3}

bad = []
o = Item()
for seed in range(1, 41):
    o.set_randstate(vsc.RandState.mkFromSeed(seed))
    o.randomize()
    if (o.a, o.b) not in div_ok:
        bad.append("seed %d: a=%d b=%d returned for a / b > 9" % (seed, o.a, o.b))
    if (o.c, o.d) not in mod_ok:
        bad.append("seed %d: c=%d d=%d returned for c %% d == 3" % (seed, o.c, o.d))

for b in bad[:10]: print(b)
if bad:
    print("FAIL: %d of 80 checks returned a zero divisor (solutions of a/b>9: %s)" % (len(bad), sorted(div_ok)))
    sys.exit(1)
print("ok")
