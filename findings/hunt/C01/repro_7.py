"""Defect 7: a random field used as the INDEX of a list subscript or of a bit-select is not
solved: the constraint is built with the value the index field happened to hold when the
constraint was lowered, and the index is then randomized independently.

    l : list of 4 random 4-bit elements, i : random 2-bit        l[i] == i + 5
    v : random 8-bit one-hot, s : random 3-bit                   v[s] == 1
Oracle: evaluate the relation on the returned values.
"""
import sys
import vsc

@vsc.randobj
class ListIdx(object):
    def __init__(self):
        self.l = vsc.rand_list_t(vsc.bit_t(4), 4)
        self.i = vsc.rand_bit_t(2)
    @vsc.constraint
    def c(self):
        self.l[self.i] == self.i + 5

@vsc.randobj
class BitIdx(object):
    def __init__(self):
        self.v = vsc.rand_bit_t(8)
        self.s = vsc.rand_bit_t(3)
    @vsc.constraint
    def c(self):
        self.v in vsc.rangelist(1, 2, 4, 8, 16, 32, 64, 128)
        self.v[self.s] == 1

bad = []
o = ListIdx()
for seed in range(1, 21):
    o.set_randstate(vsc.RandState.mkFromSeed(seed))
    o.randomize()
    l = [int(x) for x in o.l]
    if l[o.i] != o.i + 5:
        bad.append("seed %d: l=%s i=%d: l[i]=%d but i+5=%d" % (seed, l, o.i, l[o.i], o.i + 5))
p = BitIdx()
for seed in range(1, 21):
    p.set_randstate(vsc.RandState.mkFromSeed(seed))
    p.randomize()
    if (p.v >> p.s) & 1 != 1:
        bad.append("seed %d: v=0x%02x s=%d: bit s of v is 0" % (seed, p.v, p.s))

for b in bad[:10]: print(b)
if bad:
    print("FAIL: %d of 40 draws violate a constraint whose index is a random field" % len(bad))
    sys.exit(1)
print("ok")
