"""Defect 1: '/' and '%' on signed operands are lowered to the UNSIGNED solver operators.

Constraints (a is a signed 8-bit field):   a < 0 ;  a % 3 == 0 ;  (b < 0 ; b / 2 > 100)
Oracle: brute force over the 256 values of the field, with SystemVerilog (truncating)
and with Python (flooring) semantics of signed division - the returned value must be
accepted by at least one of them.
"""
import sys, io, contextlib
import vsc
from vsc.model.solve_failure import SolveFailure

@vsc.randobj
class ModItem(object):
    def __init__(self):
        self.a = vsc.rand_int8_t()
    @vsc.constraint
    def c(self):
        self.a < 0
        self.a % 3 == 0

@vsc.randobj
class DivItem(object):
    def __init__(self):
        self.b = vsc.rand_int8_t()
    @vsc.constraint
    def c(self):
        self.b < 0
        self.b / 2 > 100

def sv_div(x, y):       # truncate toward zero
    q = abs(x) // abs(y)
    return q if (x < 0) == (y < 0) else -q
def sv_mod(x, y):       # sign of the dividend
    return x - y * sv_div(x, y)

mod_ok = {a for a in range(-128, 128) if a < 0 and (sv_mod(a, 3) == 0 or a % 3 == 0)}
div_ok = {b for b in range(-128, 128) if b < 0 and (sv_div(b, 2) > 100 or b // 2 > 100)}   # empty: no solution

bad = []
m = ModItem()
for seed in range(1, 11):
    m.set_randstate(vsc.RandState.mkFromSeed(seed))
    m.randomize()
    if m.a not in mod_ok:
        bad.append("seed %d: a=%d returned for {a < 0; a %% 3 == 0}  (a %% 3 is %d in Python, %d in SV)" % (
            seed, m.a, m.a % 3, sv_mod(m.a, 3)))
d = DivItem()
for seed in range(1, 6):
    d.set_randstate(vsc.RandState.mkFromSeed(seed))
    try:
        with contextlib.redirect_stdout(io.StringIO()):
            d.randomize()
    except SolveFailure:
        continue        # correct: the constraints have no solution
    if d.b not in div_ok:
        bad.append("seed %d: b=%d returned for {b < 0; b / 2 > 100}  (b / 2 is %d)" % (seed, d.b, sv_div(d.b, 2)))

for b in bad: print(b)
if bad:
    print("FAIL: signed '/' and '%' are solved as unsigned operations")
    sys.exit(1)
print("ok")
