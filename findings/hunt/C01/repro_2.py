"""Defect 2: an enum field whose enumerator value is >= 2**31 cannot hold that enumerator.

The enumerator ALL = 0xFFFFFFFF is legal for a Python IntEnum.  After randomize() the field
holds -1 (the model value), and reading the attribute raises KeyError: the field is not equal
to a declared enumerator.
Oracle: the value read back must be a member of the enum and satisfy e != NONE.
"""
import sys
from enum import IntEnum
import vsc

class Mask(IntEnum):
    NONE = 0
    ALL  = 0xFFFFFFFF

@vsc.randobj
class Item(object):
    def __init__(self):
        self.e = vsc.rand_enum_t(Mask)
    @vsc.constraint
    def c(self):
        self.e != Mask.NONE

bad = []
it = Item()
for seed in range(1, 6):
    it.set_randstate(vsc.RandState.mkFromSeed(seed))
    it.randomize()
    with vsc.raw_mode():
        raw = int(it.e.get_model().get_val())
    try:
        v = it.e
    except Exception as ex:
        bad.append("seed %d: reading the field raises %r; stored model value is %d, enumerators are %s" % (
            seed, ex, raw, [int(m) for m in Mask]))
        continue
    if not isinstance(v, Mask) or v == Mask.NONE:
        bad.append("seed %d: e=%r" % (seed, v))

for b in bad: print(b)
if bad:
    print("FAIL: the randomized enum field does not hold a declared enumerator")
    sys.exit(1)
print("ok")
