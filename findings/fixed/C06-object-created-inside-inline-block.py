"""C09 defect 5: building an unrelated randobj instance while an inline constraint
block is open silently discards the inline constraints written so far (the model
builder clears the process-wide expression stack that the open block is still
collecting into).  The values of the randomized object then depend on unrelated
library activity, and they violate the inline constraints.

Oracles: (1) plain-Python check of the inline constraints on every result,
(2) exact equality with the same seed / class / calls without the unrelated activity.
"""
import sys
import vsc


@vsc.randobj
class Limits:                 # unrelated class; any class with a constraint will do
    def __init__(self):
        self.max_len = vsc.rand_uint8_t()

    @vsc.constraint
    def c(self):
        self.max_len < 64


@vsc.randobj
class Item:
    def __init__(self):
        self.a = vsc.rand_uint8_t()
        self.b = vsc.rand_uint8_t()


def run(unrelated):
    o = Item()
    o.set_randstate(vsc.RandState.mkFromSeed(1))
    out = []
    for i in range(6):
        with o.randomize_with() as it:
            it.a < 10
            if unrelated:
                Limits()      # e.g. a helper / config object created on the fly
            it.b < 10
        out.append((o.a, o.b))
    return out


base = run(False)
noisy = run(True)
viol = [v for v in noisy if not (v[0] < 10 and v[1] < 10)]
print("without unrelated construction: %s" % str(base))
print("with    unrelated construction: %s" % str(noisy))
bad = False
if any(not (v[0] < 10 and v[1] < 10) for v in base):
    print("baseline violates the inline constraints?!")
    bad = True
if viol:
    print("results that violate 'a < 10 and b < 10': %s" % str(viol))
    bad = True
if base != noisy:
    print("same seed, class and calls - values differ because another object was built")
    bad = True
if bad:
    print("FAIL")
    sys.exit(1)
print("OK")
sys.exit(0)
