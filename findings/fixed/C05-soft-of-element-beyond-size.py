#!/usr/bin/env python
"""C05 / defect 4: soft constraints in a foreach over a random-size list are also applied
for elements that do not exist in the result. The foreach is unrolled up to the largest
size the bounds analysis allows, and the per-element copies carry no 'index < size'
guard, so the soft of a phantom element (stated 'later') overrides the soft of the last
real element.

Here: size must be 2 (hard), each element i asks softly for 'x == i'. Only elements 0 and 1
exist, so the applicable softs are x == 0 and x == 1; the later one (x == 1) can be
honoured and must be.

Oracle: exact greedy reference over the enumerated (size, x) space, a soft of element i
being applicable only if i < size.
"""
import itertools, sys
import vsc

MAXSZ = 5


def reference():
    sols = []
    for size, x in itertools.product(range(0, 8), range(8)):
        if 1 <= size <= MAXSZ and size not in (1, 3, 4, 5):
            sols.append({'size': size, 'x': x})
    assert sols
    soft = [(lambda e, i=i: (not i < e['size']) or e['x'] == i) for i in range(MAXSZ)]
    for s in reversed(soft):
        nxt = [e for e in sols if s(e)]
        if nxt:
            sols = nxt
    return sols


@vsc.randobj
class Item:
    def __init__(self):
        self.l = vsc.randsz_list_t(vsc.bit_t(3))
        self.x = vsc.rand_bit_t(3)

    @vsc.constraint
    def c(self):
        self.l.size in vsc.rangelist(vsc.rng(1, MAXSZ))
        with vsc.foreach(self.l, idx=True) as i:
            vsc.soft(self.x == i)      # "x follows the index of the last element"


allowed = reference()
it = Item()
it.set_randstate(vsc.RandState.mkFromSeed(1))
bad = 0
for k in range(4):
    with it.randomize_with() as i:
        i.l.size != 1
        i.l.size != 3
        i.l.size != 4
        i.l.size != 5
    env = {'size': len(it.l), 'x': int(it.x)}
    ok = env in allowed
    print("call %d: list=%s x=%d -> %s" % (k, list(it.l), int(it.x),
          "ok" if ok else "WRONG: reference allows %s (x == %d is the soft of element %d, which does not exist)" % (
              allowed, env['x'], env['x'])))
    if not ok:
        bad += 1

if bad:
    print("FAIL: %d calls honour a soft constraint of a non-existent list element over an applicable one" % bad)
    sys.exit(1)
print("OK")
