import shim2, vsc, io, contextlib, traceback
def attempt(name, cls):
    sink = io.StringIO()
    try:
        with contextlib.redirect_stdout(sink):
            o = cls(); o.randomize()
        print(name, "->", o.a, list(o.l))
    except Exception as e:
        tb = traceback.extract_tb(e.__traceback__)
        print(name, "EXC", type(e).__name__, str(e)[:70], "|", tb[-1].filename.split('/')[-1], tb[-1].name)

@vsc.randobj
class K16:   # finding 16
    def __init__(self):
        self.a = vsc.rand_bit_t(3); self.l = vsc.rand_list_t(vsc.bit_t(3), 3)
    @vsc.constraint
    def c(self):
        self.a < 5
        self.l[0] > 1
        self.l[0] == self.a
attempt("subscript-merge (16)", K16)

@vsc.randobj
class K17a:  # finding 17a
    def __init__(self):
        self.a = vsc.rand_bit_t(3); self.l = vsc.rand_list_t(vsc.bit_t(3), 3)
    @vsc.constraint
    def c(self):
        self.l.sum == self.a
attempt("sum == field (17a)", K17a)

@vsc.randobj
class K17b:  # finding 17b
    def __init__(self):
        self.a = vsc.rand_bit_t(3); self.l = vsc.rand_list_t(vsc.bit_t(2), 4)
    @vsc.constraint
    def c(self):
        self.l.sum != 6
        self.l.sum > self.a
attempt("sum twice (17b)", K17b)

@vsc.randobj
class K18:  # finding 18
    def __init__(self):
        self.a = vsc.rand_bit_t(3); self.l = vsc.rand_list_t(vsc.bit_t(2), 0)
    @vsc.constraint
    def c(self):
        with vsc.if_then(self.l.size > 0):
            self.l[0] == self.l.size
attempt("guarded l[0] on empty (18)", K18)
