import shim, vsc, traceback
def attempt(name, f):
    try:
        r = f()
        print(name, "->", r)
    except Exception as e:
        print(name, "EXC", type(e).__name__, e)

# C18 probes
def f():
    out = {}
    for w in (1,4,8):
        x = vsc.int_t(w)
        x.set_val((1<<w)+3)
        out[("int_t",w,"set_val over")] = x.get_val()
        x.set_val(-1)
        out[("int_t",w,"-1")] = x.get_val()
        x.set_val((1<<(w-1)))
        out[("int_t",w,"2^(w-1)")] = x.get_val()
        y = vsc.bit_t(w); y.set_val(-1)
        out[("bit_t",w,"-1")] = y.get_val()
    return out
attempt("masking", f)

@vsc.randobj
class P:
    def __init__(self):
        self.a = vsc.bit_t(8, i=0xA5)
        self.s = vsc.int_t(8, i=-3)
        self.l = vsc.list_t(vsc.int8_t(), init=[-1, 200, 5])
        self.lu = vsc.list_t(vsc.uint8_t(), init=[-1, 300, 5])
def f():
    p = P()
    out = {}
    out["a"] = p.a; out["s"] = p.s
    out["l"] = list(p.l); out["l[i]"] = [p.l[i] for i in range(3)]
    out["lu"] = list(p.lu)
    p.s = 200
    out["s=200"] = p.s
    p.s = -200
    out["s=-200"] = p.s
    with vsc.raw_mode():
        out["a[7:4]"] = p.a[7:4]
        out["a[0]"] = p.a[0]
        p.a[3:0] = 0xF
        out["a after [3:0]=F"] = p.a.get_val()
        p.a.set_val(0xA5)
        p.a[0] = 0
        out["a after [0]=0"] = p.a.get_val()
        p.a.set_val(0xA5)
        p.a[1] = 1
        out["a after [1]=1"] = p.a.get_val()
    return out
attempt("access", f)
