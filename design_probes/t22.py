import shim2, vsc, io, contextlib, collections, math, random
from vsc.model.rand_state import RandState
from t21 import two_sided
sink = io.StringIO()
def run(order, N=3000, seed=3):
    @vsc.randobj
    class S:
        def __init__(self):
            self.a = vsc.rand_bit_t(3); self.b = vsc.rand_bit_t(5); self.c = vsc.rand_bit_t(4)
        @vsc.constraint
        def k(self):
            if order: vsc.solve_order(self.a, self.b)
            if order > 1: vsc.solve_order(self.b, self.c)
            self.a in vsc.rangelist(vsc.rng(1,6))
            self.b < (self.a * 5)      # companion count grows with a
            self.c <= self.b
    with contextlib.redirect_stdout(sink):
        o = S(); o.set_randstate(RandState.mkFromSeed(seed)); h = collections.Counter()
        for i in range(N):
            o.randomize(); h[o.a] += 1
            assert 1 <= o.a <= 6 and o.b < o.a*5 and o.c <= o.b
    return sorted(h.items()), min(two_sided(h[v], N, 1/6) for v in range(1,7))
for order in (0,1,2): print(order, run(order))
