import shim2, vsc, io, contextlib, enum, traceback
class E(enum.IntEnum):
    A=1; B=5
@vsc.randobj
class Sub:
    def __init__(self):
        self.x = vsc.rand_bit_t(4); self.e = vsc.rand_enum_t(E)
@vsc.randobj
class T:
    def __init__(self):
        self.s = vsc.rand_attr(Sub()); self.l = vsc.rand_list_t(vsc.int_t(4), 3); self.r = vsc.randsz_list_t(vsc.bit_t(3))
        self.ol = vsc.rand_list_t(Sub(), 0)
        for i in range(2): self.ol.append(Sub())
    @vsc.constraint
    def c(self):
        self.r.size <= 4
buf = io.StringIO()
try:
    with contextlib.redirect_stdout(buf):
        t = T()
        with t.randomize_with() as it:
            it.s.x == 3
            it.s.e == E.B
            it.l[0] == -2
            it.l[2] == 7
            it.r.size == 3
            pass
            it.ol[1].x == 9
    print(t.s.x, t.s.e, list(t.l), t.r.size, list(t.r), [o.x for o in t.ol])
    with contextlib.redirect_stdout(buf):
        with t.randomize_with() as it:
            it.r.size == 2
            pass
    print(t.r.size, list(t.r))
except Exception as e:
    traceback.print_exc()
