import shim2, vsc, io, contextlib, collections, itertools
from vsc.impl.wildcard_bin_factory import WildcardBinFactory as F
# exhaustive valmask2binlist for 6-bit value/mask
bad = collections.Counter(); ex = {}
W=6
for mask in range(1<<W):
    for value in range(1<<W):
        if value & ~mask: 
            # value has bits outside mask: semantics? (val&mask)==value never true -> no match
            continue
        rl = F.valmask2binlist(value, mask)
        got = set()
        for lo,hi in rl: got |= set(range(lo,hi+1))
        exp = {v for v in range(1<<W) if (v & mask) == value}
        if got != exp:
            k = 'topwild' if exp - got and max(exp-got) >= (1<<mask.bit_length()) else 'other'
            bad[k]+=1; ex.setdefault(k, (value,mask,sorted(got)[:8],sorted(exp)[:8]))
        flat = [v for lo,hi in rl for v in range(lo,hi+1)]
        if flat != sorted(flat) or len(set(flat)) != len(flat): bad['order']+=1; ex.setdefault('order',(value,mask,rl))
print(bad, ex)
print(F.str2bin("0x8x"), F.str2bin("0b1x_0?"), F.str2bin("0o7x"), F.str2bin("0bx1"))
print(F.valmask2binlist(*F.str2bin("0bx1")))
