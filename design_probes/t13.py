import shim2, vsc, io, contextlib, os, tempfile
from ucis.xml.xml_factory import XmlFactory
from ucis.report.coverage_report_builder import CoverageReportBuilder
@vsc.covergroup
class cg(object):
    def __init__(self, n):
        self.with_sample(dict(a=vsc.uint8_t(), b=vsc.uint8_t()))
        self.options.at_least = 2
        self.cp1 = vsc.coverpoint(self.a, bins={"a" : vsc.bin_array([], 1, 2, 4, 8), "z": vsc.bin(9,[20,30])}, ignore_bins=dict(ig=vsc.bin(3)), illegal_bins=dict(il=vsc.bin(5)), options=dict(at_least=1, weight=3))
        self.cp2 = vsc.coverpoint(self.b, bins={"b" : vsc.bin_array([n], [1,8])})
        self.x = vsc.cross([self.cp1, self.cp2])
buf = io.StringIO()
with contextlib.redirect_stdout(buf):
    c1 = cg(2); c2 = cg(2); c3 = cg(4)
    for (a,b) in [(1,1),(1,2),(2,8),(3,3),(5,5),(9,7),(25,1)]:
        c1.sample(a,b)
    c2.sample(4,4); c3.sample(8,8)
    cov = (c1.get_coverage(), c1.get_inst_coverage(), c2.get_inst_coverage(), c3.get_coverage(), c3.get_inst_coverage())
    rpt = vsc.get_coverage_report(details=True)
    fn = tempfile.mktemp(suffix=".xml")
    vsc.write_coverage_db(fn)
    db = XmlFactory.read(fn)
    rep2 = CoverageReportBuilder.build(db)
    rep1 = vsc.get_coverage_report_model()
print(cov)
print(rpt[:3000])
def walk(cg, ind=0):
    print(" "*ind, "CG", cg.name, cg.instname, cg.coverage, cg.weight)
    for cp in cg.coverpoints:
        print(" "*ind, "  CP", cp.name, cp.coverage, cp.weight, [(b.name,b.count) for b in cp.bins], [(b.name,b.count) for b in cp.ignore_bins], [(b.name,b.count) for b in cp.illegal_bins])
    for cr in cg.crosses:
        print(" "*ind, "  CR", cr.name, cr.coverage, [(b.name,b.count) for b in cr.bins if b.count])
    for s in cg.covergroups: walk(s, ind+4)
for r in (rep1, rep2):
    print("=====", r.coverage)
    for c in r.covergroups: walk(c)
