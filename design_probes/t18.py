import shim2, vsc, traceback, io, contextlib
LOG=[]
@vsc.randobj
class Leaf:
    def __init__(self, tag):
        self.tag = tag; self.x = vsc.rand_bit_t(4); self.k = vsc.bit_t(4)
    @vsc.constraint
    def c(self): self.x > self.k
    def pre_randomize(self):
        LOG.append(("pre", self.tag)); self.k = 7
    def post_randomize(self): LOG.append(("post", self.tag, self.x))
@vsc.randobj
class Top:
    def __init__(self):
        self.tag="top"
        self.a = vsc.rand_attr(Leaf("a")); self.b = vsc.attr(Leaf("b"))
        self.l = vsc.rand_list_t(Leaf("T"), 0)
        for i in range(2): self.l.append(Leaf("l%d"%i))
        self.nl = vsc.list_t(Leaf("T2"), 0)
        for i in range(2): self.nl.append(Leaf("nl%d"%i))
    def pre_randomize(self): LOG.append(("pre","top"))
    def post_randomize(self): LOG.append(("post","top"))
buf = io.StringIO()
with contextlib.redirect_stdout(buf):
    t = Top()
    with t.randomize_with() as it:
        it.a.x == 9
    l1 = list(LOG); LOG.clear()
    vsc.randomize(t)
    l2 = list(LOG); LOG.clear()
    with vsc.randomize_with(t):
        t.a.x == 10
    l3 = list(LOG); LOG.clear()
    vsc.randomize(t.a, t.b)
    l4 = list(LOG); LOG.clear()
print(l1); print(l2); print(l3); print(l4)
