import sys, os, io, contextlib, random
import shim2, vsc
from vsc.model.rand_state import RandState
noise = int(sys.argv[1]); debug = int(sys.argv[2])
@vsc.randobj
class Sub:
    def __init__(self):
        self.x = vsc.rand_bit_t(6); self.y = vsc.rand_bit_t(6)
    @vsc.constraint
    def c(self):
        self.x < self.y
@vsc.randobj
class C:
    def __init__(self):
        self.a = vsc.rand_bit_t(8); self.b = vsc.rand_bit_t(8); self.c = vsc.rand_bit_t(8); self.d = vsc.rand_bit_t(8)
        self.e = vsc.rand_int_t(8); self.u = vsc.rand_bit_t(16)
        self.l = vsc.rand_list_t(vsc.uint8_t(), 4)
        self.s = vsc.rand_attr(Sub())
    @vsc.constraint
    def c1(self):
        self.a < self.b
        self.c in vsc.rangelist(1, 5, vsc.rng(20,60))
        vsc.solve_order(self.a, self.b)
        vsc.dist(self.d, [vsc.weight(1,10), vsc.weight((4,9), 20), vsc.weight(200, 5)])
        with vsc.foreach(self.l, idx=True) as i:
            self.l[i] > self.a
        vsc.unique(self.l)
        vsc.soft(self.e == 3)
        self.s.x != self.a
buf = io.StringIO()
with contextlib.redirect_stdout(buf):
    o = C()
    if noise:
        others = [C() for _ in range(3)]
        random.seed(99)
    o.set_randstate(RandState.mkFromSeed(12345))
    out = []
    for i in range(12):
        if noise:
            random.random(); others[i%3].randomize(); x = {object() for _ in range(50)}
        o.randomize(debug=debug)
        out.append((o.a,o.b,o.c,o.d,o.e,o.u,tuple(o.l),o.s.x,o.s.y))
    snap = o.get_randstate()
    o.randomize(); n1 = (o.a, o.b, o.u)
    o.randomize(); n2 = (o.a, o.b, o.u)
    o.set_randstate(snap)
    o.randomize(); m1 = (o.a, o.b, o.u)
    o.set_randstate(snap)
    o.randomize(); m1b = (o.a, o.b, o.u)
    o.randomize(); m2 = (o.a, o.b, o.u)
import hashlib
print(hashlib.md5(repr(out).encode()).hexdigest(), n1==m1, m1==m1b, n2==m2)
