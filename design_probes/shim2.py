import shim
from vsc.model.expr_unary_model import ExprUnaryModel
ExprUnaryModel.is_signed = lambda self: self.expr.is_signed()
from vsc.model.value_scalar import ValueScalar
def _mk(op):
    def f(self, rhs): return ValueScalar(op(self.v, int(rhs)))
    return f
import operator
for n, op in (("__mul__", operator.mul), ("__or__", operator.or_), ("__xor__", operator.xor), ("__lshift__", operator.lshift), ("__rshift__", operator.rshift), ("__truediv__", operator.floordiv), ("__floordiv__", operator.floordiv), ("__mod__", operator.mod)):
    setattr(ValueScalar, n, _mk(op))
