import shim, vsc, traceback
from vsc.model.rangelist_model import RangelistModel
def attempt(name, f):
    try:
        r = f()
        print(name, "->", r)
    except Exception as e:
        print(name, "EXC", type(e).__name__, e); traceback.print_exc()

def f():
    out=[]
    for rl in ([[1,5],[3,10]], [[1,10],[3,5]], [[1,5],[1,8]], [[1,5],[6,8]], [[5,5],[5,5],[6,6]], [[1,3],[1,3]], [[1,8],[1,5]]):
        r = RangelistModel(rl); r.compact(); out.append((rl, r.range_l))
    return out
attempt("compact", f)

# C14: overlapping rangelist: histogram
@vsc.randobj
class R:
    def __init__(self):
        self.a = vsc.rand_bit_t(4)
    @vsc.constraint
    def c(self):
        self.a in vsc.rangelist(vsc.rng(1,5), vsc.rng(3,10))
def f():
    o = R(); h = {}
    for i in range(300):
        o.randomize(); h[o.a] = h.get(o.a,0)+1
    return sorted(h.items())
attempt("overlap-rangelist", f)

# C14: mixing rand and nonrand in subexpr
@vsc.randobj
class M:
    def __init__(self):
        self.a = vsc.rand_bit_t(4)
        self.b = vsc.rand_bit_t(4)
        self.c = vsc.bit_t(4, i=2)
    @vsc.constraint
    def cc(self):
        self.a < (self.b + self.c)
def f():
    o = M(); h = {}
    for i in range(400):
        o.randomize(); h[o.a] = h.get(o.a,0)+1
    return sorted(h.items())
attempt("mixed-subexpr", f)
