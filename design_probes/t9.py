import shim2, vsc, traceback, io, contextlib
def attempt(name, f):
    try:
        buf = io.StringIO()
        with contextlib.redirect_stdout(buf):
            r = f()
        print(name, "->", r)
    except Exception as e:
        print(name, "EXC", type(e).__name__, e); traceback.print_exc()
LOG=[]
@vsc.randobj
class Leaf:
    def __init__(self, tag):
        self.tag = tag
        self.x = vsc.rand_bit_t(4)
        self.k = vsc.bit_t(4)
    @vsc.constraint
    def c(self):
        self.x < 8
    def pre_randomize(self): LOG.append(("pre", self.tag))
    def post_randomize(self): LOG.append(("post", self.tag, self.x))
@vsc.randobj
class Mid:
    def __init__(self, tag):
        self.tag = tag
        self.l1 = vsc.rand_attr(Leaf(tag+".l1"))
        self.l2 = vsc.attr(Leaf(tag+".l2"))
        self.arr = vsc.rand_list_t(Leaf(tag+".arrT"), 0)
        for i in range(2): self.arr.append(Leaf(tag+".arr%d"%i))
    @vsc.constraint
    def c(self):
        self.l1.x != self.arr[0].x
        with vsc.foreach(self.arr, idx=True) as i:
            self.arr[i].x > 2
    def pre_randomize(self): LOG.append(("pre", self.tag))
    def post_randomize(self): LOG.append(("post", self.tag))
@vsc.randobj
class Top:
    def __init__(self):
        self.m1 = vsc.rand_attr(Mid("m1"))
        self.m2 = vsc.attr(Mid("m2"))
        self.m3 = vsc.rand_attr(Mid("m3"))
    @vsc.constraint
    def c(self):
        self.m1.l1.x == self.m3.l1.x
    def pre_randomize(self): LOG.append(("pre", "top"))
    def post_randomize(self): LOG.append(("post", "top"))
def f():
    t = Top()
    t.m1.l2.x = 15; t.m2.l1.x = 15
    t.randomize()
    log = list(LOG); LOG.clear()
    vals = (t.m1.l1.x, t.m3.l1.x, [e.x for e in t.m1.arr], t.m1.l2.x, t.m2.l1.x, [e.x for e in t.m2.arr])
    t.m1.arr[1].c.constraint_mode(False)
    seen=set()
    for i in range(40):
        t.randomize(); seen.add((t.m1.arr[0].x>=8, t.m1.arr[1].x>=8, t.m3.arr[1].x>=8))
    return log, vals, seen
attempt("tree", f)
