import shim2, vsc, traceback, io, contextlib
def attempt(name, f):
    try:
        buf = io.StringIO()
        with contextlib.redirect_stdout(buf):
            r = f()
        print(name, "->", r)
    except Exception as e:
        print(name, "EXC", type(e).__name__, e); traceback.print_exc()

# C05 soft
@vsc.randobj
class S:
    def __init__(self):
        self.a = vsc.rand_bit_t(4); self.b = vsc.rand_bit_t(4)
    @vsc.constraint
    def c(self):
        self.a < 8
        vsc.soft(self.a == 3)
        vsc.soft(self.a == 5)
        vsc.soft(self.b == self.a)
        with vsc.if_then(self.a == 5):
            vsc.soft(self.b == 1)
def f():
    o = S(); out=[]
    for i in range(3):
        o.randomize(); out.append((o.a,o.b))
    with o.randomize_with() as it:
        vsc.soft(it.a == 7)
    out.append((o.a,o.b))
    with o.randomize_with() as it:
        it.a == 9 - 3
    out.append((o.a,o.b))
    return out
attempt("soft", f)

# C07 constraint_mode per instance
@vsc.randobj
class B:
    def __init__(self):
        self.a = vsc.rand_bit_t(4)
    @vsc.constraint
    def c1(self):
        self.a < 4
    @vsc.constraint
    def c2(self):
        self.a > 1
@vsc.randobj
class Dv(B):
    def __init__(self):
        super().__init__()
    @vsc.constraint
    def c1(self):
        self.a > 10
def f():
    out=[]
    b1 = B(); b2 = B(); d = Dv()
    b1.c1.constraint_mode(False)
    b3 = B()
    for o in (b1,b2,b3,d):
        vals=set()
        for i in range(30):
            o.randomize(); vals.add(o.a)
        out.append(sorted(vals))
    return out
attempt("cmode", f)
