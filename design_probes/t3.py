import shim, vsc, traceback
from vsc.impl import ctor, expr_mode
def attempt(name, f):
    try:
        r = f()
        print(name, "->", r)
    except Exception as e:
        print(name, "EXC", type(e).__name__, e)

# C06 dynamic constraint aliasing
@vsc.randobj
class D:
    def __init__(self):
        self.a = vsc.rand_uint8_t()
    @vsc.dynamic_constraint
    def small(self):
        self.a < 5
def f():
    d1 = D(); d2 = D()
    res = []
    for i in range(10):
        with d1.randomize_with() as it:
            it.small()
        res.append(d1.a)
    return res
attempt("dyn-alias", f)

# C16: exception in constraint body
@vsc.randobj
class E:
    def __init__(self):
        self.a = vsc.rand_uint8_t()
    @vsc.constraint
    def c(self):
        self.a < 5
        raise RuntimeError("boom")
def f():
    try:
        E()
    except RuntimeError:
        pass
    return (len(ctor.constraint_scope_stack), len(ctor.expr_l), len(ctor.srcinfo_mode_s), len(expr_mode._expr_mode), len(expr_mode._raw_mode))
attempt("exc-in-constraint", f)
ctor.constraint_scope_stack.clear(); ctor.expr_l.clear(); ctor.srcinfo_mode_s.clear(); expr_mode._expr_mode.clear()

# exception in randomize_with body
@vsc.randobj
class F:
    def __init__(self):
        self.a = vsc.rand_uint8_t()
    @vsc.constraint
    def c(self):
        self.a < 50
def f():
    o = F()
    try:
        with o.randomize_with() as it:
            it.a > 10
            raise RuntimeError("boom")
    except RuntimeError:
        pass
    st = (len(ctor.constraint_scope_stack), len(ctor.expr_l), len(ctor.srcinfo_mode_s), len(expr_mode._expr_mode), len(expr_mode._raw_mode))
    o.randomize()
    return st, o.a
attempt("exc-in-with", f)

# exception in pre_randomize
@vsc.randobj
class G:
    def __init__(self):
        self.a = vsc.rand_uint8_t()
        self.l = vsc.rand_list_t(vsc.uint8_t(), 3)
        self.boom = False
    @vsc.constraint
    def c(self):
        self.a < 50
        with vsc.foreach(self.l) as it:
            it < self.a
    def pre_randomize(self):
        if self.boom: raise RuntimeError("pre")
    def post_randomize(self):
        if self.boom: raise RuntimeError("post")
def f():
    o = G()
    o.boom = True
    try:
        o.randomize()
    except RuntimeError as e:
        print("raised", e)
    st = (len(ctor.constraint_scope_stack), len(ctor.expr_l), len(ctor.srcinfo_mode_s), len(expr_mode._expr_mode), len(expr_mode._raw_mode))
    o.boom = False
    o.randomize()
    return st, o.a, list(o.l)
attempt("exc-in-pre", f)
