import shim2, vsc, io, contextlib, collections, math, random
from vsc.model.rand_state import RandState
def logpmf(k, n, p):
    if p <= 0: return 0.0 if k == 0 else -1e300
    if p >= 1: return 0.0 if k == n else -1e300
    return math.lgamma(n+1)-math.lgamma(k+1)-math.lgamma(n-k+1)+k*math.log(p)+(n-k)*math.log1p(-p)
def two_sided(k, n, p):
    # exact two-sided p-value: sum of pmf over outcomes no more likely than k
    lk = logpmf(k, n, p); tot = 0.0
    for j in range(n+1):
        lj = logpmf(j, n, p)
        if lj <= lk + 1e-12: tot += math.exp(lj)
    return min(1.0, tot)
sink = io.StringIO()
def dist_case(weights, N, seed):
    # weights: list of (lo,hi,w)
    @vsc.randobj
    class D:
        def __init__(self):
            self.a = vsc.rand_bit_t(6)
        @vsc.constraint
        def c(self):
            vsc.dist(self.a, [vsc.weight((lo,hi) if hi != lo else lo, w) for lo,hi,w in weights])
    with contextlib.redirect_stdout(sink):
        o = D(); o.set_randstate(RandState.mkFromSeed(seed)); h = collections.Counter()
        for i in range(N):
            o.randomize(); h[o.a] += 1
    tot = sum(w for _,_,w in weights); minp = 1.0
    for lo,hi,w in weights:
        k = sum(h[v] for v in range(lo,hi+1)); p = two_sided(k, N, w/tot); minp = min(minp, p)
        if w == 0 and k: return "ZERO-WEIGHT HIT"
        if w and hi > lo:
            for v in range(lo,hi+1): minp = min(minp, two_sided(h[v], k, 1.0/(hi-lo+1)))
    stray = [v for v in h if not any(lo<=v<=hi and w>0 for lo,hi,w in weights)]
    return round(minp, 6), stray
rng = random.Random(5)
for t in range(12):
    ws = []; pos = 0
    for _ in range(rng.randint(2,5)):
        lo = pos + rng.randint(0,3); hi = lo + rng.choice([0,0,1,3,5]); pos = hi+1
        if hi > 63: break
        ws.append((lo,hi,rng.choice([0,1,1,2,3,10])))
    if sum(w for _,_,w in ws) == 0: ws[0] = (ws[0][0], ws[0][1], 1)
    print(ws, dist_case(ws, 3000, t))
