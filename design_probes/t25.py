import shim2, vsc, io, contextlib, traceback
@vsc.randobj
class Leaf:
    def __init__(self):
        self.x = vsc.rand_bit_t(3)
def mk(body):
    @vsc.randobj
    class Mid:
        def __init__(self):
            self.l1 = vsc.rand_attr(Leaf())
            self.arr = vsc.rand_list_t(Leaf(), 0)
            for i in range(2): self.arr.append(Leaf())
        @vsc.constraint
        def c(self): body(self)
    return Mid
cases = {
 "arr[0].x < 5": lambda s: s.arr[0].x < 5,
 "arr[0].x < l1.x": lambda s: s.arr[0].x < s.l1.x,
 "l1.x < arr[0].x": lambda s: s.l1.x < s.arr[0].x,
 "arr[0].x < arr[1].x": lambda s: s.arr[0].x < s.arr[1].x,
 "5 > arr[1].x (reflected)": lambda s: 5 > s.arr[1].x,
}
for name, body in cases.items():
    sink = io.StringIO()
    try:
        with contextlib.redirect_stdout(sink):
            o = mk(body)(); o.randomize()
        print(name, "->", o.l1.x, [e.x for e in o.arr])
    except Exception as e:
        tb = traceback.extract_tb(e.__traceback__)
        print(name, "EXC", type(e).__name__, e, "|", tb[-1].filename.split('/')[-1], tb[-1].name, "<-", tb[-2].filename.split('/')[-1], tb[-2].name)
