import shim2, vsc, traceback
def attempt(name, f):
    try:
        r = f()
        print(name, "->", r)
    except Exception as e:
        print(name, "EXC", type(e).__name__, e); traceback.print_exc()

@vsc.randobj
class Sub:
    def __init__(self):
        self.x = vsc.rand_bit_t(4)
        self.y = vsc.bit_t(4, i=3)
    @vsc.constraint
    def c(self):
        self.x > self.y

@vsc.randobj
class Top:
    def __init__(self):
        self.a = vsc.rand_bit_t(4)
        self.b = vsc.bit_t(4, i=9)
        self.s1 = vsc.rand_attr(Sub())
        self.s2 = vsc.attr(Sub())
        self.rl = vsc.rangelist(1,2)
    @vsc.constraint
    def c(self):
        self.a in self.rl
        self.s1.x != self.a
def snap(t): return (t.a, t.b, t.s1.x, t.s1.y, t.s2.x, t.s2.y)
def f():
    t = Top(); out=[]
    t.s2.x = 1
    for i in range(3):
        t.randomize(); out.append(snap(t))
    with vsc.raw_mode():
        t.a.rand_mode = False
    t.a = 2
    for i in range(3):
        t.randomize(); out.append(snap(t))
    t.rl.clear(); t.rl.extend([7,(9,10)])
    try:
        t.randomize(); out.append(snap(t))
    except vsc.SolveFailure: out.append("SF (a=2 not in rl)")
    out.append(snap(t))
    with vsc.raw_mode():
        t.a.rand_mode = True
    for i in range(3):
        t.randomize(); out.append(snap(t))
    # sub-object rand_mode
    with vsc.raw_mode():
        t.s1.rand_mode = False
    t.s1.x = 9
    for i in range(3):
        t.randomize(); out.append(snap(t))
    return out
attempt("hist", f)

def f():
    a = vsc.rand_bit_t(4); b = vsc.bit_t(4); c = vsc.rand_bit_t(4)
    b.set_val(5); c.set_val(3)
    out=[]
    for i in range(4):
        vsc.randomize(a, b)
        out.append((a.get_val(), b.get_val(), c.get_val()))
    for i in range(4):
        with vsc.randomize_with(a):
            a < b
            a != c
        out.append((a.get_val(), b.get_val(), c.get_val()))
    return out
attempt("free", f)
