import shim2, vsc, io, contextlib
@vsc.randobj
class L:
    def __init__(self):
        self.l = vsc.randsz_list_t(vsc.uint8_t())
    @vsc.constraint
    def c(self):
        self.l.size in vsc.rangelist(vsc.rng(1,6))
        with vsc.foreach(self.l) as it:
            it < 10
sink = io.StringIO()
with contextlib.redirect_stdout(sink):
    o = L()
    with o.randomize_with() as it:
        it.l.size == 2
    a = (len(o.l), o.l.size, list(o.l))
    o.l.append(99)
    b = (len(o.l), o.l.size, list(o.l))
    o.l.clear(); o.l.extend([1,2,3])
    c = (len(o.l), o.l.size, list(o.l))
    with o.randomize_with() as it:
        it.l.size == 3
    d = (len(o.l), o.l.size, list(o.l))
    o.l[1] = 77
    e = (len(o.l), o.l.size, list(o.l), o.l[1])
print(a, b, c, d, e)
