import shim2, vsc, time, io, contextlib, sys
from hypothesis import given, settings, strategies as st, seed
from concurrent.futures import ThreadPoolExecutor
@vsc.randobj
class C:
    def __init__(self):
        self.a = vsc.rand_bit_t(4); self.b = vsc.rand_bit_t(4)
    @vsc.constraint
    def c(self): self.a < self.b
sink = io.StringIO()
def work(n):
    with contextlib.redirect_stdout(sink):
        o = C()
        for i in range(n): o.randomize()
t=time.time(); work(300); print("plain 300 calls", round(time.time()-t,3))
T = {'direct':0.0,'thread':0.0}; N={'n':0}
ex = ThreadPoolExecutor(max_workers=1)
@seed(1)
@settings(max_examples=30, deadline=None, database=None)
@given(st.lists(st.integers(0,10), min_size=1, max_size=5))
def test(xs):
    t=time.time(); work(10); T['direct'] += time.time()-t
    t=time.time(); ex.submit(work, 10).result(); T['thread'] += time.time()-t
    N['n'] += 1
test()
print(N, {k: round(v/N['n']/10*1000,3) for k,v in T.items()}, "ms per call")
