"""Probe for C10: reference bin partition vs implementation, exhaustive sampling over a 5-bit type."""
import sys, os, collections, itertools, io, contextlib, random, traceback
sys.path.insert(0, os.path.dirname(os.path.dirname(os.path.abspath(__file__)))); import shim2
import vsc
from vsc.impl import ctor
W = 5
def vals_of(items):
    s = set()
    for it in items:
        if isinstance(it, int): s.add(it)
        else: s |= set(range(it[0], it[1]+1))
    return s
def partition(values, n):
    values = sorted(values)
    if n is None or n >= len(values): return [[v] for v in values]
    per = len(values)//n
    bins = [values[i*per:(i+1)*per] for i in range(n)]
    bins[-1] = values[(n-1)*per:]
    return bins
def ref_bins(spec, ignore, illegal, typ_range, auto_max):
    excl = vals_of(ignore) | vals_of(illegal)
    out = []
    if spec is None:
        out += [set(b) for b in partition(set(typ_range) - excl, auto_max)]
    else:
        for kind, n, items in spec:
            v = vals_of(items) - excl
            if kind == 'bin':
                if v: out.append(v)
            else:
                out += [set(b) for b in partition(v, n)]
    return out
def gen_items(rng, allow_overlap):
    items = []; used = set()
    for _ in range(rng.randint(1,3)):
        if rng.random() < 0.5:
            v = rng.randint(0, 31); it = v; s = {v}
        else:
            lo = rng.randint(0, 28); hi = rng.randint(lo+1, min(31, lo+8)); it = [lo, hi]; s = set(range(lo, hi+1))
        if not allow_overlap and (s & used): continue
        used |= s; items.append(it)
    if not items: items = [rng.randint(0,31)]
    return items
def gen_spec(rng):
    if rng.random() < 0.2: spec = None
    else:
        spec = []
        for _ in range(rng.randint(1,3)):
            if rng.random() < 0.4: spec.append(('bin', None, gen_items(rng, False)))
            else: spec.append(('arr', rng.choice([None, 1, 2, 3, 4, 7]), gen_items(rng, False)))
    ignore = [x if isinstance(x,int) else tuple(x) for x in gen_items(rng, False)] if rng.random() < 0.4 else []
    illegal = [x if isinstance(x,int) else tuple(x) for x in gen_items(rng, False)] if rng.random() < 0.3 else []
    return spec, ignore, illegal, rng.choice([2, 3, 4, 8, 64])
def build(spec, ignore, illegal, auto_max):
    bins = None
    if spec is not None:
        bins = {}
        for i, (kind, n, items) in enumerate(spec):
            if kind == 'bin': bins['b%d' % i] = vsc.bin(*items)
            else: bins['b%d' % i] = vsc.bin_array([] if n is None else [n], *items)
    @vsc.covergroup
    class cg(object):
        def __init__(self):
            self.with_sample(dict(a=vsc.bit_t(W)))
            self.options.auto_bin_max = auto_max
            self.cp = vsc.coverpoint(self.a, bins=bins, ignore_bins=dict(ig=vsc.bin(*ignore)) if ignore else None, illegal_bins=dict(il=vsc.bin(*illegal)) if illegal else None)
    return cg()
stats = collections.Counter(); fails = collections.defaultdict(list)
for seed in range(int(sys.argv[1]), int(sys.argv[2])):
    rng = random.Random(seed)
    spec, ignore, illegal, auto_max = gen_spec(rng)
    exp = ref_bins(spec, ignore, illegal, range(1<<W), auto_max)
    ctor.test_setup()
    buf = io.StringIO()
    try:
        with contextlib.redirect_stdout(buf):
            c = build(spec, ignore, illegal, auto_max)
            m = c.get_model().coverpoint_l[0]
            got = [set() for _ in range(m.get_n_bins())]
            gi = set(); gl = set()
            for v in range(1<<W):
                b = list(m.hit_l); bi = list(m.hit_ignore_l); bl = list(m.hit_illegal_l)
                c.sample(v)
                for i in range(len(b)):
                    if m.hit_l[i] != b[i]: got[i].add(v)
                if m.hit_ignore_l != bi: gi.add(v)
                if m.hit_illegal_l != bl: gl.add(v)
        stats['ok'] += 1
        if got != exp:
            fails[('bins-differ', 'auto' if spec is None else tuple(k for k,_,_ in spec), bool(ignore or illegal))].append(seed)
        elif gi != vals_of(ignore) or gl != vals_of(illegal):
            fails[('ign-ill-differ',)].append(seed)
    except Exception as e:
        tb = traceback.extract_tb(e.__traceback__)[-1]
        fails[('exc', type(e).__name__, str(e)[:50], tb.filename.split('/')[-1], tb.name)].append(seed)
print(dict(stats))
for k, v in sorted(fails.items(), key=lambda kv: -len(kv[1])): print(len(v), k, v[:8])
