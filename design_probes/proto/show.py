import sys
sys.argv = [sys.argv[0], '0', '0', 'allrand'] + sys.argv[1:]
from run2 import *
def fmt(e):
    k = e[0]
    if k == 'f': return repr(e[1])
    if k == 'lit': return str(e[1])
    if k == 'ulit': return "u%d'%d" % (e[2], e[1])
    if k == 'slit': return "s%d'%d" % (e[2], e[1])
    if k == 'ps': return "%r[%d:%d]" % (e[1], e[2], e[3])
    if k == 'not': return "~(%s)" % fmt(e[1])
    if k == 'in': return "%s in [%s]" % (fmt(e[1]), ",".join(("%s..%s" % (fmt(i[1]), fmt(i[2]))) if i[0]=='rng' else fmt(i) for i in e[2]))
    if k == 'bin': return "(%s %s %s)" % (fmt(e[2]), e[1], fmt(e[3]))
def fs_(s, ind=0):
    p = "  "*ind
    k = s[0]
    if k == 'expr': return p + fmt(s[1])
    if k == 'if':
        out = []
        for i,(c,b) in enumerate(s[1]):
            out.append(p + ("if " if i==0 else "elif ") + fmt(c) + ":")
            out += [fs_(x, ind+1) for x in b]
        if s[2] is not None:
            out.append(p + "else:"); out += [fs_(x, ind+1) for x in s[2]]
        return "\n".join(out)
    if k == 'implies': return p + "implies " + fmt(s[1]) + ":\n" + "\n".join(fs_(x, ind+1) for x in s[2])
    if k == 'unique': return p + "unique(" + ",".join(fmt(x) for x in s[1]) + ")"
for seed in map(int, sys.argv[4:]):
    rng = random.Random(seed)
    fs, stmts = gen_program(rng)
    print("=== seed", seed, fs, [f.init for f in fs])
    for s in stmts: print(fs_(s))
    stats = collections.Counter(); fails = collections.defaultdict(list)
    run_one(seed, stats, fails)
    print(dict(fails))
