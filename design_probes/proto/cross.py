"""Probe for C11: cross reference vs implementation (disjoint bins per coverpoint)."""
import sys, os, collections, itertools, io, contextlib, random, traceback
sys.path.insert(0, os.path.dirname(os.path.dirname(os.path.abspath(__file__)))); import shim2
import vsc
from vsc.impl import ctor
from covref import partition, vals_of   # runs covref main on argv range too (harmless)
W=3
def gen_cp(rng):
    # partition-based disjoint bins over 0..7: choose a subset of values, split into chunks -> each chunk is 'bin' or 'arr'
    vals = sorted(rng.sample(range(8), rng.randint(2,8)))
    specs = []; i = 0
    while i < len(vals):
        n = rng.randint(1, 3); chunk = vals[i:i+n]; i += n
        kind = rng.choice(['bin','arr','arrn'])
        specs.append((kind, chunk))
    return specs
def ref_cp(specs):
    bins = []; names = []
    for j,(kind, chunk) in enumerate(specs):
        nm = "b%d" % j
        if kind == 'bin': bins.append(set(chunk)); names.append(nm)
        elif kind == 'arr':
            for v in chunk: bins.append({v})
        else:
            for b in partition(chunk, 2): bins.append(set(b))
    return bins
def mk_bins(specs):
    d = {}
    for j,(kind, chunk) in enumerate(specs):
        nm = "b%d" % j
        if kind == 'bin': d[nm] = vsc.bin(*chunk)
        elif kind == 'arr': d[nm] = vsc.bin_array([], *chunk)
        else: d[nm] = vsc.bin_array([2], *chunk)
    return d
stats = collections.Counter(); fails = collections.defaultdict(list)
for seed in range(int(sys.argv[1]), int(sys.argv[2])):
    rng = random.Random(seed)
    ncp = rng.randint(2,3)
    cps = [gen_cp(rng) for _ in range(ncp)]
    use_iff = [rng.random() < 0.4 for _ in range(ncp)]; xiff = rng.random() < 0.4
    refb = [ref_cp(s) for s in cps]
    ctor.test_setup(); buf = io.StringIO()
    try:
        with contextlib.redirect_stdout(buf):
            @vsc.covergroup
            class cg(object):
                def __init__(self):
                    d = {"v%d" % i: vsc.bit_t(W) for i in range(ncp)}
                    d.update({"g%d" % i: vsc.bit_t(1) for i in range(ncp)}); d["gx"] = vsc.bit_t(1)
                    self.with_sample(d)
                    self.cps = []
                    for i in range(ncp):
                        cp = vsc.coverpoint(getattr(self, "v%d" % i), bins=mk_bins(cps[i]), iff=(getattr(self, "g%d" % i) if use_iff[i] else None))
                        setattr(self, "cp%d" % i, cp); self.cps.append(cp)
                    self.x = vsc.cross(self.cps, iff=(self.gx if xiff else None))
            c = cg()
            m = c.get_model()
            xm = m.cross_l[0]
            exp_n = 1
            for b in refb: exp_n *= len(b)
            if xm.get_n_bins() != exp_n: fails[('nbins',)].append(seed); continue
            model = [0]*exp_n
            for step in range(40):
                vs = [rng.randint(0,7) for _ in range(ncp)]; gs = [rng.randint(0,1) for _ in range(ncp)]; gx = rng.randint(0,1)
                c.sample(*vs, *gs, gx)
                idxs = []
                ok = (gx or not xiff)
                for i in range(ncp):
                    hit = [k for k,b in enumerate(refb[i]) if vs[i] in b]
                    if not hit or (use_iff[i] and not gs[i]): ok = False
                    idxs.append(hit[0] if hit else None)
                if ok:
                    flat = 0
                    for i in range(ncp): flat = flat*len(refb[i]) + idxs[i]
                    model[flat] += 1
                got = [xm.get_bin_hits(k) for k in range(exp_n)]
                if got != model: fails[('hits',)].append((seed, step)); break
            stats['ok'] += 1
    except Exception as e:
        tb = traceback.extract_tb(e.__traceback__)[-1]
        fails[('exc', type(e).__name__, str(e)[:60], tb.filename.split('/')[-1], tb.name)].append(seed)
print(dict(stats))
for k, v in sorted(fails.items(), key=lambda kv: -len(kv[1])): print(len(v), k, v[:8])
