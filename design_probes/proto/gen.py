import random
from ref import *

def gen_fields(rng, nmax=4, wmax=4):
    n = rng.randint(1, nmax)
    fs = []
    for i in range(n):
        w = rng.randint(1, wmax)
        sg = rng.random() < 0.35
        rand = rng.random() < 0.75 or i == 0
        lo, hi = (-(1<<(w-1)), (1<<(w-1))-1) if sg else (0, (1<<w)-1)
        fs.append(Field("f%d"%i, w, sg, rand, rng.randint(lo, hi)))
    return fs

def gen_lit(rng, fs):
    r = rng.random()
    if r < 0.7:
        return ('lit', rng.choice([0,1,2,3,4,5,7,8,15,16,-1,-2,-8, rng.randint(-20,20)]))
    w = rng.randint(1,6)
    if r < 0.85:
        return ('ulit', rng.randint(0,(1<<w)-1), w)
    return ('slit', rng.randint(-(1<<(w-1)), (1<<(w-1))-1), w)

def gen_val(rng, fs, depth, allow_div=True):
    """value-typed expression"""
    r = rng.random()
    if depth <= 0 or r < 0.45:
        if rng.random() < 0.75:
            return ('f', rng.choice(fs))
        return gen_lit(rng, fs)
    if r < 0.52:
        f = rng.choice(fs)
        hi = rng.randint(0, f.width-1); lo = rng.randint(0, hi)
        return ('ps', f, hi, lo)
    op = rng.choice(['+','-','*','&','|','^','<<','>>','/','%'])
    l = gen_val(rng, fs, depth-1)
    if l[0] in ('lit',):  # python int cannot be lhs of arithmetic with field
        l = ('f', rng.choice(fs))
    if op in ('/','%'):
        r_ = ('ulit', rng.randint(1,7), rng.randint(3,6))
        if signed(l): l = ('f', next((f for f in fs if not f.signed), None)) if any(not f.signed for f in fs) else ('ulit', 5, 4)
        return ('bin', op, l, r_)
    if op in ('<<','>>'):
        r_ = ('lit', rng.randint(0,5)) if rng.random()<0.6 else gen_val(rng, fs, depth-1)
        return ('bin', op, l, r_)
    r_ = gen_val(rng, fs, depth-1)
    return ('bin', op, l, r_)

def gen_bool(rng, fs, depth):
    r = rng.random()
    if depth <= 0 or r < 0.55:
        op = rng.choice(['==','!=','<','<=','>','>='])
        l = gen_val(rng, fs, 1 if depth>0 else 0)
        if l[0] == 'lit': l = ('f', rng.choice(fs))
        return ('bin', op, l, gen_val(rng, fs, 1 if depth>0 else 0))
    if r < 0.67:
        l = ('f', rng.choice(fs))
        items = []
        for _ in range(rng.randint(1,3)):
            if rng.random() < 0.5:
                a = rng.randint(-4, 15); b = rng.randint(a, a+6)
                items.append(('rng', ('lit', a), ('lit', b)))
            else:
                items.append(('lit', rng.randint(-4, 15)))
        return ('in', l, items)
    if r < 0.77:
        return ('not', gen_bool(rng, fs, depth-1))
    op = rng.choice(['&','|'])
    return ('bin', op, gen_bool(rng, fs, depth-1), gen_bool(rng, fs, depth-1))

def gen_stmt(rng, fs, depth):
    r = rng.random()
    if depth <= 0 or r < 0.6:
        return ('expr', gen_bool(rng, fs, 2))
    if r < 0.78:
        arms = [(gen_bool(rng, fs, 1), [gen_stmt(rng, fs, depth-1) for _ in range(rng.randint(1,2))]) for _ in range(rng.randint(1,3))]
        els = [gen_stmt(rng, fs, depth-1) for _ in range(rng.randint(1,2))] if rng.random()<0.5 else None
        return ('if', arms, els)
    if r < 0.9:
        return ('implies', gen_bool(rng, fs, 1), [gen_stmt(rng, fs, depth-1) for _ in range(rng.randint(1,2))])
    k = rng.randint(2, min(3, len(fs))) if len(fs) >= 2 else 0
    if k < 2: return ('expr', gen_bool(rng, fs, 2))
    return ('unique', [('f', f) for f in rng.sample(fs, k)])

def gen_program(rng):
    fs = gen_fields(rng)
    stmts = [gen_stmt(rng, fs, 2) for _ in range(rng.randint(1,3))]
    return fs, stmts
