import sys
from run import *
import gen
MODE = sys.argv[3]
orig_fields = gen.gen_fields
def gf(rng, nmax=4, wmax=4):
    fs = orig_fields(rng, nmax, wmax)
    if MODE == 'allrand':
        for f in fs: f.rand = True
    return fs
gen.gen_fields = gf
import run; run.gen_program.__globals__['gen_fields'] = gf
orig_bool = gen.gen_bool
def has_not_under_binop(e, under=False):
    if e[0] == 'not': return under or has_not_under_binop(e[1], under)
    if e[0] == 'bin': return has_not_under_binop(e[2], True) or has_not_under_binop(e[3], True)
    return False
def gb(rng, fs, depth):
    while True:
        e = orig_bool(rng, fs, depth)
        if not has_not_under_binop(e): return e
gen.gen_stmt.__globals__['gen_bool'] = gb
stats = collections.Counter(); fails = collections.defaultdict(list)
for seed in range(int(sys.argv[1]), int(sys.argv[2])):
    run_one(seed, stats, fails)
print(dict(stats))
for k, v in sorted(fails.items(), key=lambda kv: -len(kv[1])):
    print(len(v), k, v[:6])
