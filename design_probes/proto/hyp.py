"""Probe: Hypothesis strategy for the program AST of ref.py; throughput + shrink demo."""
import sys, os, time, collections, itertools, io, contextlib, json
sys.path.insert(0, os.path.dirname(os.path.dirname(os.path.abspath(__file__)))); import shim2
import vsc
from hypothesis import given, settings, strategies as st, seed, HealthCheck, event, find
from ref import *
import run as R, render
CMPS = ['==','!=','<','<=','>','>=']
@st.composite
def fields(draw):
    n = draw(st.integers(1,4)); fs = []
    for i in range(n):
        w = draw(st.integers(1,4)); sg = draw(st.booleans()) and draw(st.booleans())
        rand = True if i == 0 else draw(st.sampled_from([True,True,True,False]))
        lo, hi = (-(1<<(w-1)), (1<<(w-1))-1) if sg else (0,(1<<w)-1)
        fs.append(Field("f%d"%i, w, sg, rand, draw(st.integers(lo,hi))))
    return fs
def lit():
    return st.one_of(st.integers(-20,20).map(lambda v: ('lit', v)),
        st.integers(1,6).flatmap(lambda w: st.integers(0,(1<<w)-1).map(lambda v: ('ulit', v, w))),
        st.integers(1,6).flatmap(lambda w: st.integers(-(1<<(w-1)),(1<<(w-1))-1).map(lambda v: ('slit', v, w))))
def fref(fs): return st.sampled_from(fs).map(lambda f: ('f', f))
def psel(fs): return st.sampled_from(fs).flatmap(lambda f: st.integers(0,f.width-1).flatmap(lambda hi: st.integers(0,hi).map(lambda lo: ('ps', f, hi, lo))))
def val(fs, depth):
    leaf = st.one_of(fref(fs), fref(fs), lit(), psel(fs))
    if depth <= 0: return leaf
    sub = val(fs, depth-1)
    arith = st.tuples(st.sampled_from(['+','-','&','|','^','<<','>>']), st.one_of(fref(fs), psel(fs), sub.filter(lambda e: e[0] != 'lit')), sub).map(lambda t: ('bin', t[0], t[1], t[2]))
    return st.one_of(leaf, leaf, arith)
def boolean(fs, depth):
    cmp_ = st.tuples(st.sampled_from(CMPS), st.one_of(fref(fs), val(fs,1).filter(lambda e: e[0] != 'lit')), val(fs,1)).map(lambda t: ('bin', t[0], t[1], t[2]))
    item = st.one_of(st.integers(-4,15).map(lambda v: ('lit', v)), st.integers(-4,15).flatmap(lambda a: st.integers(a,a+6).map(lambda b: ('rng', ('lit',a), ('lit',b)))))
    inn = st.tuples(fref(fs), st.lists(item, min_size=1, max_size=3)).map(lambda t: ('in', t[0], t[1]))
    if depth <= 0: return st.one_of(cmp_, cmp_, inn)
    sub = boolean(fs, depth-1)
    return st.one_of(cmp_, cmp_, inn, sub.map(lambda e: ('not', e)).filter(lambda e: True),
        st.tuples(st.sampled_from(['&','|']), sub.filter(lambda e: e[0] != 'not'), sub.filter(lambda e: e[0] != 'not')).map(lambda t: ('bin', t[0], t[1], t[2])))
def stmt(fs, depth):
    e = boolean(fs, 2).map(lambda b: ('expr', b))
    if depth <= 0: return e
    sub = st.lists(stmt(fs, depth-1), min_size=1, max_size=2)
    iff = st.tuples(st.lists(st.tuples(boolean(fs,1), sub), min_size=1, max_size=3), st.one_of(st.none(), sub)).map(lambda t: ('if', t[0], t[1]))
    imp = st.tuples(boolean(fs,1), sub).map(lambda t: ('implies', t[0], t[1]))
    uni = st.lists(st.sampled_from(fs), min_size=2, max_size=3, unique=True).map(lambda l: ('unique', [('f', f) for f in l])) if len(fs) >= 2 else e
    return st.one_of(e, e, e, iff, imp, uni)
@st.composite
def programs(draw):
    fs = draw(fields())
    import run3
    return fs, draw(st.lists(stmt(fs, 2).filter(lambda s_: not run3.stmt_nofield(s_)), min_size=1, max_size=3))
STATS = collections.Counter()
def check(prog):
    fs, stmts = prog
    rf = [f for f in fs if f.rand]
    env0 = {f.name: f.init for f in fs}
    sols = set()
    for vals in itertools.product(*[R.dom(f) for f in rf]):
        env = dict(env0); env.update({f.name: v for f, v in zip(rf, vals)})
        if all(holds(s, env) for s in stmts): sols.add(vals)
    R.reset(); buf = io.StringIO()
    with contextlib.redirect_stdout(buf):
        o = R.build(fs, stmts)
        for i in range(4):
            try:
                o.randomize()
            except vsc.SolveFailure:
                assert not sols, "spurious SolveFailure"
                STATS['unsat'] += 1; return
            got = tuple(getattr(o, f.name) for f in rf)
            assert got in sols, "unsound %r" % (got,)
    STATS['sat'] += 1
if __name__ == '__main__':
    t = time.time()
    @seed(int(sys.argv[1]))
    @settings(max_examples=int(sys.argv[2]), deadline=None, database=None, suppress_health_check=list(HealthCheck))
    @given(programs())
    def test(p):
        try: check(p)
        except AssertionError: raise
        except Exception as e:
            STATS['exc:' + type(e).__name__] += 1; R.reset()
    test()
    print(dict(STATS), round(time.time()-t, 1), "s")
