import sys, os, collections, itertools, io, contextlib, random, traceback
sys.path.insert(0, os.path.dirname(os.path.dirname(os.path.abspath(__file__)))); import shim2
import vsc
from vsc.model.randomizer import Randomizer
import run as R
from ref import *
CAP = {}
orig = Randomizer.randomize
def wrapped(self, ri, bound_m):
    CAP['b'] = {f.name: [list(r) for r in b.domain.range_l] for f, b in bound_m.items()}
    CAP['uncon'] = [f.name for f in ri.unconstrained()]
    return orig(self, ri, bound_m)
Randomizer.randomize = wrapped
stats = collections.Counter(); fails = collections.defaultdict(list)
for seed in range(int(sys.argv[1]), int(sys.argv[2])):
    rng = random.Random(seed)
    fs, stmts = R.gen_program(rng)
    rf = [f for f in fs if f.rand]
    if sum(f.width for f in rf) > 10: continue
    env0 = {f.name: f.init for f in fs}
    sols = []
    for vals in itertools.product(*[R.dom(f) for f in rf]):
        env = dict(env0); env.update({f.name: v for f, v in zip(rf, vals)})
        if all(holds(s, env) for s in stmts): sols.append(vals)
    if not sols: continue
    R.reset(); buf = io.StringIO()
    try:
        with contextlib.redirect_stdout(buf):
            o = R.build(fs, stmts)
            for rep in range(3):
                CAP.clear(); o.randomize()
                for i, f in enumerate(rf):
                    feas = {s[i] for s in sols}
                    rl = CAP['b'].get(f.name)
                    if rl is None: continue
                    inb = {v for v in feas if any(lo <= v <= hi for lo, hi in rl)}
                    stats['fields'] += 1
                    if inb != feas:
                        fails[('starved',)].append((seed, f.name, sorted(feas - inb)[:4], rl)); raise StopIteration
    except StopIteration: pass
    except Exception as e:
        stats['exc'] += 1; R.reset()
print(dict(stats))
for k, v in fails.items(): print(len(v), k, v[:12])
