import sys
sys.argv = [sys.argv[0], '0', '0'] + sys.argv[1:]
from trees import *
import traceback
for seed in map(int, sys.argv[3:]):
    rng = random.Random(seed); spec = gen(rng)
    print(seed, {k: v for k, v in spec.items() if k not in ('k','x0')})
    reset()
    try:
        with contextlib.redirect_stdout(io.StringIO()):
            t = build(spec); t.randomize()
    except Exception as e:
        tb = traceback.extract_tb(e.__traceback__)
        for fr in tb[-6:]: print("   ", fr.filename.split('/')[-1], fr.lineno, fr.name)
        print("   ", type(e).__name__, e)
