"""Probe for C05: greedy-by-priority + maximality reference vs implementation."""
import sys, os, collections, itertools, io, contextlib, random, traceback
sys.path.insert(0, os.path.dirname(os.path.dirname(os.path.abspath(__file__)))); import shim2
import vsc
import run as R, gen, render
from ref import *
import run3 as _r3  # filters (no-field statements)
def gen_soft_prog(rng):
    fs = gen.gen_fields(rng, nmax=3, wmax=3)
    for f in fs: f.rand = True
    hard = [gen.gen_stmt(rng, fs, 1) for _ in range(rng.randint(0,2))]
    items = []   # ('soft', guardlist, expr)
    for _ in range(rng.randint(1,4)):
        e = gen.gen_bool(rng, fs, 1)
        if rng.random() < 0.3:
            g = gen.gen_bool(rng, fs, 0)
            items.append(('gsoft', g, e, rng.random() < 0.5))   # under if (True) or implies (False)
        else:
            items.append(('soft', e))
    inline = [('soft', gen.gen_bool(rng, fs, 0)) for _ in range(rng.randint(0,2))]
    return fs, hard, items, inline
def build(fs, hard, items, inline):
    class T(object):
        def __init__(self):
            for f in fs: setattr(self, f.name, render.mk_field(f))
        @vsc.constraint
        def c0(self):
            for s in hard: render.r_stmt(s, self)
            for it in items:
                if it[0] == 'soft': vsc.soft(render.r_expr(it[1], self))
                else:
                    cm = vsc.if_then(render.r_expr(it[1], self)) if it[3] else vsc.implies(render.r_expr(it[1], self))
                    with cm:
                        vsc.soft(render.r_expr(it[2], self))
    return vsc.randobj(T)()
stats = collections.Counter(); fails = collections.defaultdict(list)
for seed in range(int(sys.argv[1]), int(sys.argv[2])):
    rng = random.Random(seed)
    fs, hard, items, inline = gen_soft_prog(rng)
    if any(_r3.stmt_nofield(s) for s in hard): continue
    doms = [R.dom(f) for f in fs]
    allv = list(itertools.product(*doms))
    def env(v): return {f.name: x for f, x in zip(fs, v)}
    S = [v for v in allv if all(holds(s, env(v)) for s in hard)]
    softs = []
    for it in items:
        if it[0] == 'soft': softs.append(lambda v, e=it[1]: truth(e, env(v)))
        else: softs.append(lambda v, g=it[1], e=it[2]: (not truth(g, env(v))) or truth(e, env(v)))
    for it in inline: softs.append(lambda v, e=it[1]: truth(e, env(v)))
    # greedy: later = higher priority
    G = list(S)
    for s in reversed(softs):
        G2 = [v for v in G if s(v)]
        if G2: G = G2
    R.reset(); buf = io.StringIO()
    try:
        with contextlib.redirect_stdout(buf):
            o = build(fs, hard, items, inline)
            for rep in range(3):
                with o.randomize_with() as it:
                    for s in inline: vsc.soft(render.r_expr(s[1], it))
                got = tuple(getattr(o, f.name) for f in fs)
                stats['calls'] += 1
                if not S: fails[('returned-unsat',)].append(seed); break
                if got not in S: fails[('violates-hard',)].append(seed); break
                if got not in G: fails[('not-greedy',)].append((seed, got)); break
                if len(G) < len(S): stats['softs-bite'] += 1
                if not all(s(got) for s in softs): stats['conflict'] += 1
    except vsc.SolveFailure:
        if S: fails[('soft-fatal',)].append(seed)
    except Exception as e:
        tb = traceback.extract_tb(e.__traceback__)[-1]
        fails[('exc', type(e).__name__, str(e)[:50], tb.filename.split('/')[-1], tb.name)].append(seed); R.reset()
print(dict(stats))
for k, v in sorted(fails.items(), key=lambda kv: -len(kv[1])): print(len(v), k, v[:8])
