import sys
sys.path.insert(0, __import__('os').path.dirname(__import__('os').path.dirname(__import__('os').path.abspath(__file__)))); import shim2
from run import *
import gen
def nofield(e):
    k = e[0]
    if k in ('f','ps'): return False
    if k in ('lit','ulit','slit'): return True
    if k == 'not': return nofield(e[1])
    if k == 'in': return nofield(e[1])
    if k == 'bin': return nofield(e[2]) and nofield(e[3])
def stmt_nofield(s):
    k = s[0]
    if k == 'expr': return nofield(s[1])
    if k == 'unique': return False
    if k == 'implies': return nofield(s[1]) and all(stmt_nofield(b) for b in s[2])
    if k == 'if':
        return all(nofield(c) and all(stmt_nofield(b) for b in body) for c, body in s[1]) and (s[2] is None or all(stmt_nofield(b) for b in s[2]))
orig = gen.gen_program
def gp(rng):
    while True:
        fs, stmts = orig(rng)
        if not any(stmt_nofield(s) for s in stmts): return fs, stmts
import run; run.gen_program = gp
if __name__ == '__main__':
    stats = collections.Counter(); fails = collections.defaultdict(list)
    for seed in range(int(sys.argv[1]), int(sys.argv[2])):
        run.run_one(seed, stats, fails)
    print(dict(stats))
    for k, v in sorted(fails.items(), key=lambda kv: -len(kv[1])):
        print(len(v), k, v[:6])
