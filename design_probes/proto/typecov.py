"""Probe for C12: instance/type aggregation model vs implementation."""
import sys, os, collections, itertools, io, contextlib, random, traceback
sys.path.insert(0, os.path.dirname(os.path.dirname(os.path.abspath(__file__)))); import shim2
import vsc
from vsc.impl import ctor
def partition(values, n):
    values = sorted(values)
    if n is None or n >= len(values): return [[v] for v in values]
    per = len(values)//n
    bins = [values[i*per:(i+1)*per] for i in range(n)]; bins[-1] = values[(n-1)*per:]
    return bins
stats = collections.Counter(); fails = collections.defaultdict(list)
for seed in range(int(sys.argv[1]), int(sys.argv[2])):
    rng = random.Random(seed)
    ctor.test_setup(); buf = io.StringIO()
    at_least = rng.choice([1,1,2,3]); w1 = rng.choice([1,1,2,0]); w2 = rng.choice([1,3])
    use_opts = rng.random() < 0.5
    try:
        with contextlib.redirect_stdout(buf):
            @vsc.covergroup
            class cg(object):
                def __init__(self, n, hi):
                    self.with_sample(dict(a=vsc.bit_t(4), b=vsc.bit_t(4)))
                    if use_opts: self.options.at_least = at_least
                    self.cp1 = vsc.coverpoint(self.a, bins=dict(x=vsc.bin_array([n], [0, hi])), options=(dict(weight=w1) if use_opts else None))
                    self.cp2 = vsc.coverpoint(self.b, bins=dict(y=vsc.bin(1,2), z=vsc.bin([5,9])), options=(dict(weight=w2) if use_opts else None))
            params = [(2,7),(2,7),(4,7),(2,11)]
            insts = []; model = []
            for step in range(40):
                r = rng.random()
                if r < 0.15 and len(insts) < 5:
                    p = rng.choice(params); insts.append((p, cg(*p)))
                    b1 = [set(x) for x in partition(range(0,p[1]+1), p[0])]
                    model.append(dict(p=p, b1=b1, h1=[0]*len(b1), h2=[0,0]))
                elif insts:
                    i = rng.randrange(len(insts)); a = rng.randint(0,15); b = rng.randint(0,15)
                    insts[i][1].sample(a, b); m = model[i]
                    for k,s in enumerate(m['b1']):
                        if a in s: m['h1'][k] += 1
                    if b in (1,2): m['h2'][0] += 1
                    if 5 <= b <= 9: m['h2'][1] += 1
                # check
                al = at_least if use_opts else 1
                for i,(p,c) in enumerate(insts):
                    m = model[i]; cm = c.get_model()
                    if cm.coverpoint_l[0].hit_l != m['h1'] or cm.coverpoint_l[1].hit_l != m['h2']:
                        fails[('inst-hits',)].append((seed, step)); raise StopIteration
                    def cov(h): return 100.0*sum(1 for x in h if x >= al)/len(h)
                    W1 = w1 if use_opts else 1; W2 = w2 if use_opts else 1
                    exp = (cov(m['h1'])*W1 + cov(m['h2'])*W2)/(W1+W2) if (W1+W2) else 0
                    if abs(c.get_inst_coverage() - exp) > 1e-3: fails[('inst-cov', use_opts)].append((seed, step, c.get_inst_coverage(), exp)); raise StopIteration
                    same = [j for j in range(len(insts)) if model[j]['p'] == p]
                    th1 = [sum(model[j]['h1'][k] for j in same) for k in range(len(m['h1']))]
                    tm = cm.type_cg
                    if tm.coverpoint_l[0].hit_l != th1: fails[('type-hits',)].append((seed, step, p, tm.coverpoint_l[0].hit_l, th1)); raise StopIteration
            stats['ok'] += 1
    except StopIteration: pass
    except Exception as e:
        tb = traceback.extract_tb(e.__traceback__)[-1]
        fails[('exc', type(e).__name__, str(e)[:60], tb.filename.split('/')[-1], tb.name)].append(seed)
print(dict(stats))
for k, v in sorted(fails.items(), key=lambda kv: -len(kv[1])): print(len(v), k, v[:4])
