"""Probe for C08: random object trees, soundness + solution-seeded pinned probes."""
import sys, os, collections, io, contextlib, random, traceback, time, operator
sys.path.insert(0, os.path.dirname(os.path.dirname(os.path.abspath(__file__)))); import shim2
import vsc
from vsc.impl import ctor, expr_mode
OPS = {'==':operator.eq,'!=':operator.ne,'<':operator.lt,'<=':operator.le,'>':operator.gt,'>=':operator.ge}
def reset():
    ctor.constraint_scope_stack.clear(); ctor.expr_l.clear(); ctor.srcinfo_mode_s.clear(); expr_mode._expr_mode.clear(); expr_mode._raw_mode.clear()
W = 3
def gen(rng):
    spec = {'leafop': rng.choice(list(OPS)), 'mids': []}
    for m in range(rng.randint(1,3)):
        spec['mids'].append(dict(rand=rng.random()<0.7, l2rand=rng.random()<0.5, narr=rng.randint(0,2),
            midc=[(rng.choice(['l1','l2','a0','a1']), rng.choice(list(OPS)), rng.choice(['l1','l2','a0','a1', rng.randint(0,7)])) for _ in range(rng.randint(0,2))],
            each=(rng.choice(list(OPS)), rng.randint(0,7)) if rng.random()<0.5 else None))
    spec['topc'] = [((rng.randrange(len(spec['mids'])), rng.choice(['l1','l2','a0'])), rng.choice(list(OPS)), (rng.randrange(len(spec['mids'])), rng.choice(['l1','l2','a0']))) for _ in range(rng.randint(0,3))]
    spec['k'] = [rng.randint(0,7) for _ in range(40)]
    spec['x0'] = [rng.randint(0,7) for _ in range(40)]
    return spec
def build(spec):
    ki = iter(spec['k']); xi = iter(spec['x0'])
    @vsc.randobj
    class Leaf:
        def __init__(self):
            self.x = vsc.rand_bit_t(W, i=next(xi)); self.k = vsc.bit_t(W, i=next(ki))
        @vsc.constraint
        def c(self): OPS[spec['leafop']](self.x, self.k)
    def mk_mid(ms):
        def sel(self, n):
            if n == 'l1': return self.l1.x
            if n == 'l2': return self.l2.x
            if n == 'a0': return self.arr[0].x if ms['narr'] > 0 else None
            if n == 'a1': return self.arr[1].x if ms['narr'] > 1 else None
            return n
        @vsc.randobj
        class Mid:
            def __init__(self):
                self.l1 = vsc.rand_attr(Leaf()); self.l2 = vsc.rand_attr(Leaf()) if ms['l2rand'] else vsc.attr(Leaf())
                self.arr = vsc.rand_list_t(Leaf(), 0)
                for i in range(ms['narr']): self.arr.append(Leaf())
            @vsc.constraint
            def c(self):
                for a, op, b in ms['midc']:
                    A = sel(self, a); B = sel(self, b)
                    if A is None or B is None: continue
                    OPS[op](A, B)
                if ms['each'] is not None and ms['narr'] > 0:
                    with vsc.foreach(self.arr) as it:
                        OPS[ms['each'][0]](it.x, ms['each'][1])
        return Mid
    mids = [mk_mid(ms) for ms in spec['mids']]
    @vsc.randobj
    class Top:
        def __init__(self):
            for i, ms in enumerate(spec['mids']):
                setattr(self, "m%d" % i, vsc.rand_attr(mids[i]()) if ms['rand'] else vsc.attr(mids[i]()))
        @vsc.constraint
        def c(self):
            for (ma, na), op, (mb, nb) in spec['topc']:
                # NB: the DSL's expression stack makes evaluation order part of the contract:
                # finish each attribute chain before starting the next one.
                if not has_leaf(spec, ma, na) or not has_leaf(spec, mb, nb): continue
                A = leafof(self, ma, na, spec).x
                B = leafof(self, mb, nb, spec).x
                OPS[op](A, B)
    return Top()
def has_leaf(spec, m, n):
    return n in ('l1','l2') or int(n[1]) < spec['mids'][m]['narr']
def leafof(top, m, n, spec):
    mid = getattr(top, "m%d" % m)
    if n == 'l1': return mid.l1
    if n == 'l2': return mid.l2
    if n == 'a0': return mid.arr[0] if spec['mids'][m]['narr'] > 0 else None
    if n == 'a1': return mid.arr[1] if spec['mids'][m]['narr'] > 1 else None
def leaves(top, spec):
    out = {}
    for i, ms in enumerate(spec['mids']):
        mid = getattr(top, "m%d" % i)
        out[(i,'l1')] = (mid.l1, ms['rand'])
        out[(i,'l2')] = (mid.l2, ms['rand'] and ms['l2rand'])
        for j in range(ms['narr']): out[(i,'a%d'%j)] = (mid.arr[j], ms['rand'])
    return out
def ref(spec, val, krand):
    # val: {(i,n): (x,k)}, krand: {(i,n): is_random}
    for key,(x,k) in val.items():
        if krand[key] and not OPS[spec['leafop']](x, k): return False
    for i, ms in enumerate(spec['mids']):
        if not ms['rand']: continue
        def g(n):
            if isinstance(n, int): return n
            return val[(i,n)][0] if (i,n) in val else None
        for a, op, b in ms['midc']:
            A = g(a); B = g(b)
            if A is None or B is None: continue
            if not OPS[op](A, B): return False
        if ms['each'] is not None:
            for j in range(ms['narr']):
                if not OPS[ms['each'][0]](val[(i,'a%d'%j)][0], ms['each'][1]): return False
    for (ma, na), op, (mb, nb) in spec['topc']:
        if (ma,na) not in val or (mb,nb) not in val: continue
        if not OPS[op](val[(ma,na)][0], val[(mb,nb)][0]): return False
    return True
stats = collections.Counter(); fails = collections.defaultdict(list); t0 = time.time()
for seed in range(int(sys.argv[1]), int(sys.argv[2])):
    rng = random.Random(seed); spec = gen(rng)
    reset(); buf = io.StringIO()
    try:
        with contextlib.redirect_stdout(buf):
            t = build(spec)
            lv = leaves(t, spec); krand = {k: r for k,(o,r) in lv.items()}
            before = {k: (o.x, o.k) for k,(o,r) in lv.items()}
            try:
                t.randomize()
            except vsc.SolveFailure:
                stats['sf'] += 1; continue
            val = {k: (o.x, o.k) for k,(o,r) in lv.items()}
            stats['ret'] += 1
            for k in val:
                if not krand[k] and val[k] != before[k]: fails[('nonrand-changed',)].append((seed,k)); break
                if val[k][1] != before[k][1]: fails[('k-changed',)].append((seed,k)); break
            if not ref(spec, val, krand): fails[('unsound',)].append(seed); continue
            # solution-seeded probes: perturb one random leaf
            rk = [k for k in val if krand[k]]
            for _ in range(3):
                if not rk: break
                k = rng.choice(rk); nv = dict(val); nv[k] = (rng.randint(0,7), val[k][1])
                exp = ref(spec, nv, krand)
                try:
                    with t.randomize_with() as it:
                        for kk in rk:
                            i, n = kk; mid = getattr(it, "m%d" % i)
                            leaf = mid.l1 if n == 'l1' else mid.l2 if n == 'l2' else mid.arr[int(n[1])]
                            leaf.x == nv[kk][0]
                    stats['pin-ret'] += 1
                    if not exp: fails[('pin-returned-nonmember',)].append((seed, k)); break
                    got = {kk: (o.x, o.k) for kk,(o,r) in lv.items()}
                    if any(got[kk][0] != nv[kk][0] for kk in rk): fails[('pin-readback',)].append(seed); break
                except vsc.SolveFailure:
                    stats['pin-sf'] += 1
                    if exp: fails[('pin-rejected-member',)].append((seed, k)); break
    except Exception as e:
        tb = traceback.extract_tb(e.__traceback__)[-1]
        fails[('exc', type(e).__name__, str(e)[:60], tb.filename.split('/')[-1], tb.name)].append(seed); reset()
print(dict(stats), round(time.time()-t0,1), "s")
for k, v in sorted(fails.items(), key=lambda kv: -len(kv[1])): print(len(v), k, v[:5])
