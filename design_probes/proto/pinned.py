"""Probe: pinned differential (both directions) on random scalar programs, incl. wide sized-literal pins."""
import sys, os, collections, itertools, io, contextlib, random, traceback
sys.path.insert(0, os.path.dirname(os.path.dirname(os.path.abspath(__file__)))); import shim2
import vsc
import run as R, run3
from ref import *
def pin_lit(f, v):
    if -(1<<31) <= v < (1<<31) and f.width <= 31: return v
    return vsc.signed(v, f.width) if f.signed else vsc.unsigned(v, f.width)
stats = collections.Counter(); fails = collections.defaultdict(list)
for seed in range(int(sys.argv[1]), int(sys.argv[2])):
    rng = random.Random(seed)
    fs, stmts = run3.gp(rng)
    rf = [f for f in fs if f.rand]
    if sum(f.width for f in rf) > 10: continue
    env0 = {f.name: f.init for f in fs}
    allv = list(itertools.product(*[R.dom(f) for f in rf]))
    sols = []
    for vals in allv:
        env = dict(env0); env.update({f.name: v for f, v in zip(rf, vals)})
        if all(holds(s, env) for s in stmts): sols.append(vals)
    solset = set(sols); non = [v for v in allv if v not in solset]
    R.reset(); buf = io.StringIO()
    try:
        with contextlib.redirect_stdout(buf):
            o = R.build(fs, stmts)
            probes = [(v, True) for v in rng.sample(sols, min(4, len(sols)))] + [(v, False) for v in rng.sample(non, min(4, len(non)))]
            for v, member in probes:
                try:
                    with o.randomize_with() as it:
                        for f, x in zip(rf, v):
                            getattr(it, f.name) == pin_lit(f, x)
                    got = tuple(getattr(o, f.name) for f in rf)
                    stats['pin-ret'] += 1
                    if not member: fails[('pin-returned-nonmember',)].append((seed, v)); break
                    if got != v: fails[('pin-readback',)].append((seed, v, got)); break
                except vsc.SolveFailure:
                    stats['pin-sf'] += 1
                    if member: fails[('pin-rejected-member',)].append((seed, v)); break
    except Exception as e:
        tb = traceback.extract_tb(e.__traceback__)[-1]
        fails[('exc', type(e).__name__, str(e)[:50], tb.filename.split('/')[-1], tb.name)].append(seed); R.reset()
print(dict(stats))
for k, v in sorted(fails.items(), key=lambda kv: -len(kv[1])): print(len(v), k, v[:5])
