import sys
from lists import *
for seed in map(int, sys.argv[1:]):
    p = gen(random.Random(seed)); print(seed, p)
    stats = collections.Counter(); fails = collections.defaultdict(list)
    run_one(seed, stats, fails); print("   ", dict(fails))
