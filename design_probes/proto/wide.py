"""Probe: solution-first generation for wide fields (to 64 bits): anchored statements, free draws + pins at v*."""
import sys, os, collections, io, contextlib, random, traceback, time
sys.path.insert(0, os.path.dirname(os.path.dirname(os.path.abspath(__file__)))); import shim2
import vsc
import run as R, render
from ref import *
WIDTHS = [1,2,7,8,9,15,16,17,31,32,33,48,63,64]
def gen_val(rng, fs, depth):
    r = rng.random()
    if depth <= 0 or r < 0.4: return ('f', rng.choice(fs))
    if r < 0.5:
        f = rng.choice(fs); hi = rng.randint(0, f.width-1); lo = rng.randint(max(0,hi-12), hi); return ('ps', f, hi, lo)
    op = rng.choice(['+','-','&','|','^','<<','>>'])
    l = gen_val(rng, fs, depth-1)
    if op in ('<<','>>'): return ('bin', op, l, ('lit', rng.randint(0,9)))
    rr = gen_val(rng, fs, depth-1) if rng.random() < 0.7 else ('lit', rng.randint(-50,50))
    return ('bin', op, l, rr)
def sized(v_bits, w, sg):
    if sg: return ('slit', to_signed(v_bits, w), w)
    return ('ulit', v_bits, w)
def anchored(rng, fs, env):
    E = gen_val(rng, fs, 2)
    bits, w = ev(E, env); sg = signed(E)
    c = sized(bits, w, sg)
    k = rng.random()
    if k < 0.35: return ('expr', ('bin', '==', E, c))
    if k < 0.5:
        other = sized((bits+1) & mask(w), w, sg); return ('expr', ('bin', '!=', E, other))
    if k < 0.75:
        op = rng.choice(['<=','>=']); return ('expr', ('bin', op, E, c))
    # implies with true antecedent
    F = gen_val(rng, fs, 1); fb, fw = ev(F, env)
    return ('implies', ('bin', '==', F, sized(fb, fw, signed(F))), [('expr', ('bin', '==', E, c))])
stats = collections.Counter(); fails = collections.defaultdict(list)
t0 = time.time()
for seed in range(int(sys.argv[1]), int(sys.argv[2])):
    rng = random.Random(seed)
    fs = []
    for i in range(rng.randint(1,4)):
        w = rng.choice(WIDTHS); sg = rng.random() < 0.4
        lo, hi = (-(1<<(w-1)), (1<<(w-1))-1) if sg else (0,(1<<w)-1)
        fs.append(Field("f%d"%i, w, sg, rng.random() < 0.8 or i == 0, rng.randint(lo,hi)))
    vstar = {f.name: (rng.randint(-(1<<(f.width-1)), (1<<(f.width-1))-1) if f.signed else rng.randint(0,(1<<f.width)-1)) if f.rand else f.init for f in fs}
    stmts = [anchored(rng, fs, vstar) for _ in range(rng.randint(1,3))]
    assert all(holds(s, vstar) for s in stmts)
    rf = [f for f in fs if f.rand]
    R.reset(); buf = io.StringIO()
    try:
        with contextlib.redirect_stdout(buf):
            o = R.build(fs, stmts)
            for i in range(3):
                o.randomize()
                env = {f.name: getattr(o, f.name) for f in fs}
                stats['free'] += 1
                for f in fs:
                    v = env[f.name]
                    lo, hi = (-(1<<(f.width-1)), (1<<(f.width-1))-1) if f.signed else (0,(1<<f.width)-1)
                    if not (lo <= v <= hi): fails[('out-of-type',)].append((seed, f, v))
                    if not f.rand and v != f.init: fails[('nonrand-changed',)].append(seed)
                if not all(holds(s, env) for s in stmts): fails[('unsound',)].append(seed); break
            # pin at v*
            with o.randomize_with() as it:
                for f in rf:
                    x = vstar[f.name]
                    getattr(it, f.name) == (vsc.signed(x, f.width) if f.signed else vsc.unsigned(x, f.width))
            got = {f.name: getattr(o, f.name) for f in rf}
            stats['pin'] += 1
            if any(got[f.name] != vstar[f.name] for f in rf): fails[('pin-readback',)].append(seed)
            # perturbed pin: flip one bit of one field, compare with reference
            f = rng.choice(rf); x = vstar[f.name] & mask(f.width); x ^= (1 << rng.randint(0, f.width-1))
            x = to_signed(x, f.width) if f.signed else x
            env = dict(vstar); env[f.name] = x
            exp = all(holds(s, env) for s in stmts)
            try:
                with o.randomize_with() as it:
                    for g in rf:
                        y = env[g.name]
                        getattr(it, g.name) == (vsc.signed(y, g.width) if g.signed else vsc.unsigned(y, g.width))
                stats['pert-ret'] += 1
                if not exp: fails[('pert-returned-nonmember',)].append(seed)
            except vsc.SolveFailure:
                stats['pert-sf'] += 1
                if exp: fails[('pert-rejected-member',)].append(seed)
    except vsc.SolveFailure:
        fails[('spurious-sf',)].append(seed)
    except Exception as e:
        tb = traceback.extract_tb(e.__traceback__)[-1]
        fails[('exc', type(e).__name__, str(e)[:60], tb.filename.split('/')[-1], tb.name)].append(seed); R.reset()
print(dict(stats), round(time.time()-t0,1), "s")
for k, v in sorted(fails.items(), key=lambda kv: -len(kv[1])): print(len(v), k, v[:5])
