import sys, random, itertools, traceback, io, contextlib, collections
sys.path.insert(0, __import__('os').path.dirname(__import__('os').path.dirname(__import__('os').path.abspath(__file__)))); import shim
import vsc
from ref import *; from gen import *; from render import *
from vsc.impl import ctor, expr_mode

def dom(f):
    return range(-(1<<(f.width-1)), 1<<(f.width-1)) if f.signed else range(0, 1<<f.width)

def reset():
    ctor.constraint_scope_stack.clear(); ctor.expr_l.clear(); ctor.srcinfo_mode_s.clear()
    expr_mode._expr_mode.clear(); expr_mode._raw_mode.clear()

def run_one(seed, stats, fails):
    rng = random.Random(seed)
    fs, stmts = gen_program(rng)
    rf = [f for f in fs if f.rand]
    bits = sum(f.width for f in rf)
    if bits > 10: stats['skip_big'] += 1; return
    env0 = {f.name: f.init for f in fs}
    sols = []
    for vals in itertools.product(*[dom(f) for f in rf]):
        env = dict(env0); env.update({f.name: v for f, v in zip(rf, vals)})
        if all(holds(s, env) for s in stmts): sols.append(vals)
    solset = set(sols)
    reset()
    buf = io.StringIO()
    try:
        with contextlib.redirect_stdout(buf):
            o = build(fs, stmts)
    except Exception as e:
        fails[('build', type(e).__name__, str(e)[:60])].append(seed); reset(); return
    # unpinned draws
    for i in range(6):
        try:
            with contextlib.redirect_stdout(buf):
                o.randomize()
            got = tuple(getattr(o, f.name) for f in rf)
            for f in fs:
                if not f.rand and getattr(o, f.name) != f.init:
                    fails[('nonrand-changed',)].append(seed)
            if got not in solset:
                fails[('unsound',)].append((seed, got)); break
            if not sols:
                fails[('returned-on-unsat',)].append(seed); break
        except vsc.SolveFailure:
            if sols: fails[('spurious-solvefail',)].append(seed)
            break
        except Exception as e:
            tb = traceback.extract_tb(e.__traceback__)[-1]
            fails[('exc', type(e).__name__, str(e)[:50], tb.filename.split('/')[-1], tb.lineno)].append(seed); reset(); break
    stats['sat' if sols else 'unsat'] += 1
    stats['programs'] += 1

if __name__ == '__main__':
    stats = collections.Counter(); fails = collections.defaultdict(list)
    a, b = int(sys.argv[1]), int(sys.argv[2])
    for seed in range(a, b):
        run_one(seed, stats, fails)
    print(dict(stats))
    for k, v in sorted(fails.items(), key=lambda kv: -len(kv[1])):
        print(len(v), k, v[:6])
