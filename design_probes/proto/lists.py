import sys, random, itertools, traceback, io, contextlib, collections
sys.path.insert(0, __import__('os').path.dirname(__import__('os').path.dirname(__import__('os').path.abspath(__file__)))); import shim2
import vsc
from vsc.impl import ctor, expr_mode
from ref import mask, to_signed

def reset():
    ctor.constraint_scope_stack.clear(); ctor.expr_l.clear(); ctor.srcinfo_mode_s.clear()
    expr_mode._expr_mode.clear(); expr_mode._raw_mode.clear()

CM = {'==':lambda a,b:a==b,'!=':lambda a,b:a!=b,'<':lambda a,b:a<b,'<=':lambda a,b:a<=b,'>':lambda a,b:a>b,'>=':lambda a,b:a>=b}
import operator
PY = {'==':operator.eq,'!=':operator.ne,'<':operator.lt,'<=':operator.le,'>':operator.gt,'>=':operator.ge}

def gen(rng):
    p = {}
    p['w'] = rng.randint(2,3)
    p['aw'] = rng.randint(2,3)
    p['kind'] = rng.choice(['fixed','randsz','randsz'])
    p['n'] = rng.randint(0,4)
    stm = []
    if p['kind'] == 'randsz':
        lo = rng.randint(0,2); hi = rng.randint(lo, 4)
        stm.append(('size_in', lo, hi))
        if rng.random() < 0.3: stm.append(('size_cmp', rng.choice(['==','<=','>','!=']), 'a'))
        if rng.random() < 0.3: stm.append(('size_cmp', rng.choice(['==','<=','>','!=']), rng.randint(0,4)))
    for _ in range(rng.randint(1,3)):
        r = rng.random()
        if r < 0.3: stm.append(('each', rng.choice(list(CM)), rng.choice(['a', rng.randint(0,7)])))
        elif r < 0.45: stm.append(('each_idx', rng.choice(list(CM)), rng.randint(0,2)))   # l[i] op i+k
        elif r < 0.6: stm.append(('chain', rng.choice(list(CM)), rng.randint(0,2)))       # if i>0: l[i] op l[i-1]+k
        elif r < 0.75: stm.append(('sum', rng.choice(list(CM)), rng.choice(['a', rng.randint(0,12)])))
        elif r < 0.85: stm.append(('unique',))
        elif r < 0.92: stm.append(('first_eq_size',))
        else: stm.append(('a_cmp', rng.choice(list(CM)), rng.randint(0,7)))
    p['stm'] = stm
    return p

def ref_holds(p, a, l):
    w = p['w']; n = len(l)
    for s in p['stm']:
        k = s[0]
        if k == 'size_in':
            if not (s[1] <= n <= s[2]): return False
        elif k == 'size_cmp':
            rhs = a if s[2] == 'a' else s[2]
            if not CM[s[1]](n, rhs): return False
        elif k == 'each':
            rhs = a if s[2] == 'a' else s[2]
            if not all(CM[s[1]](x, rhs) for x in l): return False
        elif k == 'each_idx':
            if not all(CM[s[1]](x, i+s[2]) for i,x in enumerate(l)): return False
        elif k == 'chain':
            # l[i] op (l[i-1] + k): width: l elems w bits + literal 32 -> 32-bit unsigned, no wrap
            if not all(CM[s[1]](l[i], l[i-1]+s[2]) for i in range(1,n)): return False
        elif k == 'sum':
            rhs = a if s[2] == 'a' else s[2]
            if not CM[s[1]](sum(l), rhs): return False
        elif k == 'unique':
            if len(set(l)) != n: return False
        elif k == 'first_eq_size':
            if n > 0 and l[0] != n: return False
        elif k == 'a_cmp':
            if not CM[s[1]](a, s[2]): return False
    return True

def build(p):
    w = p['w']
    class T(object):
        def __init__(self):
            self.a = vsc.rand_bit_t(p['aw'])
            if p['kind'] == 'fixed': self.l = vsc.rand_list_t(vsc.bit_t(w), p['n'])
            else: self.l = vsc.randsz_list_t(vsc.bit_t(w))
        @vsc.constraint
        def c(self):
            for s in p['stm']:
                k = s[0]
                if k == 'size_in': self.l.size in vsc.rangelist(vsc.rng(s[1], s[2]))
                elif k == 'size_cmp': PY[s[1]](self.l.size, self.a if s[2]=='a' else s[2])
                elif k == 'each':
                    with vsc.foreach(self.l) as it:
                        PY[s[1]](it, self.a if s[2]=='a' else s[2])
                elif k == 'each_idx':
                    with vsc.foreach(self.l, idx=True) as i:
                        PY[s[1]](self.l[i], i + s[2])
                elif k == 'chain':
                    with vsc.foreach(self.l, idx=True) as i:
                        with vsc.if_then(i > 0):
                            PY[s[1]](self.l[i], self.l[i-1] + s[2])
                elif k == 'sum': PY[s[1]](self.l.sum, self.a if s[2]=='a' else s[2])
                elif k == 'unique': vsc.unique(self.l)
                elif k == 'first_eq_size':
                    with vsc.if_then(self.l.size > 0):
                        self.l[0] == self.l.size
                elif k == 'a_cmp': PY[s[1]](self.a, s[2])
    return vsc.randobj(T)()

def run_one(seed, stats, fails):
    rng = random.Random(seed)
    p = gen(rng)
    w = p['w']
    sizes = [p['n']] if p['kind']=='fixed' else range(0,5)
    sols = set()
    for n in sizes:
        for a in range(1<<p['aw']):
            for l in itertools.product(range(1<<w), repeat=n):
                if ref_holds(p, a, l): sols.add((a, l))
    reset(); buf = io.StringIO()
    try:
        with contextlib.redirect_stdout(buf): o = build(p)
    except Exception as e:
        tb = traceback.extract_tb(e.__traceback__)[-1]
        fails[('build', type(e).__name__, str(e)[:60], tb.filename.split('/')[-1], tb.name)].append(seed); reset(); return
    stats['sat' if sols else 'unsat'] += 1
    for i in range(5):
        try:
            with contextlib.redirect_stdout(buf): o.randomize()
            l = tuple(o.l); a = o.a
            if len(o.l) != len(l) or o.l.size != len(l) or any(o.l[i] != l[i] for i in range(len(l))):
                fails[('facade-disagree',)].append(seed); break
            if (a, l) not in sols:
                fails[('unsound', tuple(s[0] for s in p['stm']) if len(p['stm'])<4 else 'many')].append((seed, a, l)); break
        except vsc.SolveFailure:
            if sols: fails[('spurious-sf', p['kind'])].append(seed)
            break
        except Exception as e:
            tb = traceback.extract_tb(e.__traceback__)[-1]
            fails[('exc', type(e).__name__, str(e)[:50], tb.filename.split('/')[-1], tb.name)].append(seed); reset(); break

if __name__ == '__main__':
    stats = collections.Counter(); fails = collections.defaultdict(list)
    for seed in range(int(sys.argv[1]), int(sys.argv[2])):
        run_one(seed, stats, fails)
    print(dict(stats))
    for k, v in sorted(fails.items(), key=lambda kv: -len(kv[1])):
        print(len(v), k, v[:5])
