"""Prototype reference semantics + program generator (exploration only)."""
import random, itertools

CMP = {'==','!=','<','<=','>','>='}
ARITH = {'+','-','*','&','|','^','<<','>>','/','%'}

class Field:
    def __init__(self, name, width, signed, rand, init=0):
        self.name, self.width, self.signed, self.rand, self.init = name, width, signed, rand, init
    def __repr__(self): return "%s%s%d%s" % (self.name, 'i' if self.signed else 'u', self.width, 'r' if self.rand else 'n')

def mask(w): return (1<<w)-1
def to_signed(v, w):
    v &= mask(w)
    return v - (1<<w) if v >> (w-1) else v

# Expr: ('f',Field) ('lit',v)  ('ulit',v,w) ('slit',v,w) ('bin',op,l,r) ('not',e) ('in',e,[items]) ('ps',Field,hi,lo)
def width(e):
    k = e[0]
    if k == 'f': return e[1].width
    if k == 'lit': return 32
    if k in ('ulit','slit'): return e[2]
    if k == 'bin':
        if e[1] in CMP: return 1
        return max(width(e[2]), width(e[3]))
    if k == 'not': return width(e[1])
    if k == 'in': return 1
    if k == 'ps': return e[2]-e[3]+1
    raise Exception(k)
def signed(e):
    k = e[0]
    if k == 'f': return e[1].signed
    if k == 'lit': return True
    if k == 'ulit': return False
    if k == 'slit': return True
    if k == 'bin': return signed(e[2]) and signed(e[3])
    if k == 'not': return signed(e[1])
    if k in ('in','ps'): return False
    raise Exception(k)

def ext(v, w, cw, sgn):
    # v is w-bit pattern; extend to cw
    if cw <= w: return v & mask(cw) if cw < w else v
    if sgn: return to_signed(v, w) & mask(cw)
    return v

def ev(e, env, ctx=-1):
    """returns (bits, width)"""
    k = e[0]
    if k == 'f':
        f = e[1]; return (env[f.name] & mask(f.width), f.width)
    if k == 'lit':
        w = max(32, ctx); return (e[1] & mask(w), w)
    if k in ('ulit','slit'):
        w = max(e[2], ctx); return (e[1] & mask(w), w)
    if k == 'ps':
        f = e[1]; v = env[f.name] & mask(f.width)
        return ((v >> e[3]) & mask(e[2]-e[3]+1), e[2]-e[3]+1)
    if k == 'not':
        cw = max(width(e[1]), ctx)
        v, w = ev(e[1], env, cw)
        return ((~v) & mask(w), w)
    if k == 'in':
        lhs = e[1]; res = 0
        for it in e[2]:
            if it[0] == 'rng':
                a = ev(('bin','>=',lhs,it[1]), env)[0]
                b = ev(('bin','<=',lhs,it[2]), env)[0]
                res |= (a & b)
            else:
                res |= ev(('bin','==',lhs,it), env)[0]
        return (res, 1)
    if k == 'bin':
        op, l, r = e[1], e[2], e[3]
        cw = max(width(l), width(r), ctx)
        sg = signed(l) and signed(r)
        lv, lw = ev(l, env, cw); rv, rw = ev(r, env, cw)
        lv = ext(lv, lw, cw, sg); rv = ext(rv, rw, cw, sg)
        # widths: child may return wider than cw? no.
        w = max(cw, lw, rw)
        if op in CMP:
            if sg: a, b = to_signed(lv, w), to_signed(rv, w)
            else: a, b = lv, rv
            res = {'==':a==b,'!=':a!=b,'<':a<b,'<=':a<=b,'>':a>b,'>=':a>=b}[op]
            return (1 if res else 0, 1)
        if op == '+': return ((lv+rv) & mask(w), w)
        if op == '-': return ((lv-rv) & mask(w), w)
        if op == '*': return ((lv*rv) & mask(w), w)
        if op == '&': return (lv & rv, w)
        if op == '|': return (lv | rv, w)
        if op == '^': return (lv ^ rv, w)
        if op == '<<': return ((lv << rv) & mask(w) if rv < w else 0, w)
        if op == '>>': return ((lv >> rv) if rv < w else 0, w)
        if op == '/': return ((lv // rv) if rv != 0 else mask(w), w)
        if op == '%': return ((lv % rv) if rv != 0 else lv, w)
    raise Exception(e)

def truth(e, env):
    v, w = ev(e, env)
    return v != 0

# Stmt: ('expr',e) ('if',[(cond,[stmts])...], else_stmts or None) ('implies',cond,[stmts]) ('unique',[exprs]) 
def holds(s, env):
    k = s[0]
    if k == 'expr': return truth(s[1], env)
    if k == 'if':
        for cond, body in s[1]:
            if truth(cond, env):
                return all(holds(b, env) for b in body)
        if s[2] is not None:
            return all(holds(b, env) for b in s[2])
        return True
    if k == 'implies':
        return (not truth(s[1], env)) or all(holds(b, env) for b in s[2])
    if k == 'unique':
        es = s[1]
        for i in range(len(es)):
            for j in range(i+1, len(es)):
                if not truth(('bin','!=',es[i],es[j]), env): return False
        return True
    raise Exception(k)
