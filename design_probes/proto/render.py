import vsc
from ref import *
import operator
OPS = {'==':operator.eq,'!=':operator.ne,'<':operator.lt,'<=':operator.le,'>':operator.gt,'>=':operator.ge,
 '+':operator.add,'-':operator.sub,'*':operator.mul,'&':operator.and_,'|':operator.or_,'^':operator.xor,
 '<<':operator.lshift,'>>':operator.rshift,'/':operator.truediv,'%':operator.mod}

def r_expr(e, obj):
    k = e[0]
    if k == 'f': return getattr(obj, e[1].name)
    if k == 'lit': return e[1]
    if k == 'ulit': return vsc.unsigned(e[1], e[2])
    if k == 'slit': return vsc.signed(e[1], e[2])
    if k == 'ps':
        f = getattr(obj, e[1].name)
        return f[e[2]:e[3]]
    if k == 'not': return ~r_expr(e[1], obj)
    if k == 'in':
        items = []
        for it in e[2]:
            if it[0] == 'rng': items.append(vsc.rng(it[1][1], it[2][1]))
            else: items.append(it[1])
        return r_expr(e[1], obj).inside(vsc.rangelist(*items))
    if k == 'bin':
        l = r_expr(e[2], obj); r = r_expr(e[3], obj)
        return OPS[e[1]](l, r)
    raise Exception(e)

def r_stmt(s, obj):
    k = s[0]
    if k == 'expr':
        r_expr(s[1], obj)
    elif k == 'if':
        for i,(cond, body) in enumerate(s[1]):
            cm = vsc.if_then(r_expr(cond, obj)) if i == 0 else vsc.else_if(r_expr(cond, obj))
            with cm:
                for b in body: r_stmt(b, obj)
        if s[2] is not None:
            with vsc.else_then:
                for b in s[2]: r_stmt(b, obj)
    elif k == 'implies':
        with vsc.implies(r_expr(s[1], obj)):
            for b in s[2]: r_stmt(b, obj)
    elif k == 'unique':
        vsc.unique(*[r_expr(x, obj) for x in s[1]])

def mk_field(f):
    if f.signed:
        return vsc.rand_int_t(f.width) if f.rand else vsc.int_t(f.width)
    return vsc.rand_bit_t(f.width) if f.rand else vsc.bit_t(f.width)

def build(fs, stmts):
    class T(object):
        def __init__(self):
            for f in fs:
                setattr(self, f.name, mk_field(f))
        @vsc.constraint
        def c0(self):
            for s in stmts: r_stmt(s, self)
    T = vsc.randobj(T)
    o = T()
    for f in fs:
        setattr(o, f.name, f.init)
    return o
