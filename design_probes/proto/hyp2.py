"""Probe: imperative @composite generation (gen.py driven by Hypothesis draws) — throughput and shrinking."""
import sys, os, time, collections, itertools, io, contextlib
sys.path.insert(0, os.path.dirname(os.path.dirname(os.path.abspath(__file__)))); import shim2
import vsc
from hypothesis import given, settings, strategies as st, seed, HealthCheck
from ref import *
import run as R, gen, run3
class DrawRng:
    def __init__(self, draw): self.draw = draw
    def random(self): return self.draw(st.integers(0, 999)) / 1000.0
    def randint(self, a, b): return self.draw(st.integers(a, b))
    def choice(self, seq): return seq[self.draw(st.integers(0, len(seq)-1))]
    def sample(self, seq, k):
        seq = list(seq); out = []
        for _ in range(k): out.append(seq.pop(self.draw(st.integers(0, len(seq)-1))))
        return out
@st.composite
def programs(draw):
    rng = DrawRng(draw)
    fs = gen.gen_fields(rng)
    stmts = []
    for _ in range(rng.randint(1,3)):
        for attempt in range(5):
            s = gen.gen_stmt(rng, fs, 2)
            if not run3.stmt_nofield(s) and not has_not_under(s): break
        else:
            s = ('expr', ('bin', '==', ('f', fs[0]), ('f', fs[0])))
        stmts.append(s)
    return fs, stmts
def e_has_not_under(e, under=False):
    if e[0] == 'not': return under or e_has_not_under(e[1], under)
    if e[0] == 'bin': return e_has_not_under(e[2], True) or e_has_not_under(e[3], True)
    return False
def has_not_under(s):
    k = s[0]
    if k == 'expr': return e_has_not_under(s[1])
    if k == 'unique': return False
    if k == 'implies': return e_has_not_under(s[1]) or any(has_not_under(b) for b in s[2])
    if k == 'if': return any(e_has_not_under(c) or any(has_not_under(b) for b in body) for c, body in s[1]) or (s[2] is not None and any(has_not_under(b) for b in s[2]))
STATS = collections.Counter()
from hyp import check
if __name__ == '__main__':
    t = time.time()
    @seed(int(sys.argv[1]))
    @settings(max_examples=int(sys.argv[2]), deadline=None, database=None, suppress_health_check=list(HealthCheck))
    @given(programs())
    def test(p):
        if sum(f.width for f in p[0] if f.rand) > 10: STATS['big'] += 1; return
        try: check(p); STATS['ok'] += 1
        except AssertionError: raise
        except Exception as e:
            STATS['exc:' + type(e).__name__] += 1; R.reset()
    test()
    print(dict(STATS), round(time.time()-t, 1), "s")
