import shim2, vsc, traceback, io, contextlib, collections, enum
def attempt(name, f):
    try:
        buf = io.StringIO()
        with contextlib.redirect_stdout(buf):
            r = f()
        print(name, "->", r)
    except Exception as e:
        print(name, "EXC", type(e).__name__, e); traceback.print_exc()
class E(enum.IntEnum):
    A = 1; B = 5; C = 9; D = -3
class F(enum.Enum):
    X = enum.auto(); Y = enum.auto(); Z = enum.auto()
@vsc.randobj
class O:
    def __init__(self):
        self.e = vsc.rand_enum_t(E); self.f = vsc.rand_enum_t(F); self.g = vsc.enum_t(E)
        self.a = vsc.rand_uint8_t()
        self.le = vsc.rand_list_t(vsc.enum_t(E), 3)
    @vsc.constraint
    def c(self):
        self.e != E.A
        self.e != self.g
        self.f.inside(vsc.rangelist(F.X, F.Z))
        with vsc.if_then(self.e == E.D):
            self.a == 1
        with vsc.else_then:
            self.a > 100
        vsc.unique(self.le)
    @vsc.dynamic_constraint
    def small(self):
        self.a < 110
    @vsc.dynamic_constraint
    def big(self):
        self.a > 200
def f():
    o = O(); s=collections.Counter()
    o.g = E.B
    for i in range(40):
        o.randomize(); s[(o.e, o.f, o.a > 100, o.g, tuple(o.le)[0])] += 1
    keys = set((k[0],k[1],k[2]) for k in s)
    r = []
    for i in range(10):
        with o.randomize_with() as it:
            it.small() | it.big()
            it.e != E.D
        r.append(o.a)
    r2 = []
    for i in range(10):
        with o.randomize_with() as it:
            ~it.small() 
            it.e != E.D
        r2.append(o.a)
    r3 = []
    for i in range(10):
        with o.randomize_with() as it:
            (~it.small()) & (~it.big())
            it.e != E.D
        r3.append(o.a)
    return keys, r, r2, r3
attempt("enum", f)
