import shim, vsc, traceback
def attempt(name, f):
    try:
        r = f()
        print(name, "->", r)
    except Exception as e:
        print(name, "EXC", type(e).__name__, e); traceback.print_exc()

@vsc.randobj
class L:
    def __init__(self):
        self.l = vsc.randsz_list_t(vsc.uint8_t())
        self.a = vsc.rand_uint8_t()
    @vsc.constraint
    def c(self):
        self.l.size in vsc.rangelist(vsc.rng(1,6))
        self.l.sum == 20
        with vsc.foreach(self.l, idx=True) as i:
            self.l[i] < 10
def f():
    o = L()
    out=[]
    for i in range(8):
        o.randomize()
        out.append((len(o.l), o.l.size, list(o.l), sum(o.l)))
    return out
attempt("randsz-sum", f)

@vsc.randobj
class L2:
    def __init__(self):
        self.l = vsc.randsz_list_t(vsc.uint8_t())
    @vsc.constraint
    def c(self):
        self.l.size in vsc.rangelist(vsc.rng(1,6))
        self.l.sum == 20
        self.l[0] == self.l.size
        with vsc.foreach(self.l, idx=True) as i:
            self.l[i] < 10
def f():
    o = L2()
    out=[]
    for i in range(8):
        o.randomize()
        out.append((len(o.l), o.l.size, list(o.l), sum(o.l)))
    return out
attempt("randsz-sum-coupled", f)
