import sys, os, io, contextlib, random, hashlib
import shim2, vsc
from vsc.model.rand_state import RandState
@vsc.randobj
class C:
    def __init__(self):
        for n in "abcdefgh": setattr(self, n, vsc.rand_bit_t(6))
        self.l = vsc.rand_list_t(vsc.uint8_t(), 5)
    @vsc.constraint
    def c1(self):
        vsc.solve_order([self.a, self.b, self.c], [self.d, self.e])
        vsc.solve_order(self.d, [self.f, self.g])
        vsc.solve_order(self.e, self.h)
        self.a + self.b < self.d
        self.c != self.e
        self.f > self.d
        self.g < self.d + 4
        self.h != self.e
        vsc.unique(self.a, self.b, self.c, self.f)
        with vsc.foreach(self.l, idx=True) as i:
            with vsc.if_then(i > 0):
                self.l[i] > self.l[i-1]
        self.l[0] > self.a
buf = io.StringIO()
with contextlib.redirect_stdout(buf):
    o = C(); o.set_randstate(RandState.mkFromSeed(7))
    out = []
    for i in range(15):
        o.randomize(); out.append(tuple(getattr(o, n) for n in "abcdefgh") + tuple(o.l))
print(hashlib.md5(repr(out).encode()).hexdigest())
