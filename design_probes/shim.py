import pyboolector
for n in ("BTOR_OPT_INCREMENTAL","BTOR_OPT_MODEL_GEN"):
    if not hasattr(pyboolector, n):
        setattr(pyboolector, n, getattr(pyboolector.BtorOption, n))
import vsc
