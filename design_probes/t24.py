import shim2, vsc, io, contextlib
@vsc.randobj
class Base:
    def __init__(self):
        self.b = vsc.rand_bit_t(4); self.c = vsc.rand_bit_t(4)
@vsc.randobj
class Derived(Base):
    def __init__(self):
        super().__init__()
        self.a = vsc.rand_bit_t(4)
@vsc.randobj
class Top:
    def __init__(self):
        self.arr = vsc.rand_list_t(Base(), 0)
        self.arr.append(Base()); self.arr.append(Derived())
    @vsc.constraint
    def c(self):
        with vsc.foreach(self.arr, idx=True) as i:
            self.arr[i].b == 3
            self.arr[i].c == 9
sink = io.StringIO()
with contextlib.redirect_stdout(sink):
    t = Top(); t.randomize()
print([(e.b, e.c) for e in t.arr], t.arr[1].a)
