import shim2, vsc, traceback, io, contextlib, collections
def attempt(name, f):
    try:
        buf = io.StringIO()
        with contextlib.redirect_stdout(buf):
            r = f()
        print(name, "->", r)
    except Exception as e:
        print(name, "EXC", type(e).__name__, e); traceback.print_exc()

@vsc.randobj
class D:
    def __init__(self):
        self.a = vsc.rand_bit_t(4); self.b = vsc.rand_bit_t(4)
        self.w = vsc.bit_t(4, i=0)
    @vsc.constraint
    def c(self):
        vsc.dist(self.a, [vsc.weight(1, 1), vsc.weight((3,6), 2), vsc.weight(9, 0), vsc.weight(12, self.w), vsc.weight((13,15), 1)])
def f():
    o = D(); h = collections.Counter()
    for i in range(2000):
        o.randomize(); h[o.a]+=1
    r1 = sorted(h.items())
    o.w = 4; h = collections.Counter()
    for i in range(2000):
        o.randomize(); h[o.a]+=1
    r2 = sorted(h.items())
    h = collections.Counter()
    for i in range(500):
        with o.randomize_with() as it:
            it.a > 4
        h[o.a]+=1
    return r1, r2, sorted(h.items())
attempt("dist", f)

@vsc.randobj
class SO:
    def __init__(self):
        self.a = vsc.rand_bit_t(1); self.b = vsc.rand_bit_t(4)
    @vsc.constraint
    def c(self):
        vsc.solve_order(self.a, self.b)
        with vsc.if_then(self.a == 0):
            self.b == 4
        with vsc.else_then:
            self.b != 4
def f():
    o = SO(); h = collections.Counter()
    for i in range(1000):
        o.randomize(); h[o.a]+=1
    return sorted(h.items())
attempt("so", f)
@vsc.randobj
class SO2:
    def __init__(self):
        self.a = vsc.rand_bit_t(1); self.b = vsc.rand_bit_t(4)
    @vsc.constraint
    def c(self):
        with vsc.if_then(self.a == 0):
            self.b == 4
        with vsc.else_then:
            self.b != 4
def f():
    o = SO2(); h = collections.Counter()
    for i in range(1000):
        o.randomize(); h[o.a]+=1
    return sorted(h.items())
attempt("no-so", f)
def f():
    import random
    h = collections.Counter()
    for i in range(6000): h[vsc.distselect([1,0,2,3,0])]+=1
    return sorted(h.items())
attempt("distselect", f)
