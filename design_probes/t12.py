import shim2, vsc, traceback, io, contextlib, collections
def attempt(name, f):
    try:
        buf = io.StringIO()
        with contextlib.redirect_stdout(buf):
            r = f()
        print(name, "->", r)
    except Exception as e:
        print(name, "EXC", type(e).__name__, e); traceback.print_exc()

def mkcg(bins, ignore=None, illegal=None, w=4, opts=None):
    @vsc.covergroup
    class cg(object):
        def __init__(self):
            self.with_sample(dict(a=vsc.bit_t(w)))
            if opts: 
                for k,v in opts.items(): setattr(self.options, k, v)
            self.cp = vsc.coverpoint(self.a, bins=bins, ignore_bins=ignore, illegal_bins=illegal)
    return cg()
def dump(c, w=4):
    m = c.get_model().coverpoint_l[0]
    names = [m.get_bin_name(i) for i in range(m.get_n_bins())]
    table = {}
    for v in range(1<<w):
        before = list(m.hit_l); bi = list(m.hit_ignore_l); bl = list(m.hit_illegal_l)
        c.sample(v)
        hit = [i for i in range(len(before)) if m.hit_l[i] != before[i]]
        hi = [i for i in range(len(bi)) if m.hit_ignore_l[i] != bi[i]]
        hl = [i for i in range(len(bl)) if m.hit_illegal_l[i] != bl[i]]
        table[v] = (hit, hi, hl)
    return names, table
def f():
    return dump(mkcg(dict(a=vsc.bin_array([3], [1,10]))))
attempt("arr3of10", f)
def f():
    return dump(mkcg(dict(a=vsc.bin_array([4], [1,3],[4,6],[7,9],[10,12])), ignore=dict(i=vsc.bin(4))))
attempt("doc-ignore", f)
def f():
    return dump(mkcg(dict(a=vsc.bin([1,10],[3,5]), b=vsc.bin(2, [1,4]))))
attempt("bin-overlap", f)
def f():
    return dump(mkcg(dict(a=vsc.bin_array([], [1,3], 7, [9,10]))))
attempt("arr-unlimited", f)
def f():
    return dump(mkcg(None, opts=dict(auto_bin_max=3)))
attempt("auto3", f)
def f():
    return dump(mkcg(None, ignore=dict(x=vsc.bin(0, [5,6])), opts=dict(auto_bin_max=4)))
attempt("auto4-ignore", f)
