import shim, vsc, traceback
def attempt(name, f):
    try:
        r = f()
        print(name, "->", r)
    except Exception as e:
        print(name, "EXC", type(e).__name__, e)

# C02: negation as operand of &
@vsc.randobj
class N:
    def __init__(self):
        self.a = vsc.rand_bit_t(4); self.b = vsc.rand_bit_t(4)
    @vsc.constraint
    def c(self):
        (~(self.a < self.b)) & (self.a != 0)
def f():
    n = N(); n.randomize(); return (n.a, n.b)
attempt("not-and", f)

@vsc.randobj
class N2:
    def __init__(self):
        self.a = vsc.rand_bit_t(4); self.b = vsc.rand_bit_t(4)
    @vsc.constraint
    def c(self):
        self.a.not_inside(vsc.rangelist(1,2)) | (self.b == 3)
def f():
    n = N2(); n.randomize(); return (n.a, n.b)
attempt("notinside-or", f)

@vsc.randobj
class N3:
    def __init__(self):
        self.a = vsc.rand_bit_t(4); self.b = vsc.rand_bit_t(4)
    @vsc.constraint
    def c(self):
        ~(self.a < self.b)
def f():
    n = N3(); n.randomize(); return (n.a, n.b)
attempt("not-alone", f)
